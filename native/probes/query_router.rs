
// ---- appended by /verif/native/oracle.py (scratch copy only) ----
#[cfg(test)]
pub(crate) mod verif_probe {
    use super::*;
    use serde_json::{json, Value};

    pub(crate) fn hex(s: &str) -> Vec<u8> {
        (0..s.len() / 2).map(|i| u8::from_str_radix(&s[2 * i..2 * i + 2], 16).unwrap()).collect()
    }

    pub(crate) fn settings(v: &Value) -> PoolSettings {
        let mut ps = PoolSettings::default();
        if let Some(x) = v.get("shards").and_then(|x| x.as_u64()) { ps.shards = x as usize; }
        if let Some(x) = v.get("default_role").and_then(|x| x.as_str()) {
            ps.default_role = match x { "primary" => Some(Role::Primary), "replica" => Some(Role::Replica), _ => None };
        }
        if let Some(x) = v.get("query_parser_enabled").and_then(|x| x.as_bool()) { ps.query_parser_enabled = x; }
        if let Some(x) = v.get("query_parser_read_write_splitting").and_then(|x| x.as_bool()) { ps.query_parser_read_write_splitting = x; }
        if let Some(x) = v.get("primary_reads_enabled").and_then(|x| x.as_bool()) { ps.primary_reads_enabled = x; }
        if let Some(x) = v.get("sharding_function").and_then(|x| x.as_str()) {
            ps.sharding_function = if x == "sha1" { crate::sharding::ShardingFunction::Sha1 } else { crate::sharding::ShardingFunction::PgBigintHash };
        }
        if let Some(x) = v.get("automatic_sharding_key").and_then(|x| x.as_str()) { ps.automatic_sharding_key = Some(x.to_string()); }
        if let Some(x) = v.get("sharding_key_regex").and_then(|x| x.as_str()) { ps.sharding_key_regex = Some(Regex::new(x).unwrap()); }
        if let Some(x) = v.get("shard_id_regex").and_then(|x| x.as_str()) { ps.shard_id_regex = Some(Regex::new(x).unwrap()); }
        if let Some(x) = v.get("regex_search_limit").and_then(|x| x.as_u64()) { ps.regex_search_limit = x as usize; }
        if let Some(x) = v.get("query_parser_max_length").and_then(|x| x.as_u64()) { ps.query_parser_max_length = Some(x as usize); }
        ps
    }

    fn role_s(r: Option<Role>) -> Value {
        match r { Some(Role::Primary) => json!("primary"), Some(Role::Replica) => json!("replica"), Some(Role::Mirror) => json!("mirror"), None => Value::Null }
    }

    pub(crate) fn state(qr: &QueryRouter) -> Value {
        json!({
            "active_shard": qr.active_shard.map(|x| x.to_string()),
            "active_role": role_s(qr.active_role),
            "qpe_override": qr.query_parser_enabled,
            "pre_override": qr.primary_reads_enabled,
            "query_parser_enabled": qr.query_parser_enabled(),
            "primary_reads_enabled": qr.primary_reads_enabled(),
            "placeholders": qr.placeholders.clone(),
        })
    }

    fn msg_of(step: &Value) -> BytesMut {
        if let Some(h) = step.get("hex").and_then(|x| x.as_str()) {
            return BytesMut::from(&hex(h)[..]);
        }
        let q = step["query"].as_str().unwrap();
        let code = step.get("code").and_then(|x| x.as_str()).unwrap_or("Q");
        let mut b = BytesMut::new();
        use bytes::BufMut;
        b.put_u8(code.as_bytes()[0]);
        if code == "P" {
            b.put_i32(4 + 1 + q.len() as i32 + 1 + 2);
            b.put_u8(0);
            b.put_slice(q.as_bytes());
            b.put_u8(0);
            b.put_i16(0);
        } else {
            b.put_i32(4 + q.len() as i32 + 1);
            b.put_slice(q.as_bytes());
            b.put_u8(0);
        }
        b
    }

    fn body_shape(b: &SetExpr) -> Value {
        match b {
            SetExpr::Select(sel) => json!({"kind": "Select", "into": sel.into.is_some()}),
            SetExpr::Query(q) => json!({"kind": "Query", "query": query_shape(q)}),
            SetExpr::SetOperation { left, right, .. } => json!({"kind": "SetOperation", "left": body_shape(left), "right": body_shape(right)}),
            SetExpr::Values(_) => json!({"kind": "Values"}),
            SetExpr::Insert(_) => json!({"kind": "Insert"}),
            SetExpr::Update(_) => json!({"kind": "Update"}),
            SetExpr::Table(_) => json!({"kind": "Table"}),
        }
    }

    fn query_shape(q: &sqlparser::ast::Query) -> Value {
        let with: Vec<Value> = match &q.with { Some(w) => w.cte_tables.iter().map(|c| query_shape(&c.query)).collect(), None => vec![] };
        json!({"locks": q.locks.len(), "with": with, "body": body_shape(q.body.as_ref())})
    }

    pub(crate) fn handle(op: &str, v: &Value) -> Option<Value> {
        match op {
            "ast_shape" => {
                let sql = v["sql"].as_str().unwrap();
                match Parser::parse_sql(&PostgreSqlDialect {}, sql) {
                    Err(e) => Some(json!({"parse_error": e.to_string()})),
                    Ok(ast) => {
                        let mut out = vec![];
                        for st in ast.iter() {
                            let dbg = format!("{:?}", st);
                            let kind = dbg.split(|c: char| !c.is_alphanumeric()).next().unwrap_or("").to_string();
                            match st {
                                Statement::Query(q) => out.push(json!({"kind": kind, "query": query_shape(q)})),
                                _ => out.push(json!({"kind": kind})),
                            }
                        }
                        Some(json!({"statements": out}))
                    }
                }
            }
            // run a sequence of messages through one QueryRouter
            "qr_seq" => {
                QueryRouter::setup();
                let mut qr = QueryRouter::new();
                qr.update_pool_settings(&settings(&v["settings"]));
                if let Some(pre) = v.get("pre") {
                    if let Some(x) = pre.get("active_shard").and_then(|x| x.as_u64()) { qr.active_shard = Some(x as usize); }
                    if let Some(x) = pre.get("active_role").and_then(|x| x.as_str()) {
                        qr.active_role = match x { "primary" => Some(Role::Primary), "replica" => Some(Role::Replica), _ => None };
                    }
                    if let Some(x) = pre.get("qpe_override").and_then(|x| x.as_bool()) { qr.query_parser_enabled = Some(x); }
                    if let Some(x) = pre.get("pre_override").and_then(|x| x.as_bool()) { qr.primary_reads_enabled = Some(x); }
                }
                let mut out = vec![];
                for step in v["steps"].as_array().unwrap() {
                    let what = step.get("do").and_then(|x| x.as_str()).unwrap_or("command");
                    let msg = msg_of(step);
                    let r = std::panic::catch_unwind(std::panic::AssertUnwindSafe(|| {
                        match what {
                            "command" => {
                                match qr.try_execute_command(&msg) {
                                    Some((c, val)) => json!({"cmd": format!("{:?}", c), "value": val}),
                                    None => json!({"cmd": Value::Null}),
                                }
                            }
                            "infer" => {
                                match qr.parse(&msg) {
                                    Ok(ast) => {
                                        let n = ast.len();
                                        match qr.infer(&ast) {
                                            Ok(()) => json!({"parsed": n, "infer": "ok"}),
                                            Err(e) => json!({"parsed": n, "infer": format!("{:?}", e)}),
                                        }
                                    }
                                    Err(e) => json!({"parse_error": format!("{:?}", e)}),
                                }
                            }
                            "bind" => {
                                match qr.infer_shard_from_bind(&msg) {
                                    true => json!({"bind": true}),
                                    false => json!({"bind": false}),
                                }
                            }
                            _ => json!({"error": "unknown step"}),
                        }
                    }));
                    match r {
                        Ok(mut x) => { x["state"] = state(&qr); out.push(x); }
                        Err(e) => {
                            let msg = if let Some(s) = e.downcast_ref::<String>() { s.clone() }
                                      else if let Some(s) = e.downcast_ref::<&str>() { s.to_string() } else { "panic".to_string() };
                            out.push(json!({"panic": msg}));
                            break;
                        }
                    }
                }
                Some(json!({"steps": out}))
            }
            "qr_bind" => {
                let mut qr = QueryRouter::new();
                qr.update_pool_settings(&settings(&v["settings"]));
                for p in v["placeholders"].as_array().unwrap() { qr.placeholders.push(p.as_i64().unwrap() as i16); }
                let msg = BytesMut::from(&hex(v["hex"].as_str().unwrap())[..]);
                let r = qr.infer_shard_from_bind(&msg);
                Some(json!({"result": r, "active_shard": qr.active_shard.map(|x| x.to_string()), "placeholders_left": qr.placeholders.len()}))
            }
            "role_eq" => {
                let roles = [Role::Primary, Role::Replica, Role::Mirror];
                let mut all_ok = true;
                let mut rows = vec![];
                for r in roles.iter() {
                    for w in [None, Some(Role::Primary), Some(Role::Replica), Some(Role::Mirror)].iter() {
                        let spec = match w { None => true, Some(x) => x == r };
                        let a = *r == *w;
                        let b = *w == *r;
                        if a != spec || b != spec { all_ok = false; }
                        rows.push(json!([format!("{:?}", r), format!("{:?}", w), a, b, spec]));
                    }
                }
                Some(json!({"all_ok": all_ok, "rows": rows}))
            }
            "regexes" => {
                Some(json!({"regexes": CUSTOM_SQL_REGEXES.to_vec()}))
            }
            _ => None,
        }
    }
}
