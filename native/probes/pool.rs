
// ---- appended by /verif/native/oracle.py (scratch copy only) ----
#[cfg(test)]
impl ConnectionPool {
    pub(crate) fn verif_mark_validated(&self) {
        self.validated.store(true, Ordering::Relaxed);
    }
}

#[cfg(test)]
pub(crate) mod verif_probe {
    //! End-to-end demonstration harness: real Client::startup / Client::handle over in-memory sockets, a real
    //! one-connection transaction-mode pool, and a scripted in-process "PostgreSQL" on loopback that tracks
    //! transaction state, one session variable and prepared statements per backend connection.
    #[allow(unused_imports)]
    use super::*;
    use crate::client::Client;
    use crate::config::AuthType;
    use crate::messages::{command_complete, data_row, ready_for_query, row_description, server_parameter_message, simple_query, DataType};
    use bytes::{BufMut, BytesMut};
    use serde_json::{json, Value};
    use tokio::io::{duplex, split, AsyncReadExt, AsyncWriteExt, DuplexStream};
    use tokio::net::TcpListener;
    use tokio::task::JoinHandle;
    use tokio::time::{timeout, Duration};

    fn unhex(s: &str) -> Vec<u8> {
        (0..s.len() / 2).map(|i| u8::from_str_radix(&s[2 * i..2 * i + 2], 16).unwrap()).collect()
    }

    async fn fake_postgres(listener: TcpListener) {
        let mut backend_id = 0;
        loop {
            let (mut sock, _) = match listener.accept().await { Ok(c) => c, Err(_) => return };
            backend_id += 1;
            tokio::spawn(async move {
                let len = match sock.read_i32().await { Ok(l) => l, Err(_) => return };
                let mut startup = vec![0u8; len as usize - 4];
                if sock.read_exact(&mut startup).await.is_err() { return; }
                let mut out = BytesMut::new();
                out.put_u8(b'R'); out.put_i32(8); out.put_i32(0);
                out.put(server_parameter_message("server_version", "14.0"));
                out.put_u8(b'K'); out.put_i32(12); out.put_i32(backend_id); out.put_i32(1234);
                out.put(ready_for_query(false));
                if sock.write_all(&out).await.is_err() { return; }
                let mut in_transaction = false;
                let mut guc = String::from("default");
                loop {
                    let code = match sock.read_u8().await { Ok(c) => c, Err(_) => return };
                    let len = match sock.read_i32().await { Ok(l) => l, Err(_) => return };
                    let mut body = vec![0u8; (len as usize).saturating_sub(4)];
                    if sock.read_exact(&mut body).await.is_err() { return; }
                    if code == b'X' { return; }
                    if code != b'Q' { continue; }
                    let query = String::from_utf8_lossy(&body[..body.len().saturating_sub(1)]).to_ascii_uppercase();
                    let mut out = BytesMut::new();
                    for stmt in query.split(';') {
                        let stmt = stmt.trim();
                        if stmt.is_empty() { continue; }
                        if stmt.starts_with("BEGIN") { in_transaction = true; out.put(command_complete("BEGIN")); }
                        else if stmt.starts_with("ROLLBACK") || stmt.starts_with("COMMIT") { in_transaction = false; out.put(command_complete("ROLLBACK")); }
                        else if stmt.starts_with("SET X TO ") { guc = stmt[9..].to_string(); out.put(command_complete("SET")); }
                        else if stmt.starts_with("RESET ALL") { guc = String::from("default"); out.put(command_complete("RESET")); }
                        else if stmt.starts_with("SELECT") {
                            out.put(row_description(&vec![("in_transaction", DataType::Text), ("x", DataType::Text), ("backend", DataType::Text)]));
                            out.put(data_row(&vec![in_transaction.to_string(), guc.clone(), backend_id.to_string()]));
                            out.put(command_complete("SELECT 1"));
                        } else { out.put(command_complete("OK")); }
                    }
                    out.put(ready_for_query(in_transaction));
                    if sock.write_all(&out).await.is_err() { return; }
                }
            });
        }
    }

    fn install_pool(db: &str, usern: &str, port: u16, client_server_map: ClientServerMap) {
        let user = User { username: usern.to_string(), password: None, auth_type: AuthType::Trust, pool_size: 1, ..User::default() };
        let address = Address { host: "127.0.0.1".to_string(), port, role: Role::Primary, database: db.to_string(),
                                username: usern.to_string(), pool_name: db.to_string(), ..Address::default() };
        let auth_hash = Arc::new(RwLock::new(None));
        let manager = ServerPool::new(address.clone(), user.clone(), db, client_server_map, auth_hash.clone(), None, true, false, 0);
        let bb8_pool = Pool::builder().max_size(1).connection_timeout(std::time::Duration::from_millis(2000))
            .test_on_check_out(false).build_unchecked(manager);
        let pool = ConnectionPool {
            databases: Arc::new(vec![vec![bb8_pool]]),
            addresses: Arc::new(vec![vec![address]]),
            banlist: Arc::new(RwLock::new(vec![HashMap::new()])),
            config_hash: 0,
            original_server_parameters: Arc::new(RwLock::new(ServerParameters::new())),
            auth_hash,
            settings: Arc::new(PoolSettings { pool_mode: PoolMode::Transaction, user, db: db.to_string(), ..PoolSettings::default() }),
            validated: Arc::new(AtomicBool::new(false)),
            paused: Arc::new(AtomicBool::new(false)),
            paused_waiter: Arc::new(Notify::new()),
            prepared_statement_cache: None,
        };
        let mut pools = (*(*POOLS.load())).clone();
        pools.insert(PoolIdentifier::new(db, usern), pool);
        POOLS.store(Arc::new(pools));
    }

    fn connect_client(db: &str, usern: &str, client_server_map: ClientServerMap, shutdown: &tokio::sync::broadcast::Sender<()>)
        -> (DuplexStream, JoinHandle<Result<(), Error>>) {
        connect_client_with(db, usern, client_server_map, shutdown, &json!({}))
    }

    fn connect_client_with(db: &str, usern: &str, client_server_map: ClientServerMap, shutdown: &tokio::sync::broadcast::Sender<()>, params: &Value)
        -> (DuplexStream, JoinHandle<Result<(), Error>>) {
        let (client_end, pgcat_end) = duplex(1 << 16);
        let (read, write) = split(pgcat_end);
        let shutdown_rx = shutdown.subscribe();
        let mut startup = BytesMut::new();
        startup.put_slice(b"user\0"); startup.put_slice(usern.as_bytes());
        startup.put_slice(b"\0database\0"); startup.put_slice(db.as_bytes()); startup.put_slice(b"\0");
        if let Some(m) = params.as_object() {
            for (k, v) in m { startup.put_slice(k.as_bytes()); startup.put_u8(0); startup.put_slice(v.as_str().unwrap_or("").as_bytes()); startup.put_u8(0); }
        }
        startup.put_u8(0);
        let task = tokio::spawn(async move {
            let mut client = Client::startup(read, write, "127.0.0.1:55555".parse().unwrap(), startup, client_server_map, shutdown_rx, false).await?;
            client.handle().await
        });
        (client_end, task)
    }

    async fn read_until_ready(stream: &mut DuplexStream) -> Option<Vec<(u8, Vec<u8>)>> {
        let mut messages = Vec::new();
        loop {
            let code = stream.read_u8().await.ok()?;
            let len = stream.read_i32().await.ok()?;
            let mut body = vec![0u8; len as usize - 4];
            stream.read_exact(&mut body).await.ok()?;
            messages.push((code, body));
            if code == b'Z' { return Some(messages); }
        }
    }

    fn row_of(reply: &Vec<(u8, Vec<u8>)>) -> Vec<String> {
        // DataRow: int16 ncols, then (int32 len, bytes)*
        let mut out = vec![];
        if let Some((_, body)) = reply.iter().find(|(c, _)| *c == b'D') {
            let n = i16::from_be_bytes([body[0], body[1]]) as usize;
            let mut p = 2;
            for _ in 0..n {
                let l = i32::from_be_bytes([body[p], body[p + 1], body[p + 2], body[p + 3]]) as usize;
                p += 4;
                out.push(String::from_utf8_lossy(&body[p..p + l]).to_string());
                p += l;
            }
        }
        out
    }

    // ------------------------------------------------------------------------------------------------------------
    // Reference PostgreSQL backend (the same protocol reference as /verif/checks/handle_env.py::MockPg), with a log of
    // every request, the replies delivered for it and the ground truth *before* it was processed.
    #[derive(Clone, Default)]
    struct RefTruth { status: u8, copy_in: bool, dirty_set: bool, role_set: bool, sql_prepared: bool, named: usize, unsynced: bool,
                      params: std::collections::BTreeMap<String, String> }
    fn param_defaults() -> std::collections::BTreeMap<String, String> {
        [("client_encoding", "UTF8"), ("DateStyle", "ISO, MDY"), ("TimeZone", "Etc/UTC"), ("standard_conforming_strings", "on"), ("application_name", "pgcat")]
            .iter().map(|(k, v)| (k.to_string(), v.to_string())).collect()
    }
    struct RefReq { g: u64, conn: usize, phase: u8, bytes: Vec<u8>, delivered: Vec<Vec<u8>>, before: RefTruth, status_after: u8 }
    #[derive(Default)]
    struct RefLog { reqs: Vec<RefReq>, clock: u64, phase: u8, conns: usize, statuses: std::collections::VecDeque<u8> }
    type SharedLog = Arc<Mutex<RefLog>>;

    fn hexs(b: &[u8]) -> String { b.iter().map(|x| format!("{:02x}", x)).collect() }
    fn pmsg(code: u8, body: &[u8]) -> Vec<u8> { let mut o = vec![code]; o.extend_from_slice(&((body.len() as i32 + 4).to_be_bytes())); o.extend_from_slice(body); o }

    async fn ref_postgres(listener: TcpListener, log: SharedLog, be: usize) {
        loop {
            let (mut sock, _) = match listener.accept().await { Ok(c) => c, Err(_) => return };
            let conn = { let mut l = log.lock(); l.conns += 1; be * 100 + l.conns };
            let log = log.clone();
            tokio::spawn(async move {
                let len = match sock.read_i32().await { Ok(l) => l, Err(_) => return };
                let mut startup = vec![0u8; len as usize - 4];
                if sock.read_exact(&mut startup).await.is_err() { return; }
                let mut out = BytesMut::new();
                out.put_u8(b'R'); out.put_i32(8); out.put_i32(0);
                out.put(server_parameter_message("server_version", "14.0"));
                out.put_u8(b'K'); out.put_i32(12); out.put_i32(conn as i32); out.put_i32(1234);
                out.put(ready_for_query(false));
                if sock.write_all(&out).await.is_err() { return; }
                let mut t = RefTruth { status: b'I', params: param_defaults(), ..RefTruth::default() };
                let set_rx = regex::Regex::new(r"(?i)^SET\s+(?:SESSION\s+)?([A-Za-z_]+)\s*(?:TO|=)\s*(?:'((?:[^']|'')*)'|([^\s;']+)|E'((?:[^'\\]|''|\\.)*)')$").unwrap();
                let mut pending: Vec<Vec<u8>> = vec![];
                let mut ignore_till_sync = false;
                let mut prepared: HashMap<Vec<u8>, Vec<u8>> = HashMap::new();
                let mut portals: HashMap<Vec<u8>, Vec<u8>> = HashMap::new();
                let cstrings = |body: &[u8], n: usize| -> Vec<Vec<u8>> {
                    let mut out = vec![]; let mut cur = vec![];
                    for b in body { if out.len() == n { break; } if *b == 0 { out.push(cur.clone()); cur.clear(); } else { cur.push(*b); } }
                    while out.len() < n { out.push(vec![]); }
                    out
                };
                let mut nreq = 0usize;
                let mut tables_created = false;
                let mut after_copy: Vec<String> = vec![];
                // results around pgcat's 8 KiB relay threshold (see MockPg.big_rows)
                let big_rows = |up: &str, n: usize| -> Vec<Vec<u8>> {
                    let sizes: Vec<usize> = if up.contains("BIGROWS") { vec![3000, 3000, 3000] } else { vec![9000, 8] };
                    let mut out = vec![];
                    for (k, sz) in sizes.iter().enumerate() {
                        let mut dr = vec![0u8, 1]; dr.extend_from_slice(&(*sz as i32).to_be_bytes());
                        dr.extend((0..*sz).map(|i| ((i * 7 + k + n) % 251) as u8));
                        out.push(pmsg(b'D', &dr));
                    }
                    out.push(pmsg(b'C', format!("SELECT {}\0", sizes.len()).as_bytes()));
                    out
                };
                // the reply of an ordinary SELECT (one tagged row), or of the "bigrows" statement (three 3000-byte rows: crosses 8 KiB)
                let select_reply = |s: &str, n: usize, tag: String, deliver: &mut Vec<Vec<u8>>| {
                    let mut rd = vec![0u8, 1, b'c', 0]; rd.extend_from_slice(&0i32.to_be_bytes()); rd.extend_from_slice(&0i16.to_be_bytes());
                    rd.extend_from_slice(&25i32.to_be_bytes()); rd.extend_from_slice(&(-1i16).to_be_bytes()); rd.extend_from_slice(&(-1i32).to_be_bytes()); rd.extend_from_slice(&0i16.to_be_bytes());
                    deliver.push(pmsg(b'T', &rd));
                    let up = s.to_ascii_uppercase();
                    if up.contains("BIGROWS") || up.contains("HUGEROW") {
                        for m in big_rows(&up, n) { deliver.push(m); }
                    } else {
                        let mut dr = vec![0u8, 1]; dr.extend_from_slice(&8i32.to_be_bytes()); dr.extend_from_slice(tag.as_bytes());
                        deliver.push(pmsg(b'D', &dr));
                        deliver.push(pmsg(b'C', b"SELECT 1\0"));
                    }
                };
                loop {
                    let code = match sock.read_u8().await { Ok(c) => c, Err(_) => return };
                    let len = match sock.read_i32().await { Ok(l) => l, Err(_) => return };
                    let mut body = vec![0u8; (len as usize).saturating_sub(4)];
                    if sock.read_exact(&mut body).await.is_err() { return; }
                    let before = t.clone();
                    let mut bytes = vec![code]; bytes.extend_from_slice(&len.to_be_bytes()); bytes.extend_from_slice(&body);
                    let mut deliver: Vec<Vec<u8>> = vec![];
                    let n = nreq; nreq += 1;
                    let tag6 = format!("b{}r{:03}", be % 10, n % 1000);
                    // 8-byte row value: backend, request number, two hex digits of a hash of the statement executed
                    let row_tag = |sql: &[u8]| -> String { use sha2::{Digest, Sha256}; let mut h = Sha256::new(); h.update(sql); format!("{}{:02x}", tag6, h.finalize()[0]) };
                    let tag = tag6.clone();
                    let mut close = false;
                    let mut handled = false;
                    if t.copy_in {
                        handled = true;
                        match code {
                            b'd' => {}
                            b'c' => { t.copy_in = false; deliver.push(pmsg(b'C', b"COPY 1\0"));
                                      // (the COPY was one statement of a multi-statement Query: the rest -- plain selects here -- runs now)
                                      for s in after_copy.drain(..) { select_reply(&s, n, row_tag(s.as_bytes()), &mut deliver); }
                                      deliver.push(pmsg(b'Z', &[t.status])); }
                            b'f' => { t.copy_in = false; after_copy.clear(); if t.status != b'I' { t.status = b'E'; }
                                      deliver.push(pmsg(b'E', b"SERROR\0C57014\0MCOPY failed\0\0")); deliver.push(pmsg(b'Z', &[t.status])); }
                            b'H' | b'S' => {}
                            _ => { t.copy_in = false; if t.status != b'I' { t.status = b'E'; }
                                   deliver.push(pmsg(b'E', b"SERROR\0C08P01\0Munexpected message type during COPY from stdin\0\0")); deliver.push(pmsg(b'Z', &[t.status])); }
                        }
                    }
                    if !handled {
                        match code {
                            b'Q' => {
                                let text = String::from_utf8_lossy(&body[..body.len().saturating_sub(1)]).to_string();
                                let stmts: Vec<String> = text.split(';').map(|s| s.trim().to_string()).filter(|s| !s.is_empty()).collect();
                                if stmts.is_empty() { deliver.push(pmsg(b'I', b"")); }
                                let mut copy_started = false;
                                for (si, s) in stmts.iter().enumerate() {
                                    let s = s.clone();
                                    let u = s.to_ascii_uppercase().split_whitespace().collect::<Vec<_>>().join(" ");
                                    if t.status == b'E' && !["ROLLBACK", "ABORT", "COMMIT", "END"].contains(&u.as_str()) {
                                        deliver.push(pmsg(b'E', b"SERROR\0C25P02\0Mcurrent transaction is aborted\0\0")); break;
                                    }
                                    if u == "BEGIN" || u == "START TRANSACTION" || u.starts_with("BEGIN ") { t.status = b'T'; deliver.push(pmsg(b'C', b"BEGIN\0")); }
                                    else if u == "COMMIT" || u == "END" { let failed = t.status == b'E'; t.status = b'I';
                                        deliver.push(pmsg(b'C', if failed { b"ROLLBACK\0" } else { b"COMMIT\0" })); }
                                    else if u == "ROLLBACK" || u == "ABORT" { t.status = b'I'; deliver.push(pmsg(b'C', b"ROLLBACK\0")); }
                                    else if u.starts_with("SET LOCAL") { deliver.push(pmsg(b'C', b"SET\0")); }
                                    else if u.starts_with("SET ROLE") || u.starts_with("SET SESSION AUTHORIZATION") { if t.status == b'I' { t.role_set = true; } deliver.push(pmsg(b'C', b"SET\0")); }
                                    else if u.starts_with("SET ") {
                                        let mut tracked = false;
                                        if let Some(c) = set_rx.captures(s.trim()) {
                                            let canon = param_defaults().keys().find(|k| k.to_ascii_lowercase() == c[1].to_ascii_lowercase()).cloned();
                                            if let Some(key) = canon {
                                                tracked = true;
                                                let val = match (c.get(2), c.get(3)) {
                                                    (Some(q), _) => q.as_str().replace("''", "'"),
                                                    (None, Some(w)) => w.as_str().to_string(),
                                                    // an E'' literal: '' -> ', backslash + c -> c
                                                    _ => { let raw = c[4].replace("''", "'"); let mut o = String::new(); let mut it = raw.chars();
                                                           while let Some(ch) = it.next() { if ch == '\\' { if let Some(n) = it.next() { o.push(n); } } else { o.push(ch); } } o }
                                                };
                                                t.params.insert(key.clone(), val.clone());
                                                let mut b = key.as_bytes().to_vec(); b.push(0); b.extend_from_slice(val.as_bytes()); b.push(0);
                                                deliver.push(pmsg(b'S', &b));
                                            }
                                        }
                                        if t.status == b'I' && !tracked { t.dirty_set = true; }
                                        deliver.push(pmsg(b'C', b"SET\0"));
                                    }
                                    else if u == "RESET ROLE" { t.role_set = false; deliver.push(pmsg(b'C', b"RESET\0")); }
                                    else if u == "RESET ALL" {
                                        t.dirty_set = false;
                                        for (key, dv) in param_defaults() {
                                            if t.params.get(&key) != Some(&dv) {
                                                t.params.insert(key.clone(), dv.clone());
                                                let mut b = key.as_bytes().to_vec(); b.push(0); b.extend_from_slice(dv.as_bytes()); b.push(0);
                                                deliver.push(pmsg(b'S', &b));
                                            }
                                        }
                                        deliver.push(pmsg(b'C', b"RESET\0"));
                                    }
                                    else if u == "DISCARD ALL" { t.dirty_set = false; t.role_set = false; t.sql_prepared = false; t.named = 0; prepared.clear(); deliver.push(pmsg(b'C', b"DISCARD ALL\0")); }
                                    else if u == "DEALLOCATE ALL" { t.sql_prepared = false; t.named = 0; prepared.clear(); deliver.push(pmsg(b'C', b"DEALLOCATE ALL\0")); }
                                    else if u.starts_with("CREATE TABLE") { tables_created = true; deliver.push(pmsg(b'C', b"CREATE TABLE\0")); }
                                    else if u.starts_with("PREPARE ") { if t.status == b'I' { t.sql_prepared = true; } deliver.push(pmsg(b'C', b"PREPARE\0")); }
                                    else if u.starts_with("COPY ") && u.contains("FROM STDIN") { t.copy_in = true; after_copy = stmts[si + 1..].to_vec(); deliver.push(pmsg(b'G', b"\0\0\0")); copy_started = true; break; }
                                    else if u.starts_with("COPY ") && u.contains("TO STDOUT") {
                                        deliver.push(pmsg(b'H', b"\0\0\0")); deliver.push(pmsg(b'd', format!("{}\n", tag).as_bytes()));
                                        deliver.push(pmsg(b'c', b"")); deliver.push(pmsg(b'C', b"COPY 1\0")); }
                                    else if u.split_whitespace().any(|w| w == "DIE") {
                                        // the backend breaks while executing: a row description, half a DataRow, then the connection is gone
                                        let mut rd = vec![0u8, 1, b'c', 0]; rd.extend_from_slice(&0i32.to_be_bytes()); rd.extend_from_slice(&0i16.to_be_bytes());
                                        rd.extend_from_slice(&25i32.to_be_bytes()); rd.extend_from_slice(&(-1i16).to_be_bytes()); rd.extend_from_slice(&(-1i32).to_be_bytes()); rd.extend_from_slice(&0i16.to_be_bytes());
                                        let mut o = pmsg(b'T', &rd); o.extend_from_slice(b"D\x00\x00\x00\x12\x00\x01\x00");
                                        { let mut l = log.lock(); l.clock += 1; let (g, phase) = (l.clock, l.phase);
                                          l.reqs.push(RefReq { g, conn, phase, bytes: bytes.clone(), delivered: vec![pmsg(b'T', &rd)], status_after: t.status, before: before.clone() }); }
                                        let _ = sock.write_all(&o).await;
                                        return;
                                    }
                                    else if u.starts_with("ERROR") || u.contains("1/0") { if t.status != b'I' { t.status = b'E'; }
                                        deliver.push(pmsg(b'E', b"SERROR\0C22012\0Mdivision by zero\0\0")); break; }
                                    else { select_reply(&s, n, row_tag(s.as_bytes()), &mut deliver); }
                                }
                                if !copy_started {
                                    // scripted status reports ("every server status at that instant"): consumed in order by every simple query
                                    { let mut l = log.lock(); if l.phase != 0 && l.phase != 2 { if let Some(st) = l.statuses.pop_front() { t.status = st; } } }
                                    deliver.push(pmsg(b'Z', &[t.status]));
                                }
                            }
                            b'P' | b'B' | b'D' | b'E' | b'C' | b'H' => {
                                t.unsynced = true;
                                if !ignore_till_sync {
                                    match code {
                                        b'P' => { let cs = cstrings(&body, 2);
                                                  if String::from_utf8_lossy(&cs[1]).to_ascii_lowercase().contains("notyet") && !tables_created {
                                                      // a statement over a relation that does not exist (yet): the Parse itself is rejected
                                                      pending.push(pmsg(b'E', b"SERROR\0C42P01\0Mrelation \"notyet\" does not exist\0\0"));
                                                      if t.status != b'I' { t.status = b'E'; }
                                                      ignore_till_sync = true;
                                                  } else {
                                                      if body.first().copied().unwrap_or(0) != 0 { t.named += 1; }
                                                      prepared.insert(cs[0].clone(), cs[1].clone());
                                                      pending.push(pmsg(b'1', b""));
                                                  } }
                                        b'B' => { let cs = cstrings(&body, 2);
                                                  if !prepared.contains_key(&cs[1]) { pending.push(pmsg(b'E', b"SERROR\0C26000\0Mprepared statement does not exist\0\0")); ignore_till_sync = true; }
                                                  else { portals.insert(cs[0].clone(), cs[1].clone()); pending.push(pmsg(b'2', b"")); } }
                                        b'D' => { let name = cstrings(&body[1..], 1)[0].clone();
                                                  if body.first() == Some(&b'S') && !prepared.contains_key(&name) { pending.push(pmsg(b'E', b"SERROR\0C26000\0Mprepared statement does not exist\0\0")); ignore_till_sync = true; }
                                                  else { pending.push(pmsg(b'n', b"")); } }
                                        b'E' => {
                                            let cs = cstrings(&body, 1);
                                            let sql = portals.get(&cs[0]).and_then(|st| prepared.get(st)).cloned();
                                            let sql2 = sql.clone();
                                            let u = sql.map(|q| String::from_utf8_lossy(&q).trim().trim_end_matches(';').to_ascii_uppercase().split_whitespace().collect::<Vec<_>>().join(" "));
                                            let mut done = false;
                                            if let Some(u) = &u {
                                                let ends = ["ROLLBACK", "ABORT", "COMMIT", "END"].contains(&u.as_str());
                                                if t.status == b'E' && !ends {
                                                    pending.push(pmsg(b'E', b"SERROR\0C25P02\0Mcurrent transaction is aborted\0\0")); ignore_till_sync = true; done = true;
                                                } else if u == "BEGIN" || u == "START TRANSACTION" || u.starts_with("BEGIN ") {
                                                    t.status = b'T'; pending.push(pmsg(b'C', b"BEGIN\0")); done = true;
                                                } else if ends {
                                                    let failed = t.status == b'E'; t.status = b'I';
                                                    pending.push(pmsg(b'C', if failed || u == "ROLLBACK" || u == "ABORT" { b"ROLLBACK\0" } else { b"COMMIT\0" })); done = true;
                                                } else if u.starts_with("SET LOCAL") { pending.push(pmsg(b'C', b"SET\0")); done = true; }
                                                else if u.starts_with("SET ") {
                                                    if t.status == b'I' { if u.starts_with("SET ROLE") { t.role_set = true; } else { t.dirty_set = true; } }
                                                    pending.push(pmsg(b'C', b"SET\0")); done = true;
                                                } else if u.starts_with("ERROR") || u.contains("1/0") {
                                                    if t.status != b'I' { t.status = b'E'; }
                                                    pending.push(pmsg(b'E', b"SERROR\0C22012\0Mdivision by zero\0\0")); ignore_till_sync = true; done = true;
                                                }
                                            }
                                            if !done {
                                                let up = sql2.as_ref().map(|q| String::from_utf8_lossy(q).to_ascii_uppercase()).unwrap_or_default();
                                                if up.contains("BIGROWS") || up.contains("HUGEROW") { for m in big_rows(&up, n) { pending.push(m); } done = true; }
                                            }
                                            if !done {
                                                let mut dr = vec![0u8, 1]; dr.extend_from_slice(&8i32.to_be_bytes());
                                                dr.extend_from_slice(match &sql2 { Some(q) => row_tag(q), None => format!("{}00", tag6) }.as_bytes());
                                                pending.push(pmsg(b'D', &dr)); pending.push(pmsg(b'C', b"SELECT 1\0"));
                                            }
                                        }
                                        b'C' => { if body.first() == Some(&b'S') { let name = cstrings(&body[1..], 1)[0].clone(); prepared.remove(&name); } pending.push(pmsg(b'3', b"")); }
                                        _ => { deliver.append(&mut pending); }
                                    }
                                }
                            }
                            b'S' => { ignore_till_sync = false; t.unsynced = false; deliver.append(&mut pending); deliver.push(pmsg(b'Z', &[t.status])); }
                            _ => { close = true; }
                        }
                    }
                    {
                        let mut l = log.lock();
                        l.clock += 1;
                        let (g, phase) = (l.clock, l.phase);
                        l.reqs.push(RefReq { g, conn, phase, bytes, delivered: deliver.clone(), before, status_after: t.status });
                    }
                    if code == b'Q' && body.windows(8).any(|w| w == b"pg_sleep") { tokio::time::sleep(Duration::from_millis(1500)).await; }
                    let flat: Vec<u8> = deliver.concat();
                    if !flat.is_empty() && sock.write_all(&flat).await.is_err() { return; }
                    if close { return; }
                }
            });
        }
    }

    async fn drain(stream: &mut DuplexStream, ms: u64) -> Vec<u8> {
        let mut out = vec![];
        let mut buf = [0u8; 4096];
        loop {
            match timeout(Duration::from_millis(ms), stream.read(&mut buf)).await {
                Ok(Ok(0)) | Ok(Err(_)) | Err(_) => return out,
                Ok(Ok(n)) => out.extend_from_slice(&buf[..n]),
            }
        }
    }

    /// Client A sends `client_hex` (optionally in `chunks_hex` with PAUSE/RESUME steps in between), then half-closes its
    /// socket (`eof`); client B then runs one query.  Everything the reference backends saw is returned.
    async fn handle_script(v: Value) -> Value {
        let tag = format!("{}", std::time::SystemTime::now().duration_since(std::time::UNIX_EPOCH).unwrap().as_nanos());
        let db = format!("verif_h_{}", tag);
        let usern = "verif_user".to_string();
        let log: SharedLog = Arc::new(Mutex::new(RefLog::default()));
        let csmap: ClientServerMap = Arc::new(Mutex::new(HashMap::new()));
        crate::query_router::QueryRouter::setup();
        {
            let mut cfg = crate::config::Config::default();
            cfg.general.idle_client_in_transaction_timeout = v["idle_timeout_ms"].as_u64().unwrap_or(0);
            crate::config::verif_probe::set_config(cfg);
        }
        // shards: [[role, ...], ...]  (or the single-shard shorthand "roles")
        let shard_roles: Vec<Vec<String>> = match v["shards"].as_array() {
            Some(a) => a.iter().map(|s| s.as_array().unwrap().iter().map(|x| x.as_str().unwrap().to_string()).collect()).collect(),
            None => vec![v["roles"].as_array().map(|a| a.iter().map(|x| x.as_str().unwrap().to_string()).collect()).unwrap_or(vec!["primary".to_string()])],
        };
        let user = User { username: usern.clone(), password: None, auth_type: AuthType::Trust, pool_size: 1,
                          statement_timeout: v["statement_timeout_ms"].as_u64().unwrap_or(0), ..User::default() };
        let mut all_addrs = vec![]; let mut all_pools = vec![];
        let cache_size = v["cache"].as_u64().unwrap_or(0) as usize;
        let auth_hash = Arc::new(RwLock::new(None));
        let mut idx = 0usize;
        for (si, roles) in shard_roles.iter().enumerate() {
            let mut addrs = vec![]; let mut pools = vec![];
            for (ri, r) in roles.iter().enumerate() {
                let listener = TcpListener::bind("127.0.0.1:0").await.unwrap();
                let port = listener.local_addr().unwrap().port();
                tokio::spawn(ref_postgres(listener, log.clone(), idx));
                let a = Address { id: idx, host: "127.0.0.1".to_string(), port, address_index: ri, replica_number: ri, shard: si,
                                  role: if r == "primary" { Role::Primary } else { Role::Replica },
                                  database: db.clone(), username: usern.clone(), pool_name: db.clone(), ..Address::default() };
                let manager = ServerPool::new(a.clone(), user.clone(), &db, csmap.clone(), auth_hash.clone(), None, true, false, cache_size);
                pools.push(Pool::builder().max_size(1).connection_timeout(std::time::Duration::from_millis(1500)).test_on_check_out(false).build_unchecked(manager));
                addrs.push(a);
                idx += 1;
            }
            all_addrs.push(addrs); all_pools.push(pools);
        }
        let nshards = shard_roles.len();
        let session = v["mode"].as_str() == Some("session");
        let mut settings = PoolSettings { pool_mode: if session { PoolMode::Session } else { PoolMode::Transaction }, user: user.clone(), db: db.clone(),
                                          healthcheck_delay: 3_600_000, shards: nshards, ..PoolSettings::default() };
        if let Some(tables) = v["deny_tables"].as_array() {
            settings.query_parser_enabled = true;
            settings.plugins = Some(crate::config::Plugins { intercept: None, query_logger: None, prewarmer: None,
                table_access: Some(crate::config::TableAccess { enabled: true, tables: tables.iter().map(|t| t.as_str().unwrap().to_string()).collect() }) });
        }
        if let Some(qs) = v["intercept"].as_array() {
            settings.query_parser_enabled = true;
            let mut queries = std::collections::BTreeMap::new();
            for (i, q) in qs.iter().enumerate() {
                queries.insert(format!("q{}", i), crate::config::Query { query: q.as_str().unwrap().to_string(),
                    schema: vec![vec!["c".to_string(), "text".to_string()]], result: vec![vec!["intercepted".to_string()]] });
            }
            let mut plugins = settings.plugins.clone().unwrap_or(crate::config::Plugins { intercept: None, table_access: None, query_logger: None, prewarmer: None });
            plugins.intercept = Some(crate::config::Intercept { enabled: true, queries });
            settings.plugins = Some(plugins);
        }
        if v["query_parser"].as_bool() == Some(true) { settings.query_parser_enabled = true; settings.query_parser_read_write_splitting = true; }
        match v["default_role"].as_str() { Some("primary") => settings.default_role = Some(Role::Primary), Some("replica") => settings.default_role = Some(Role::Replica), _ => {} }
        if let Some(r) = v["shard_id_regex"].as_str() { settings.shard_id_regex = Some(regex::Regex::new(r).unwrap()); }
        if let Some(r) = v["sharding_key_regex"].as_str() { settings.sharding_key_regex = Some(regex::Regex::new(r).unwrap()); }
        let pool = ConnectionPool {
            databases: Arc::new(all_pools), addresses: Arc::new(all_addrs),
            banlist: Arc::new(RwLock::new((0..nshards).map(|_| HashMap::new()).collect())), config_hash: 0,
            original_server_parameters: Arc::new(RwLock::new(ServerParameters::new())), auth_hash,
            settings: Arc::new(settings), validated: Arc::new(AtomicBool::new(false)),
            paused: Arc::new(AtomicBool::new(false)), paused_waiter: Arc::new(Notify::new()),
            prepared_statement_cache: if cache_size > 0 { Some(Arc::new(Mutex::new(PreparedStatementCache::new(cache_size)))) } else { None },
        };
        {
            let mut pools = (*(*POOLS.load())).clone();
            pools.insert(PoolIdentifier::new(&db, &usern), pool.clone());
            POOLS.store(Arc::new(pools));
        }
        let (shutdown_tx, _keep) = tokio::sync::broadcast::channel::<()>(1);
        // "every timing of the cancel relative to checkout and release": another task may hold the (process-wide) client/server map at any
        // instant -- a thread that holds it almost all the time makes every non-blocking attempt to take it fail
        let contend_stop = Arc::new(AtomicBool::new(false));
        if v["contend_csmap"].as_bool() == Some(true) {
            let m = csmap.clone(); let stop = contend_stop.clone();
            std::thread::spawn(move || { while !stop.load(Ordering::Relaxed) { { let _g = m.lock(); std::thread::sleep(std::time::Duration::from_millis(15)); } std::thread::sleep(std::time::Duration::from_micros(300)); } });
        }
        let (mut a, a_task) = connect_client_with(&db, &usern, csmap.clone(), &shutdown_tx, &v["startup_params"]);
        if read_until_ready(&mut a).await.is_none() { return json!({"error": "client A could not log in"}); }
        // forget what the backends saw during validation / startup
        { let mut l = log.lock(); l.reqs.clear(); l.phase = 1;
          if let Some(sts) = v["statuses"].as_array() { l.statuses = sts.iter().map(|x| x.as_u64().unwrap() as u8).collect(); } }
        let mut a_out: Vec<u8> = vec![];
        let mut other: Option<DuplexStream> = None;
        if let Some(steps) = v["steps"].as_array() {
            for st in steps {
                if let Some(h) = st["send_hex"].as_str() { let _ = a.write_all(&unhex(h)).await; a_out.extend(drain(&mut a, 150).await); }
                else if st["other_begin"].as_bool() == Some(true) {
                    // another client takes the only connection of the pool and keeps it inside a transaction
                    let (mut c, _t) = connect_client(&db, &usern, csmap.clone(), &shutdown_tx);
                    let _ = read_until_ready(&mut c).await;
                    { log.lock().phase = 0; }
                    let _ = c.write_all(&simple_query("BEGIN")).await;
                    let _ = read_until_ready(&mut c).await;
                    { log.lock().phase = 1; }
                    other = Some(c);
                }
                else if st["other_end"].as_bool() == Some(true) {
                    if let Some(mut c) = other.take() {
                        { log.lock().phase = 0; }
                        let _ = c.write_all(&simple_query("COMMIT")).await;
                        let _ = read_until_ready(&mut c).await;
                        let _ = c.write_all(&[b'X', 0, 0, 0, 4]).await;
                        tokio::time::sleep(Duration::from_millis(100)).await;
                        { log.lock().phase = 1; }
                    }
                }
                else if st["reload_pool"].as_bool() == Some(true) {
                    // a RELOAD re-created the pool: same definition, same servers, another config_hash
                    let mut p2 = pool.clone();
                    p2.config_hash = 0x5eed;
                    let mut pools = (*(*POOLS.load())).clone();
                    pools.insert(PoolIdentifier::new(&db, &usern), p2);
                    POOLS.store(Arc::new(pools));
                }
                else if let Some(ms) = st["sleep_ms"].as_u64() { tokio::time::sleep(Duration::from_millis(ms)).await; a_out.extend(drain(&mut a, 50).await); }
                else if st["pause"].as_bool() == Some(true) { pool.pause(); }
                else if st["resume"].as_bool() == Some(true) { pool.resume(); }
                else if st["shutdown"].as_bool() == Some(true) { let _ = shutdown_tx.send(()); a_out.extend(drain(&mut a, 150).await); }
            }
        } else {
            let _ = a.write_all(&unhex(v["client_hex"].as_str().unwrap_or(""))).await;
        }
        let mut a_task = a_task;
        if v["drop"].as_bool() == Some(true) {
            // the client's socket vanishes right after its last byte: its reads hit EOF and every write to it fails
            { log.lock().phase = 3; }
            drop(a);
            let a_task_result = match timeout(Duration::from_secs(5), &mut a_task).await {
                Ok(Ok(Ok(()))) => "ok".to_string(), Ok(Ok(Err(e))) => format!("err: {:?}", e),
                Ok(Err(e)) => if e.is_panic() { "panic".to_string() } else { "cancelled".to_string() }, Err(_) => "still-running".to_string() };
            return finish_handle_script(&v, &db, &usern, &log, &csmap, &shutdown_tx, &pool, a_task_result, a_out).await;
        }
        a_out.extend(drain(&mut a, 250).await);
        if v["eof"].as_bool().unwrap_or(true) { { log.lock().phase = 3; } let _ = a.shutdown().await; }
        let a_task_result;
        loop {
            a_out.extend(drain(&mut a, 200).await);
            match timeout(Duration::from_millis(50), &mut a_task).await {
                Ok(Ok(Ok(()))) => { a_task_result = "ok".to_string(); break; }
                Ok(Ok(Err(e))) => { a_task_result = format!("err: {:?}", e); break; }
                Ok(Err(e)) => { a_task_result = if e.is_panic() { "panic".to_string() } else { "cancelled".to_string() }; break; }
                Err(_) => { if !v["eof"].as_bool().unwrap_or(true) { a_task_result = "still-running".to_string(); break; } }
            }
        }
        a_out.extend(drain(&mut a, 100).await);
        finish_handle_script(&v, &db, &usern, &log, &csmap, &shutdown_tx, &pool, a_task_result, a_out).await
    }

    async fn finish_handle_script(v: &Value, db: &str, usern: &str, log: &SharedLog, csmap: &ClientServerMap, shutdown_tx: &tokio::sync::broadcast::Sender<()>,
                                  pool: &ConnectionPool, a_task_result: String, a_out: Vec<u8>) -> Value {
        let db = db.to_string(); let usern = usern.to_string(); let v = v.clone();
        let paused_at_end = pool.paused();
        let bans = pool.get_bans().len();
        if v["contend_csmap"].as_bool() == Some(true) { tokio::time::sleep(Duration::from_millis(40)).await; }
        // what SHOW CLIENTS / SHOW SERVERS would list for this pool now (A idle or gone)
        tokio::time::sleep(Duration::from_millis(30)).await;
        let clients_after_a: Vec<Value> = crate::stats::get_client_stats().values().filter(|c| c.pool_name() == db)
            .map(|c| json!([format!("{}", c.state.load(Ordering::Relaxed)), c.transaction_count.load(Ordering::Relaxed), c.query_count.load(Ordering::Relaxed)])).collect();
        let servers_after_a: Vec<Value> = crate::stats::get_server_stats().values().filter(|s| s.pool_name() == db)
            .map(|s| json!(format!("{}", s.state.load(Ordering::Relaxed)))).collect();
        // where a CancelRequest with a client key would be sent right now (A idle or gone)
        #[cfg(not(verif_probe_minimal))]
        let csmap_after_a: Vec<Value> = csmap.lock().iter().map(|(k, v)| json!([k.0, k.1, v.0, v.1])).collect();
        #[cfg(verif_probe_minimal)]
        let csmap_after_a: Vec<Value> = csmap.lock().iter().map(|(_k, v)| json!([0, 0, v.0, v.1])).collect();
        let mut b_out: Vec<u8> = vec![];
        let mut b_state = "not-run".to_string();
        if v["probe_b"].as_bool().unwrap_or(true) && !paused_at_end {
            // let a backend that is still busy with a slow statement of client A finish (its late reply then sits unread in the socket)
            if v["statement_timeout_ms"].as_u64().is_some() { tokio::time::sleep(Duration::from_millis(1800)).await; }
            { log.lock().phase = 2; }
            let (mut b, _b_task) = connect_client_with(&db, &usern, csmap.clone(), &shutdown_tx, &v["b_startup_params"]);
            if read_until_ready(&mut b).await.is_none() { b_state = "login failed".to_string(); }
            else {
                match v["b_hex"].as_str() {
                    Some(h) => { let _ = b.write_all(&unhex(h)).await; }
                    None => { let _ = b.write_all(&simple_query("SELECT 1")).await; }
                }
                // (a backend that is still busy with a slow statement of the previous client answers late)
                b_out = drain(&mut b, if v["statement_timeout_ms"].as_u64().is_some() { 2500 } else { 400 }).await;
                b_state = "ran".to_string();
            }
        }
        let l = log.lock();
        let reqs: Vec<Value> = l.reqs.iter().map(|r| json!({"g": r.g, "conn": r.conn, "phase": r.phase, "hex": hexs(&r.bytes),
            "delivered": r.delivered.iter().map(|d| hexs(d)).collect::<Vec<_>>(), "status_after": r.status_after,
            "before": {"status": r.before.status, "copy_in": r.before.copy_in, "dirty_set": r.before.dirty_set, "role_set": r.before.role_set,
                       "sql_prepared": r.before.sql_prepared, "named": r.before.named, "unsynced": r.before.unsynced, "params": r.before.params}})).collect();
        json!({"bans": bans, "clients_after_a": clients_after_a, "servers_after_a": servers_after_a, "csmap_after_a": csmap_after_a, "a_result": a_task_result, "a_out": hexs(&a_out), "b_out": hexs(&b_out), "b_state": b_state, "reqs": reqs, "paused_at_end": paused_at_end})
    }

    /// Client A runs `prep` queries (simple protocol), then sends the raw `trigger` bytes and is awaited;
    /// client B then runs SELECT and reports what it saw.
    async fn scenario(v: Value) -> Value {
        let tag = format!("{}", std::time::SystemTime::now().duration_since(std::time::UNIX_EPOCH).unwrap().as_nanos());
        let db = format!("verif_db_{}", tag);
        let usern = "verif_user".to_string();
        let listener = TcpListener::bind("127.0.0.1:0").await.unwrap();
        let port = listener.local_addr().unwrap().port();
        tokio::spawn(fake_postgres(listener));
        let client_server_map: ClientServerMap = Arc::new(Mutex::new(HashMap::new()));
        let (shutdown_tx, _keep) = tokio::sync::broadcast::channel::<()>(1);
        install_pool(&db, &usern, port, client_server_map.clone());

        let (mut a, a_task) = connect_client(&db, &usern, client_server_map.clone(), &shutdown_tx);
        if read_until_ready(&mut a).await.is_none() { return json!({"error": "client A could not log in"}); }
        let mut a_last_status = String::new();
        let mut a_backend = String::new();
        for q in v["prep"].as_array().unwrap() {
            a.write_all(&simple_query(q.as_str().unwrap())).await.unwrap();
            match read_until_ready(&mut a).await {
                Some(reply) => {
                    a_last_status = (reply.last().unwrap().1[0] as char).to_string();
                    let r = row_of(&reply);
                    if r.len() == 3 { a_backend = r[2].clone(); }
                }
                None => return json!({"error": "client A lost during prep"}),
            }
        }
        let trig = unhex(v["trigger_hex"].as_str().unwrap_or(""));
        if !trig.is_empty() { let _ = a.write_all(&trig).await; }
        if v.get("a_disconnects").and_then(|x| x.as_bool()).unwrap_or(false) { drop(a); } 
        let a_result = match timeout(Duration::from_secs(5), a_task).await {
            Ok(Ok(Ok(()))) => "ok".to_string(),
            Ok(Ok(Err(e))) => format!("err: {:?}", e),
            Ok(Err(e)) => if e.is_panic() { "panic".to_string() } else { "cancelled".to_string() },
            Err(_) => "still-running".to_string(),
        };
        let (mut b, _b_task) = connect_client(&db, &usern, client_server_map.clone(), &shutdown_tx);
        if read_until_ready(&mut b).await.is_none() { return json!({"error": "client B could not log in", "a_result": a_result}); }
        b.write_all(&simple_query("SELECT 1")).await.unwrap();
        let reply = match timeout(Duration::from_secs(5), read_until_ready(&mut b)).await {
            Ok(Some(r)) => r,
            _ => return json!({"a_result": a_result, "b": "no reply"}),
        };
        let row = row_of(&reply);
        json!({"a_result": a_result, "a_last_status": a_last_status, "a_backend": a_backend,
               "b_in_transaction": row.get(0), "b_x": row.get(1), "b_backend": row.get(2),
               "b_status": (reply.last().unwrap().1[0] as char).to_string()})
    }

    /// Scripted backend with a per-server behaviour: "ok" | "hang_query" (completes startup, never answers a query) |
    /// "close_query" (completes startup, closes on the first query).  "refuse" servers get no listener at all.
    async fn behaving_postgres(listener: TcpListener, behaviour: String) {
        loop {
            let (mut sock, _) = match listener.accept().await { Ok(c) => c, Err(_) => return };
            let behaviour = behaviour.clone();
            tokio::spawn(async move {
                let len = match sock.read_i32().await { Ok(l) => l, Err(_) => return };
                let mut startup = vec![0u8; len as usize - 4];
                if sock.read_exact(&mut startup).await.is_err() { return; }
                let mut out = BytesMut::new();
                out.put_u8(b'R'); out.put_i32(8); out.put_i32(0);
                out.put(server_parameter_message("server_version", "14.0"));
                out.put_u8(b'K'); out.put_i32(12); out.put_i32(1); out.put_i32(1234);
                out.put(ready_for_query(false));
                if sock.write_all(&out).await.is_err() { return; }
                loop {
                    let code = match sock.read_u8().await { Ok(c) => c, Err(_) => return };
                    let len = match sock.read_i32().await { Ok(l) => l, Err(_) => return };
                    let mut body = vec![0u8; (len as usize).saturating_sub(4)];
                    if sock.read_exact(&mut body).await.is_err() { return; }
                    if code == b'X' { return; }
                    if code != b'Q' { continue; }
                    let text = String::from_utf8_lossy(&body[..body.len().saturating_sub(1)]).to_string();
                    match behaviour.as_str() {
                        "late_query" if text.trim() == ";" => {
                            // the health check is answered, but only after its deadline
                            tokio::time::sleep(Duration::from_millis(700)).await;
                            let mut out = BytesMut::new();
                            out.put_u8(b'I'); out.put_i32(4);
                            out.put(ready_for_query(false));
                            if sock.write_all(&out).await.is_err() { return; }
                        }
                        "late_query" => {
                            let mut out = BytesMut::new();
                            out.put(command_complete("SELECT 7"));
                            out.put(ready_for_query(false));
                            if sock.write_all(&out).await.is_err() { return; }
                        }
                        "hang_query" => { tokio::time::sleep(Duration::from_secs(30)).await; return; }
                        "close_query" => { return; }
                        _ => {
                            let mut out = BytesMut::new();
                            out.put_u8(b'I'); out.put_i32(4);
                            out.put(ready_for_query(false));
                            if sock.write_all(&out).await.is_err() { return; }
                        }
                    }
                }
            });
        }
    }

    async fn get_scenario(v: Value) -> Value {
        let servers = v["servers"].as_array().unwrap().clone();
        let mut addrs = vec![];
        let mut pools = vec![];
        let csmap: ClientServerMap = Arc::new(Mutex::new(HashMap::new()));
        let user = User { username: "u".to_string(), password: None, auth_type: AuthType::Trust, pool_size: 1, ..User::default() };
        for (i, s) in servers.iter().enumerate() {
            let beh = s["behaviour"].as_str().unwrap().to_string();
            let port = if beh == "refuse" {
                // bind and drop: nothing listens there
                let l = std::net::TcpListener::bind("127.0.0.1:0").unwrap();
                l.local_addr().unwrap().port()
            } else {
                let l = TcpListener::bind("127.0.0.1:0").await.unwrap();
                let p = l.local_addr().unwrap().port();
                tokio::spawn(behaving_postgres(l, beh));
                p
            };
            let a = Address { id: i, host: "127.0.0.1".to_string(), port, address_index: i, replica_number: i, shard: 0,
                              role: if s["role"].as_str() == Some("primary") { Role::Primary } else { Role::Replica },
                              database: "db".to_string(), username: "u".to_string(), pool_name: "db".to_string(), ..Address::default() };
            let manager = ServerPool::new(a.clone(), user.clone(), "db", csmap.clone(), Arc::new(RwLock::new(None)), None, true, false, 0);
            pools.push(Pool::builder().max_size(1).connection_timeout(std::time::Duration::from_millis(400)).test_on_check_out(false).build_unchecked(manager));
            addrs.push(a);
        }
        let pool = ConnectionPool {
            databases: Arc::new(vec![pools]),
            addresses: Arc::new(vec![addrs.clone()]),
            banlist: Arc::new(RwLock::new(vec![HashMap::new()])),
            config_hash: 0,
            original_server_parameters: Arc::new(RwLock::new(ServerParameters::new())),
            auth_hash: Arc::new(RwLock::new(None)),
            settings: Arc::new(PoolSettings { user, db: "db".to_string(), ban_time: 3600,
                healthcheck_timeout: v["healthcheck_timeout"].as_u64().unwrap_or(300),
                healthcheck_delay: v["healthcheck_delay"].as_u64().unwrap_or(0), ..PoolSettings::default() }),
            validated: Arc::new(AtomicBool::new(true)),
            paused: Arc::new(AtomicBool::new(false)),
            paused_waiter: Arc::new(Notify::new()),
            prepared_statement_cache: None,
        };
        for b in v["banned"].as_array().unwrap() {
            let i = b.as_u64().unwrap() as usize;
            pool.banlist.write()[0].insert(addrs[i].clone(), (BanReason::FailedHealthCheck, chrono::offset::Utc::now().naive_utc()));
        }
        // warm-up: open the connections that can be opened, so that they are idle (and health-checked) at checkout
        for i in 0..addrs.len() {
            let _ = timeout(Duration::from_millis(800), pool.databases[0][i].get()).await;
        }
        tokio::time::sleep(Duration::from_millis(15)).await;
        for a in addrs.iter() { a.reset_error_count(); }
        let role = match v["requested"].as_str() { Some("primary") => Some(Role::Primary), Some("replica") => Some(Role::Replica), _ => None };
        let stats = crate::stats::ClientStats::default();
        let t0 = std::time::Instant::now();
        // connections idle for a moment so that `last_activity().elapsed() > healthcheck_delay (0)` holds
        let r = timeout(Duration::from_secs(20), async {
            tokio::time::sleep(Duration::from_millis(5)).await;
            pool.get(None, role, &stats).await.map(|(conn, a)| { let id = a.id; drop(conn); id })
        }).await;
        let elapsed = t0.elapsed().as_millis() as u64;
        let result = match r { Ok(Ok(id)) => json!(id), Ok(Err(e)) => json!(format!("{:?}", e)), Err(_) => json!("timed out") };
        // follow-up (servers that answer their health check LATE): once the late reply has arrived, is the connection it arrived on handed out
        // again?  Whoever gets it reads the health check's reply as the answer to its own query.
        let mut stale = vec![];
        if v["followup"].as_bool() == Some(true) {
            tokio::time::sleep(Duration::from_millis(1100)).await;
            for i in 0..addrs.len() {
                if let Ok(Ok(mut conn)) = timeout(Duration::from_millis(800), pool.databases[0][i].get()).await {
                    let server = &mut *conn;
                    if server.send(&simple_query("SELECT 7")).await.is_ok() {
                        if let Ok(Ok(reply)) = timeout(Duration::from_millis(800), server.recv(None)).await {
                            if reply.first() != Some(&b'C') { stale.push(json!({"server": i, "first_reply_code": reply.first().map(|c| *c as char).map(|c| c.to_string())})); }
                        }
                    }
                }
            }
        }
        json!({"result": result, "banned": banned_ids(&pool), "elapsed_ms": elapsed, "stale": stale})
    }

    fn bare_pool(roles: &Value, ban_time: i64) -> (ConnectionPool, Vec<Address>) {
        let mut addrs = vec![];
        for (i, r) in roles.as_array().unwrap().iter().enumerate() {
            addrs.push(Address { id: i, host: format!("h{}", i), address_index: i, replica_number: i, shard: 0,
                                 role: if r.as_str() == Some("primary") { Role::Primary } else { Role::Replica }, ..Address::default() });
        }
        let pool = ConnectionPool {
            databases: Arc::new(vec![vec![]]),
            addresses: Arc::new(vec![addrs.clone()]),
            banlist: Arc::new(RwLock::new(vec![HashMap::new()])),
            config_hash: 0,
            original_server_parameters: Arc::new(RwLock::new(ServerParameters::new())),
            auth_hash: Arc::new(RwLock::new(None)),
            settings: Arc::new(PoolSettings { ban_time, ..PoolSettings::default() }),
            validated: Arc::new(AtomicBool::new(true)),
            paused: Arc::new(AtomicBool::new(false)),
            paused_waiter: Arc::new(Notify::new()),
            prepared_statement_cache: None,
        };
        (pool, addrs)
    }

    fn reason_of(s: &str, d: i64) -> BanReason {
        match s { "FailedHealthCheck" => BanReason::FailedHealthCheck, "MessageSendFailed" => BanReason::MessageSendFailed,
                  "MessageReceiveFailed" => BanReason::MessageReceiveFailed, "FailedCheckout" => BanReason::FailedCheckout,
                  "StatementTimeout" => BanReason::StatementTimeout, _ => BanReason::AdminBan(d) }
    }

    fn banned_ids(pool: &ConnectionPool) -> Vec<usize> {
        let mut v: Vec<usize> = pool.banlist.read()[0].keys().map(|a| a.id).collect();
        v.sort();
        v
    }

    pub(crate) fn handle(op: &str, v: &Value) -> Option<Value> {
        match op {
            "pool_ban" => {
                let (pool, addrs) = bare_pool(&v["roles"], 60);
                let i = v["ban"].as_u64().unwrap() as usize;
                pool.ban(&addrs[i], reason_of(v["reason"].as_str().unwrap(), 60), None);
                Some(json!({"banned": banned_ids(&pool), "error_count": addrs[i].error_count()}))
            }
            "pool_get_scenario" => {
                let runs = v.get("runs").and_then(|x| x.as_u64()).unwrap_or(1);
                let mut out = vec![];
                for _ in 0..runs {
                    let rt = tokio::runtime::Builder::new_multi_thread().worker_threads(2).enable_all().build().unwrap();
                    let vv = v.clone();
                    out.push(rt.block_on(async move { get_scenario(vv).await }));
                }
                Some(json!({"runs": out}))
            }
            "pause_script" => {
                // cooperative replay of a PAUSE/RESUME schedule: futures are polled by hand (tokio_test), so every step is deterministic
                let (pool, _addrs) = bare_pool(&json!(["replica"]), 60);
                let n = v["waiters"].as_u64().unwrap() as usize;
                let pool = Arc::new(pool);
                let mut tasks = vec![];
                for _ in 0..n {
                    let p = pool.clone();
                    tasks.push(tokio_test::task::spawn(async move { p.wait_paused().await }));
                }
                let mut done = vec![false; n];
                for st in v["script"].as_array().unwrap() {
                    let st = st.as_str().unwrap();
                    if st == "pause" { pool.pause(); }
                    else if st == "resume" { pool.resume(); }
                    else if st.starts_with("poll") {
                        let i: usize = st[4..].parse().unwrap();
                        if !done[i] { if tasks[i].poll().is_ready() { done[i] = true; } }
                    }
                }
                // final: everybody gets another chance to run
                for i in 0..n { if !done[i] { if tasks[i].poll().is_ready() { done[i] = true; } } }
                Some(json!({"done": done, "paused": pool.paused()}))
            }
            "pause_stress" => {
                // two OS threads released together by a spin barrier: one polls wait_paused() once, the other runs resume();
                // start offsets are swept so that RESUME lands at every point inside the waiter's first poll.
                let iters = v["iters"].as_u64().unwrap_or(200000);
                let mut stuck = 0u64;
                let mut example = json!(null);
                for it in 0..iters {
                    let (pool, _a) = bare_pool(&json!(["replica"]), 60);
                    let pool = Arc::new(pool);
                    pool.pause();
                    let go = Arc::new(AtomicBool::new(false));
                    let (p1, g1) = (pool.clone(), go.clone());
                    let d1 = (it % 64) as u32;
                    let d2 = ((it / 64) % 64) as u32;
                    let waiter = std::thread::spawn(move || {
                        let mut t = tokio_test::task::spawn(async move { p1.wait_paused().await });
                        while !g1.load(Ordering::Acquire) { std::hint::spin_loop(); }
                        for _ in 0..d1 { std::hint::spin_loop(); }
                        let ready = t.poll().is_ready();
                        (t, ready)
                    });
                    let (p2, g2) = (pool.clone(), go.clone());
                    let resumer = std::thread::spawn(move || {
                        while !g2.load(Ordering::Acquire) { std::hint::spin_loop(); }
                        for _ in 0..d2 { std::hint::spin_loop(); }
                        p2.resume();
                    });
                    go.store(true, Ordering::Release);
                    resumer.join().unwrap();
                    let (mut t, ready) = waiter.join().unwrap();
                    // RESUME has completed: the waiter must be able to finish now
                    let done = ready || t.poll().is_ready();
                    if !done && !pool.paused() { stuck += 1; example = json!({"iteration": it, "offsets": [d1, d2]}); break; }
                }
                Some(json!({"stuck": stuck, "example": example}))
            }
            "mirror_mapping" | "from_config_probe" => {
                // real ConnectionPool::from_config on a config built in memory (validate_config = false: nothing is connected)
                let rt = tokio::runtime::Builder::new_multi_thread().worker_threads(2).enable_all().build().unwrap();
                let vv = v.clone();
                Some(rt.block_on(async move {
                    let mut cfg = crate::config::Config::default();
                    cfg.general.validate_config = false;
                    let db = format!("verif_fc_{}", std::time::SystemTime::now().duration_since(std::time::UNIX_EPOCH).unwrap().as_nanos());
                    let mut pool = crate::config::Pool::default();
                    pool.shards.clear();
                    let shard_ids: Vec<String> = match vv.get("shard_ids").and_then(|x| x.as_array()) {
                        Some(a) => a.iter().map(|x| x.as_str().unwrap().to_string()).collect(), None => vec!["0".to_string()] };
                    let ns = vv.get("servers").and_then(|x| x.as_u64()).unwrap_or(1) as usize;
                    for sid in shard_ids.iter() {
                        let mut shard = crate::config::Shard { database: "db".to_string(), mirrors: None, servers: vec![] };
                        for i in 0..ns {
                            shard.servers.push(crate::config::ServerConfig { host: format!("s{}", i), port: 5432 + i as u16, role: if i == 0 { Role::Primary } else { Role::Replica } });
                        }
                        if let Some(ms) = vv.get("mirrors").and_then(|x| x.as_array()) {
                            shard.mirrors = Some(ms.iter().map(|m| crate::config::MirrorServerConfig { host: m["host"].as_str().unwrap().to_string(),
                                port: m["port"].as_u64().unwrap() as u16, mirroring_target_index: m["target"].as_u64().unwrap() as usize }).collect());
                        }
                        pool.shards.insert(sid.clone(), shard);
                    }
                    if let Some(r) = vv.get("default_role").and_then(|x| x.as_str()) { pool.default_role = r.to_string(); }
                    let mut user = User::default();
                    user.username = "u".to_string();
                    user.password = Some("pw".to_string());
                    pool.users.insert("0".to_string(), user);
                    let validated = pool.validate().is_ok();
                    cfg.pools.insert(db.clone(), pool);
                    crate::config::verif_probe::set_config(cfg);
                    let csm: ClientServerMap = Arc::new(Mutex::new(HashMap::new()));
                    if let Err(e) = ConnectionPool::from_config(csm).await { return json!({"error": format!("{:?}", e), "validated": validated}); }
                    let cp = match get_pool(&db, "u") { Some(p) => p, None => return json!({"error": "pool missing", "validated": validated}) };
                    let mirrors: Vec<Vec<Value>> = cp.addresses[0].iter().map(|a| a.mirrors.iter().map(|m| json!([m.host, m.port])).collect()).collect();
                    let shards: Vec<Vec<usize>> = cp.addresses.iter().map(|s| s.iter().map(|a| a.shard).collect()).collect();
                    json!({"validated": validated, "mirrors": mirrors, "address_shards": shards, "settings_shards": cp.settings.shards,
                           "databases": cp.databases.len()})
                }))
            }
            "entrypoint_drain" => {
                // the real client_entrypoint over loopback TCP: what does the drain channel (main()'s count of connected clients) sum to
                // once the client's session is over?  scenario: "terminate" | "drop" (socket closed without Terminate) | "bad_startup"
                let rt = tokio::runtime::Builder::new_multi_thread().worker_threads(2).enable_all().build().unwrap();
                let vv = v.clone();
                let r = rt.block_on(async move { timeout(Duration::from_secs(20), async move {
                    let tag = format!("{}", std::time::SystemTime::now().duration_since(std::time::UNIX_EPOCH).unwrap().as_nanos());
                    let db = format!("verif_ep_{}", tag);
                    let usern = "verif_user".to_string();
                    let be = TcpListener::bind("127.0.0.1:0").await.unwrap();
                    let be_port = be.local_addr().unwrap().port();
                    tokio::spawn(fake_postgres(be));
                    let csmap: ClientServerMap = Arc::new(Mutex::new(HashMap::new()));
                    install_pool(&db, &usern, be_port, csmap.clone());
                    let front = TcpListener::bind("127.0.0.1:0").await.unwrap();
                    let front_port = front.local_addr().unwrap().port();
                    let (shutdown_tx, _keep) = tokio::sync::broadcast::channel::<()>(1);
                    let (drain_tx, mut drain_rx) = tokio::sync::mpsc::channel::<i32>(64);
                    let shutdown_rx = shutdown_tx.subscribe();
                    let csm2 = csmap.clone();
                    let scenario = vv["scenario"].as_str().unwrap_or("terminate").to_string();
                    // "late_*": the accept loop has seen SIGINT (admin_only = true) and this is a NEW non-admin client
                    let late = scenario.starts_with("late");
                    let ep = tokio::spawn(async move {
                        let (sock, _) = front.accept().await.unwrap();
                        crate::client::client_entrypoint(sock, csm2, shutdown_rx, drain_tx, late, None, false).await
                    });
                    let mut c = tokio::net::TcpStream::connect(("127.0.0.1", front_port)).await.unwrap();
                    if scenario == "late_ssl_declined" {
                        // libpq's sslmode=prefer: SSLRequest first; no certificate configured, the pooler answers 'N', the client goes on in plain text
                        let _ = c.write_all(&[0, 0, 0, 8, 0x04, 0xd2, 0x16, 0x2f]).await;
                        let _ = timeout(Duration::from_secs(3), c.read_u8()).await;
                    }
                    let user_for_startup = if scenario == "bad_startup" { "nobody".to_string() } else { usern.clone() };
                    let mut body = BytesMut::new();
                    body.put_i32(196608);
                    body.put_slice(b"user\0"); body.put_slice(user_for_startup.as_bytes()); body.put_slice(b"\0database\0"); body.put_slice(db.as_bytes()); body.put_slice(b"\0\0");
                    let mut pkt = BytesMut::new(); pkt.put_i32(body.len() as i32 + 4); pkt.put(body);
                    let _ = c.write_all(&pkt).await;
                    // read until ReadyForQuery or error/EOF
                    let mut logged_in = false;
                    loop {
                        let code = match timeout(Duration::from_secs(3), c.read_u8()).await { Ok(Ok(x)) => x, _ => break };
                        let len = match c.read_i32().await { Ok(l) => l, Err(_) => break };
                        let mut b = vec![0u8; (len as usize).saturating_sub(4)];
                        if c.read_exact(&mut b).await.is_err() { break; }
                        if code == b'Z' { logged_in = true; break; }
                        if code == b'E' { break; }
                    }
                    if logged_in {
                        let _ = c.write_all(&simple_query("SELECT 1")).await;
                        let mut buf = [0u8; 512];
                        let _ = timeout(Duration::from_millis(500), c.read(&mut buf)).await;
                        if scenario == "terminate" { let _ = c.write_all(&[b'X', 0, 0, 0, 4]).await; }
                    }
                    drop(c);
                    let res = match timeout(Duration::from_secs(5), ep).await { Ok(Ok(Ok(()))) => "ok".to_string(), Ok(Ok(Err(e))) => format!("err: {:?}", e), _ => "other".to_string() };
                    let mut vals = vec![];
                    while let Ok(x) = drain_rx.try_recv() { vals.push(x); }
                    json!({"scenario": scenario, "logged_in": logged_in, "admitted": late && logged_in, "result": res, "drain": vals, "sum": vals.iter().sum::<i32>()})
                }).await });
                Some(match r { Ok(x) => x, Err(_) => json!({"error": "scenario timed out"}) })
            }
            "capacity_probe" => {
                // real from_config with user.pool_size = n, then n+extra concurrent checkouts against a live reference backend:
                // how many are held at once?
                let rt = tokio::runtime::Builder::new_multi_thread().worker_threads(2).enable_all().build().unwrap();
                let vv = v.clone();
                Some(rt.block_on(async move {
                    let log: SharedLog = Arc::new(Mutex::new(RefLog::default()));
                    let nservers = vv["servers"].as_u64().unwrap_or(2) as usize;
                    let mut servers = vec![];
                    for i in 0..nservers {
                        let listener = TcpListener::bind("127.0.0.1:0").await.unwrap();
                        let port = listener.local_addr().unwrap().port();
                        tokio::spawn(ref_postgres(listener, log.clone(), i));
                        servers.push(crate::config::ServerConfig { host: "127.0.0.1".to_string(), port, role: if i == 0 { Role::Primary } else { Role::Replica } });
                    }
                    let mut cfg = crate::config::Config::default();
                    cfg.general.validate_config = false;
                    cfg.general.connect_timeout = 400;
                    let db = format!("verif_cap_{}", std::time::SystemTime::now().duration_since(std::time::UNIX_EPOCH).unwrap().as_nanos());
                    let mut pool = crate::config::Pool::default();
                    pool.shards.clear();
                    pool.shards.insert("0".to_string(), crate::config::Shard { database: "db".to_string(), mirrors: None, servers });
                    let n = vv["pool_size"].as_u64().unwrap() as u32;
                    let mut user = User::default();
                    user.username = "u".to_string();
                    user.password = Some("pw".to_string());
                    user.pool_size = n;
                    pool.users.insert("0".to_string(), user);
                    // a second user with a different size: sizes must not be mixed up
                    let mut user2 = User::default();
                    user2.username = "u2".to_string();
                    user2.password = Some("pw".to_string());
                    user2.pool_size = n + 2;
                    pool.users.insert("1".to_string(), user2);
                    cfg.pools.insert(db.clone(), pool);
                    crate::config::verif_probe::set_config(cfg);
                    let csm: ClientServerMap = Arc::new(Mutex::new(HashMap::new()));
                    if let Err(e) = ConnectionPool::from_config(csm).await { return json!({"error": format!("{:?}", e)}); }
                    let cp = match get_pool(&db, "u") { Some(p) => p, None => return json!({"error": "pool missing"}) };
                    let extra = vv["extra"].as_u64().unwrap_or(2) as u32;
                    // the smallest number of connections any server of this (pool, user) lets us hold at once, and the largest
                    let mut min_held = usize::MAX; let mut max_held = 0usize;
                    for si in 0..nservers {
                        let mut held = vec![];
                        for _ in 0..(n + extra) {
                            match timeout(Duration::from_millis(1500), cp.databases[0][si].get()).await {
                                Ok(Ok(c)) => held.push(c),
                                _ => break,
                            }
                        }
                        min_held = std::cmp::min(min_held, held.len());
                        max_held = std::cmp::max(max_held, held.len());
                        drop(held);
                    }
                    let conns = log.lock().conns;
                    json!({"pool_size": n, "held_at_once": max_held, "held_at_once_min": min_held, "backend_connections": conns})
                }))
            }
            "mirror_task_slow" => {
                // the real MirroringManager / MirroredClient task against a mirror that accepts the connection, then reads nothing for 3 s, then
                // reads everything: a request larger than the socket buffers is mirrored, a second one 3.5 s later.  Is what the mirror
                // receives a sequence of whole requests?
                let rt = tokio::runtime::Builder::new_multi_thread().worker_threads(3).enable_all().build().unwrap();
                let answers = v["mode"].as_str() == Some("answers");
                let r = rt.block_on(async move { timeout(Duration::from_secs(40), async move {
                    let listener = TcpListener::bind("127.0.0.1:0").await.unwrap();
                    let port = listener.local_addr().unwrap().port();
                    let got: Arc<Mutex<Vec<Vec<u8>>>> = Arc::new(Mutex::new(vec![]));
                    let got2 = got.clone();
                    tokio::spawn(async move {
                        loop {
                            let (mut sock, _) = match listener.accept().await { Ok(c) => c, Err(_) => return };
                            let got3 = got2.clone();
                            tokio::spawn(async move {
                                let len = match sock.read_i32().await { Ok(l) => l, Err(_) => return };
                                let mut startup = vec![0u8; len as usize - 4];
                                if sock.read_exact(&mut startup).await.is_err() { return; }
                                let mut out = BytesMut::new();
                                out.put_u8(b'R'); out.put_i32(8); out.put_i32(0);
                                out.put(server_parameter_message("server_version", "14.0"));
                                out.put_u8(b'K'); out.put_i32(12); out.put_i32(1); out.put_i32(1234);
                                out.put(ready_for_query(false));
                                if sock.write_all(&out).await.is_err() { return; }
                                let idx = { let mut g = got3.lock(); g.push(vec![]); g.len() - 1 };
                                if answers {
                                    // a live mirror: reads every message, answers queries like PostgreSQL would (BEGIN -> in transaction, SET -> SET)
                                    let mut status = b'I';
                                    loop {
                                        let code = match sock.read_u8().await { Ok(c) => c, Err(_) => return };
                                        let len = match sock.read_i32().await { Ok(l) => l, Err(_) => return };
                                        let mut body = vec![0u8; (len as usize).saturating_sub(4)];
                                        if sock.read_exact(&mut body).await.is_err() { return; }
                                        { let mut g = got3.lock(); g[idx].push(code); g[idx].extend_from_slice(&len.to_be_bytes()); g[idx].extend_from_slice(&body); }
                                        if code == b'X' { return; }
                                        if code != b'Q' { continue; }
                                        let q = String::from_utf8_lossy(&body).to_ascii_uppercase();
                                        let tag = if q.starts_with("BEGIN") { status = b'T'; "BEGIN" } else if q.starts_with("ROLLBACK") || q.starts_with("COMMIT") { status = b'I'; "ROLLBACK" }
                                                  else if q.starts_with("SET") { "SET" } else if q.starts_with("RESET") { "RESET" } else { "SELECT 1" };
                                        let mut out = BytesMut::new();
                                        out.put(command_complete(tag));
                                        out.put_u8(b'Z'); out.put_i32(5); out.put_u8(status);
                                        if sock.write_all(&out).await.is_err() { return; }
                                    }
                                }
                                tokio::time::sleep(Duration::from_millis(3000)).await;
                                let mut buf = vec![0u8; 1 << 20];
                                loop {
                                    match timeout(Duration::from_millis(2500), sock.read(&mut buf)).await {
                                        Ok(Ok(0)) | Ok(Err(_)) | Err(_) => return,
                                        Ok(Ok(n)) => { got3.lock()[idx].extend_from_slice(&buf[..n]); }
                                    }
                                }
                            });
                        }
                    });
                    let mut cfg = crate::config::Config::default();
                    cfg.general.validate_config = false;
                    crate::config::verif_probe::set_config(cfg);
                    let addr = Address { host: "127.0.0.1".to_string(), port, role: Role::Mirror, database: "db".to_string(), username: "u".to_string(),
                                         pool_name: "verif_mirror".to_string(), ..Address::default() };
                    let user = User { username: "u".to_string(), password: Some("p".to_string()), ..User::default() };
                    let mut mgr = crate::mirrors::MirroringManager::from_addresses(user, "db".to_string(), vec![addr]);
                    tokio::time::sleep(Duration::from_millis(300)).await;
                    let big = if answers { simple_query("SET statement_timeout TO 1000") } else { simple_query(&"x".repeat(24 << 20)) };
                    let small = if answers { simple_query("BEGIN") } else { simple_query("SELECT 2") };
                    mgr.send(&BytesMut::from(&big[..]));
                    tokio::time::sleep(Duration::from_millis(if answers { 400 } else { 3500 })).await;
                    mgr.send(&BytesMut::from(&small[..]));
                    tokio::time::sleep(Duration::from_millis(if answers { 800 } else { 7000 })).await;
                    let streams: Vec<Vec<u8>> = got.lock().iter().map(|s| { let mut s = s.clone(); if s.ends_with(&[b'X', 0, 0, 0, 4]) { let n = s.len() - 5; s.truncate(n); } s }).collect();
                    // every connection: whole frames only (a cut frame only as its last bytes AND nothing after it), frames equal to the requests in order
                    let mut ok_all = true; let mut detail = vec![];
                    for (ci, s) in streams.iter().enumerate() {
                        let mut pos = 0usize; let mut frames = vec![];
                        while pos + 5 <= s.len() {
                            let len = i32::from_be_bytes([s[pos + 1], s[pos + 2], s[pos + 3], s[pos + 4]]) as usize;
                            let complete = pos + 1 + len <= s.len();
                            let body_ok = if complete { &s[pos..pos + 1 + len] == &big[..] || &s[pos..pos + 1 + len] == &small[..] } else { big.starts_with(&s[pos..]) || small.starts_with(&s[pos..]) };
                            frames.push(json!([s[pos], len + 1, complete, body_ok]));
                            if !body_ok { ok_all = false; }
                            if !complete { break; }
                            pos += 1 + len;
                        }
                        detail.push(json!({"connection": ci, "bytes": s.len(), "frames": frames}));
                    }
                    json!({"whole_requests_only": ok_all, "detail": detail})
                }).await });
                Some(match r { Ok(x) => x, Err(_) => json!({"error": "scenario timed out"}) })
            }
            "config_identity" => {
                // two definitions that differ in exactly one field (at `path` inside a fully populated config::Pool, or a field of General /
                // Config): what do ==, Pool::hash_value and Config == say?
                fn merge(a: &mut Value, b: &Value) {
                    match (a, b) {
                        (Value::Object(a), Value::Object(b)) => { for (k, v) in b { merge(a.entry(k.clone()).or_insert(Value::Null), v); } }
                        (a, b) => { *a = b.clone(); }
                    }
                }
                fn at<'a>(v: &'a mut Value, path: &[Value]) -> Option<&'a mut Value> {
                    let mut cur = v;
                    for p in path {
                        cur = match p { Value::String(s) => cur.get_mut(s.as_str())?, Value::Number(n) => cur.get_mut(n.as_u64()? as usize)?, _ => return None };
                    }
                    Some(cur)
                }
                let mut base = serde_json::to_value(crate::config::Pool::default()).unwrap();
                merge(&mut base, &v["pool_patch"]);
                let a: crate::config::Pool = match serde_json::from_value(base.clone()) { Ok(p) => p, Err(e) => return Some(json!({"error": format!("base pool: {}", e)})) };
                let base = serde_json::to_value(&a).unwrap();
                let wrap = |p: &crate::config::Pool, g: Option<crate::config::General>, path: Option<String>| {
                    let mut c = crate::config::Config::default();
                    c.pools.clear();
                    c.pools.insert("db".to_string(), p.clone());
                    if let Some(g) = g { c.general = g; }
                    if let Some(pa) = path { c.path = pa; }
                    c
                };
                let cands = v["candidates"].as_array().cloned().unwrap_or_default();
                if let Some(gf) = v["general_field"].as_str() {
                    let g0 = crate::config::General::default();
                    let j0 = serde_json::to_value(&g0).unwrap();
                    for c in &cands {
                        let mut j = j0.clone();
                        j[gf] = c.clone();
                        if let Ok(g1) = serde_json::from_value::<crate::config::General>(j) {
                            if serde_json::to_value(&g1).unwrap()[gf] != j0[gf] {
                                let ceq = wrap(&a, Some(g0.clone()), None) == wrap(&a, Some(g1.clone()), None);
                                return Some(json!({"a": j0[gf], "b": c, "eq": g0 == g1, "hash_eq": false, "config_eq": ceq}));
                            }
                        }
                    }
                    return Some(json!({"error": "no candidate value fits the field"}));
                }
                if let Some(cf) = v["config_field"].as_str() {
                    let (c0, c1) = match cf {
                        "path" => (wrap(&a, None, None), wrap(&a, None, Some("other.toml".to_string()))),
                        "general" => { let mut g = crate::config::General::default(); g.ban_time += 1; (wrap(&a, None, None), wrap(&a, Some(g), None)) }
                        "plugins" => { let mut c1 = wrap(&a, None, None); c1.plugins = a.plugins.clone(); (wrap(&a, None, None), c1) }
                        _ => { let mut b = a.clone(); b.default_role = "replica".to_string(); (wrap(&a, None, None), wrap(&b, None, None)) }
                    };
                    return Some(json!({"a": cf, "b": cf, "eq": c0 == c1, "hash_eq": false, "config_eq": c0 == c1}));
                }
                let path = v["path"].as_array().cloned().unwrap_or_default();
                for c in &cands {
                    let mut j = base.clone();
                    let old = match at(&mut j, &path) { Some(slot) => { let o = slot.clone(); *slot = c.clone(); o } None => return Some(json!({"error": "path not in the sample pool"})) };
                    if let Ok(b) = serde_json::from_value::<crate::config::Pool>(j) {
                        let mut jb = serde_json::to_value(&b).unwrap();
                        let now = at(&mut jb, &path).map(|x| x.clone()).unwrap_or(Value::Null);
                        if now != old {
                            let ceq = wrap(&a, None, None) == wrap(&b, None, None);
                            return Some(json!({"a": old, "b": now, "eq": a == b, "hash_eq": a.hash_value() == b.hash_value(), "config_eq": ceq}));
                        }
                    }
                }
                Some(json!({"error": "no candidate value fits the field"}))
            }
            "reload_pools" => {
                // config A: pools keep/change/gone ; config B: keep (identical), change (different), gone removed
                let rt = tokio::runtime::Builder::new_multi_thread().worker_threads(2).enable_all().build().unwrap();
                let v = v.clone();
                Some(rt.block_on(async move {
                    let tag = std::time::SystemTime::now().duration_since(std::time::UNIX_EPOCH).unwrap().as_nanos();
                    let mk = |port: u16| {
                        let mut pool = crate::config::Pool::default();
                        pool.shards.clear();
                        pool.shards.insert("0".to_string(), crate::config::Shard { database: "db".to_string(), mirrors: None,
                            servers: vec![crate::config::ServerConfig { host: "127.0.0.1".to_string(), port, role: Role::Primary }] });
                        let mut user = User::default();
                        user.username = "u".to_string();
                        user.password = Some("pw".to_string());
                        pool.users.insert("0".to_string(), user);
                        pool
                    };
                    let mode = v.get("mode").and_then(|x| x.as_str()).unwrap_or("mixed").to_string();
                    if mode == "auth_query" || mode == "grow" || mode == "swap" || mode == "two_users" {
                        // what a re-created / kept pool shares with its predecessor and its siblings
                        let name = format!("rebuild_{}", tag);
                        let mut p1 = mk(1);
                        if mode != "grow" && mode != "swap" {
                            p1.auth_query = Some("SELECT usename, passwd FROM pg_shadow WHERE usename='$1'".to_string());
                            p1.auth_query_user = Some("lookup".to_string());
                            p1.auth_query_password = Some("lookup".to_string());
                        }
                        if mode == "two_users" {
                            let mut u2 = User::default(); u2.username = "v".to_string(); u2.password = Some("pw2".to_string());
                            p1.users.insert("1".to_string(), u2);
                        }
                        let mut a = crate::config::Config::default();
                        a.general.validate_config = false;
                        a.pools.insert(name.clone(), p1.clone());
                        crate::config::verif_probe::set_config(a.clone());
                        let csm: ClientServerMap = Arc::new(Mutex::new(HashMap::new()));
                        if ConnectionPool::from_config(csm.clone()).await.is_err() { return json!({"error": "first from_config failed"}); }
                        let before = get_pool(&name, "u").unwrap();
                        if mode == "two_users" {
                            let other = get_pool(&name, "v").unwrap();
                            return json!({"auth_hash_distinct": !Arc::ptr_eq(&before.auth_hash, &other.auth_hash)});
                        }
                        let mut b = a.clone();
                        if mode == "grow" {
                            before.ban(&before.addresses[0][0].clone(), BanReason::FailedHealthCheck, None);
                            let mut p2 = p1.clone();
                            p2.shards.insert("1".to_string(), crate::config::Shard { database: "db".to_string(), mirrors: None,
                                servers: vec![crate::config::ServerConfig { host: "127.0.0.1".to_string(), port: 2, role: Role::Primary }] });
                            b.pools.insert(name.clone(), p2);
                        } else if mode == "swap" {
                            before.ban(&before.addresses[0][0].clone(), BanReason::FailedHealthCheck, None);
                            b.pools.insert(name.clone(), mk(2));
                        } else {
                            b.general.ban_time = 61;        // something ELSE in the file changed
                        }
                        crate::config::verif_probe::set_config(b);
                        if ConnectionPool::from_config(csm).await.is_err() { return json!({"error": "second from_config failed"}); }
                        let after = get_pool(&name, "u").unwrap();
                        if mode == "auth_query" {
                            return json!({"unchanged_reused": Arc::ptr_eq(&after.databases, &before.databases)});
                        }
                        let slots = after.banlist.read().len();
                        let bans: usize = after.banlist.read().iter().map(|m| m.len()).sum();
                        let want = if mode == "grow" { 2 } else { 1 };
                        return json!({"rebuilt_banlist_ok": slots == want && bans == 0 && !Arc::ptr_eq(&after.banlist, &before.banlist), "banlist_slots": slots, "shards": want, "bans": bans});
                    }
                    let (keep, change, gone) = (format!("keep_{}", tag), format!("change_{}", tag), format!("gone_{}", tag));
                    let mut a = crate::config::Config::default();
                    a.general.validate_config = false;
                    a.pools.insert(keep.clone(), mk(5432));
                    a.pools.insert(change.clone(), mk(5432));
                    a.pools.insert(gone.clone(), mk(5432));
                    crate::config::verif_probe::set_config(a.clone());
                    let csm: ClientServerMap = Arc::new(Mutex::new(HashMap::new()));
                    if ConnectionPool::from_config(csm.clone()).await.is_err() { return json!({"error": "first from_config failed"}); }
                    let keep_before = get_pool(&keep, "u").unwrap();
                    let change_before = get_pool(&change, "u").unwrap();
                    let remove_only = v.get("mode").and_then(|x| x.as_str()) == Some("remove_only");
                    let mut b = a.clone();
                    b.pools.remove(&gone);
                    if !remove_only { b.pools.insert(change.clone(), mk(6543)); }
                    crate::config::verif_probe::set_config(b);
                    if ConnectionPool::from_config(csm).await.is_err() { return json!({"error": "second from_config failed"}); }
                    let keep_after = get_pool(&keep, "u");
                    let change_after = get_pool(&change, "u");
                    json!({
                        "removed_still_served": get_pool(&gone, "u").is_some(),
                        "unchanged_reused": keep_after.map(|p| Arc::ptr_eq(&p.databases, &keep_before.databases)).unwrap_or(false),
                        "changed_rebuilt": remove_only || change_after.map(|p| !Arc::ptr_eq(&p.databases, &change_before.databases) && p.addresses[0][0].port == 6543).unwrap_or(false),
                    })
                }))
            }
            "get_shard_scenario" => {
                // shard 0: primary + replica, shard 1: a primary only; primary_reads_enabled on (it is the ROUTER's business, never the pool's).
                // Every (shard, role) is asked for several times (the candidate order is shuffled)
                let rt = tokio::runtime::Builder::new_multi_thread().worker_threads(2).enable_all().build().unwrap();
                Some(rt.block_on(async move {
                    let csmap: ClientServerMap = Arc::new(Mutex::new(HashMap::new()));
                    let user = User { username: "u".to_string(), password: None, auth_type: AuthType::Trust, pool_size: 1, ..User::default() };
                    let mut all_addrs = vec![]; let mut all_pools = vec![]; let mut id = 0usize;
                    for (si, roles) in [vec![Role::Primary, Role::Replica], vec![Role::Primary]].iter().enumerate() {
                        let mut addrs = vec![]; let mut pools = vec![];
                        for (ai, role) in roles.iter().enumerate() {
                            let l = TcpListener::bind("127.0.0.1:0").await.unwrap();
                            let port = l.local_addr().unwrap().port();
                            tokio::spawn(behaving_postgres(l, "ok".to_string()));
                            let a = Address { id, host: "127.0.0.1".to_string(), port, address_index: ai, replica_number: ai, shard: si, role: *role,
                                              database: "db".to_string(), username: "u".to_string(), pool_name: "db".to_string(), ..Address::default() };
                            let manager = ServerPool::new(a.clone(), user.clone(), "db", csmap.clone(), Arc::new(RwLock::new(None)), None, true, false, 0);
                            pools.push(Pool::builder().max_size(1).connection_timeout(std::time::Duration::from_millis(400)).test_on_check_out(false).build_unchecked(manager));
                            addrs.push(a); id += 1;
                        }
                        all_addrs.push(addrs); all_pools.push(pools);
                    }
                    let pool = ConnectionPool {
                        databases: Arc::new(all_pools), addresses: Arc::new(all_addrs),
                        banlist: Arc::new(RwLock::new(vec![HashMap::new(), HashMap::new()])), config_hash: 0,
                        original_server_parameters: Arc::new(RwLock::new(ServerParameters::new())), auth_hash: Arc::new(RwLock::new(None)),
                        settings: Arc::new(PoolSettings { user, db: "db".to_string(), ban_time: 3600, shards: 2, primary_reads_enabled: true, query_parser_enabled: true,
                            query_parser_read_write_splitting: true, healthcheck_delay: 3_600_000, ..PoolSettings::default() }),
                        validated: Arc::new(AtomicBool::new(true)), paused: Arc::new(AtomicBool::new(false)), paused_waiter: Arc::new(Notify::new()), prepared_statement_cache: None,
                    };
                    let stats = crate::stats::ClientStats::default();
                    let mut gets = vec![];
                    for shard in 0..2usize {
                        for role in [None, Some(Role::Primary), Some(Role::Replica)] {
                            for _ in 0..12 {
                                let r = timeout(Duration::from_secs(5), pool.get(Some(shard), role, &stats)).await;
                                let (gs, gr) = match r { Ok(Ok((conn, a))) => { drop(conn); (json!(a.shard), json!(format!("{:?}", a.role))) } _ => (Value::Null, Value::Null) };
                                gets.push(json!({"shard": shard, "role": role.map(|r| format!("{:?}", r)), "got_shard": gs, "got_role": gr}));
                                pool.banlist.write().iter_mut().for_each(|m| m.clear());
                            }
                        }
                    }
                    json!({"gets": gets})
                }))
            }
            "pool_row" => {
                let f = |k: &str| v["fields"][k].as_u64().unwrap_or(0);
                let ps = crate::stats::pool::PoolStats { identifier: PoolIdentifier::new("dbx", "ux"), mode: PoolMode::Transaction,
                    cl_idle: f("cl_idle"), cl_active: f("cl_active"), cl_waiting: f("cl_waiting"), cl_cancel_req: f("cl_cancel_req"),
                    sv_active: f("sv_active"), sv_idle: f("sv_idle"), sv_used: f("sv_used"), sv_tested: f("sv_tested"), sv_login: f("sv_login"), maxwait: f("maxwait") };
                let header: Vec<String> = crate::stats::pool::PoolStats::generate_header().iter().map(|(n, _)| n.to_string()).collect();
                let mut fields = v["fields"].clone();
                if let Some(o) = fields.as_object_mut() { o.remove("maxwait"); }
                Some(json!({"header": header, "row": ps.generate_row(), "fields": fields}))
            }
            "admin_ban" => {
                // a registered pool (primary h0, replicas h1 h2) with a given ban list; the admin commands through the real handle_admin
                let rt = tokio::runtime::Builder::new_multi_thread().worker_threads(2).enable_all().build().unwrap();
                let v = v.clone();
                Some(rt.block_on(async move {
                    let (pool, addrs) = bare_pool(&json!(["primary", "replica", "replica"]), 60);
                    for b in v["before"].as_array().unwrap() {
                        let i = b.as_u64().unwrap() as usize;
                        pool.banlist.write()[0].insert(addrs[i].clone(), (BanReason::FailedHealthCheck, chrono::offset::Utc::now().naive_utc()));
                    }
                    let mut pools = HashMap::new();
                    pools.insert(PoolIdentifier::new("db", "u"), pool.clone());
                    POOLS.store(Arc::new(pools));
                    let csm: ClientServerMap = Arc::new(Mutex::new(HashMap::new()));
                    let mut replies = vec![];
                    for q in v["commands"].as_array().unwrap() {
                        let mut out: Vec<u8> = vec![];
                        let r = crate::admin::handle_admin(&mut out, simple_query(q.as_str().unwrap()), csm.clone()).await;
                        replies.push(json!({"ok": r.is_ok(), "first": out.first().map(|c| (*c as char).to_string())}));
                    }
                    let reasons: Vec<String> = pool.banlist.read()[0].iter().map(|(a, (r, _))| format!("{}:{:?}", a.id, r)).collect();
                    json!({"commands": v["commands"], "before": v["before"], "want": v["want"], "duration": v["duration"], "banned_after": banned_ids(&pool), "reasons": reasons, "replies": replies})
                }))
            }
            "admin_pause_resume" => {
                // two registered pools (db1/u1, db2/u2) with given pause states; the admin commands through the real handle_admin
                let rt = tokio::runtime::Builder::new_multi_thread().worker_threads(2).enable_all().build().unwrap();
                let v = v.clone();
                Some(rt.block_on(async move {
                    let mut pools = HashMap::new();
                    let mut mine = vec![];
                    for (i, (db, us)) in [("db1", "u1"), ("db2", "u2")].iter().enumerate() {
                        let (pool, _) = bare_pool(&json!(["primary"]), 60);
                        if v["before"][i].as_bool().unwrap_or(false) { pool.pause(); }
                        mine.push(pool.clone());
                        pools.insert(PoolIdentifier::new(db, us), pool);
                    }
                    POOLS.store(Arc::new(pools));
                    let csm: ClientServerMap = Arc::new(Mutex::new(HashMap::new()));
                    let mut replies = vec![];
                    for q in v["commands"].as_array().unwrap() {
                        let mut out: Vec<u8> = vec![];
                        let msg = simple_query(q.as_str().unwrap());
                        let r = crate::admin::handle_admin(&mut out, msg, csm.clone()).await;
                        replies.push(json!({"ok": r.is_ok(), "first": out.first().map(|c| (*c as char).to_string())}));
                    }
                    json!({"commands": v["commands"], "want": v["want"], "paused_after": mine.iter().map(|p| p.paused()).collect::<Vec<bool>>(), "replies": replies})
                }))
            }
            "plugin_resolution" => {
                // general [plugins]: table_access DISABLED (over general_t); pool "own": a block of its own, table_access ENABLED over own_t; pool "plain": none
                let rt = tokio::runtime::Builder::new_multi_thread().worker_threads(2).enable_all().build().unwrap();
                Some(rt.block_on(async move {
                    let tag = std::time::SystemTime::now().duration_since(std::time::UNIX_EPOCH).unwrap().as_nanos();
                    let block = |t: &str, enabled: bool| crate::config::Plugins { intercept: None, query_logger: None, prewarmer: None,
                        table_access: Some(crate::config::TableAccess { enabled, tables: vec![t.to_string()] }) };
                    let mk = |plugins: Option<crate::config::Plugins>| {
                        let mut pool = crate::config::Pool::default();
                        pool.shards.clear();
                        pool.shards.insert("0".to_string(), crate::config::Shard { database: "db".to_string(), mirrors: None,
                            servers: vec![crate::config::ServerConfig { host: "127.0.0.1".to_string(), port: 1, role: Role::Primary }] });
                        let mut user = User::default(); user.username = "u".to_string(); user.password = Some("pw".to_string());
                        pool.users.insert("0".to_string(), user);
                        pool.plugins = plugins;
                        pool
                    };
                    let (own, plain) = (format!("own_{}", tag), format!("plain_{}", tag));
                    let mut a = crate::config::Config::default();
                    a.general.validate_config = false;
                    a.plugins = Some(block("general_t", false));
                    a.pools.insert(own.clone(), mk(Some(block("own_t", true))));
                    a.pools.insert(plain.clone(), mk(None));
                    crate::config::verif_probe::set_config(a);
                    let csm: ClientServerMap = Arc::new(Mutex::new(HashMap::new()));
                    if ConnectionPool::from_config(csm).await.is_err() { return json!({"error": "from_config failed"}); }
                    let seen = |name: &str| get_pool(name, "u").and_then(|p| p.settings.plugins.clone()).and_then(|p| p.table_access).map(|t| (t.enabled, t.tables.clone()));
                    let (o, p) = (seen(&own), seen(&plain));
                    json!({"own_block_enforced": o == Some((true, vec!["own_t".to_string()])), "general_block_inherited": p == Some((false, vec!["general_t".to_string()])),
                           "own": format!("{:?}", o), "plain": format!("{:?}", p)})
                }))
            }
            "connect_settings" => {
                // what a connection opened by bb8's connect hook is configured with, and what is sent on it before anybody uses it
                let rt = tokio::runtime::Builder::new_multi_thread().worker_threads(2).enable_all().build().unwrap();
                Some(rt.block_on(async move {
                    let mut cfg = crate::config::Config::default();
                    cfg.general.validate_config = false;
                    cfg.plugins = Some(crate::config::Plugins { intercept: None, table_access: None, query_logger: None,
                        prewarmer: Some(crate::config::Prewarmer { enabled: true, queries: vec!["SELECT 'general prewarm'".to_string()] }) });
                    crate::config::verif_probe::set_config(cfg);
                    let log: SharedLog = Arc::new(Mutex::new(RefLog::default()));
                    let listener = TcpListener::bind("127.0.0.1:0").await.unwrap();
                    let port = listener.local_addr().unwrap().port();
                    tokio::spawn(ref_postgres(listener, log.clone(), 0));
                    let user = User { username: "u".to_string(), password: None, auth_type: AuthType::Trust, pool_size: 1, ..User::default() };
                    let csmap: ClientServerMap = Arc::new(Mutex::new(HashMap::new()));
                    let a = Address { host: "127.0.0.1".to_string(), port, role: Role::Primary, database: "db".to_string(), username: "u".to_string(), pool_name: "connsettings".to_string(), ..Address::default() };
                    // cleanup ON, parameter logging OFF, cache of 7, no plugins (the way a mirror's pool is built)
                    let manager = ServerPool::new(a, user, "db", csmap, Arc::new(RwLock::new(None)), None, true, false, 7);
                    let pool = Pool::builder().max_size(1).connection_timeout(std::time::Duration::from_millis(1500)).test_on_check_out(false).build_unchecked(manager);
                    let conn = match pool.get().await { Ok(c) => c, Err(e) => return json!({"error": format!("connect failed: {:?}", e)}) };
                    let (cleanup_seen, cache_seen) = crate::server::verif_probe::conn_settings(&conn);
                    tokio::time::sleep(Duration::from_millis(100)).await;
                    let queries: Vec<String> = log.lock().reqs.iter().map(|r| String::from_utf8_lossy(&r.bytes).to_string()).filter(|s| s.contains("prewarm")).collect();
                    json!({"cleanup_given": true, "cleanup_seen": cleanup_seen, "cache_given": 7, "cache_seen": cache_seen, "queries_on_plain_connect": queries})
                }))
            }
            "connect_states" => {
                // bb8 opens connections ahead of use (min_idle): how are they listed while nobody uses them?  and after a connect that failed?
                let rt = tokio::runtime::Builder::new_multi_thread().worker_threads(2).enable_all().build().unwrap();
                Some(rt.block_on(async move {
                    let tag = std::time::SystemTime::now().duration_since(std::time::UNIX_EPOCH).unwrap().as_nanos();
                    let db = format!("connstates_{}", tag);
                    let log: SharedLog = Arc::new(Mutex::new(RefLog::default()));
                    let listener = TcpListener::bind("127.0.0.1:0").await.unwrap();
                    let port = listener.local_addr().unwrap().port();
                    tokio::spawn(ref_postgres(listener, log.clone(), 0));
                    let user = User { username: "u".to_string(), password: None, auth_type: AuthType::Trust, pool_size: 2, ..User::default() };
                    let csmap: ClientServerMap = Arc::new(Mutex::new(HashMap::new()));
                    let mk = |port: u16, name: &str| {
                        let a = Address { host: "127.0.0.1".to_string(), port, role: Role::Primary, database: "db".to_string(), username: "u".to_string(), pool_name: name.to_string(), ..Address::default() };
                        ServerPool::new(a, user.clone(), "db", csmap.clone(), Arc::new(RwLock::new(None)), None, true, false, 0)
                    };
                    let good = Pool::builder().max_size(2).min_idle(Some(2)).connection_timeout(std::time::Duration::from_millis(1500)).test_on_check_out(false).build(mk(port, &db)).await;
                    let good = match good { Ok(p) => p, Err(e) => return json!({"error": format!("pool build failed: {:?}", e)}) };
                    for _ in 0..40 { if good.state().idle_connections >= 2 { break; } tokio::time::sleep(std::time::Duration::from_millis(50)).await; }
                    let states: Vec<String> = crate::stats::get_server_stats().values().filter(|s| s.pool_name() == db)
                        .map(|s| s.state.load(Ordering::Relaxed).to_string()).collect();
                    // a port nobody listens on
                    let dead = { let l = std::net::TcpListener::bind("127.0.0.1:0").unwrap(); l.local_addr().unwrap().port() };
                    let db2 = format!("{}_dead", db);
                    let bad = Pool::builder().max_size(1).connection_timeout(std::time::Duration::from_millis(400)).test_on_check_out(false).build_unchecked(mk(dead, &db2));
                    let _ = bad.get().await;
                    let listed = crate::stats::get_server_stats().values().filter(|s| s.pool_name() == db2).count();
                    json!({"states_after_open": states, "listed_after_failure": listed, "idle_in_bb8": good.state().idle_connections})
                }))
            }
            "host_lookup" => {
                let mut shards = vec![]; let mut idx = 0usize;
                for (si, s) in v["layout"].as_array().unwrap().iter().enumerate() {
                    let mut row = vec![];
                    for h in s.as_array().unwrap() {
                        row.push(Address { id: idx, host: format!("host-{}", h.as_str().unwrap()), port: 5432 + idx as u16, address_index: idx, replica_number: idx, shard: si,
                                           role: if idx == 0 { Role::Primary } else { Role::Replica }, ..Address::default() });
                        idx += 1;
                    }
                    shards.push(row);
                }
                let n = shards.len();
                let pool = ConnectionPool {
                    databases: Arc::new((0..n).map(|_| vec![]).collect()), addresses: Arc::new(shards),
                    banlist: Arc::new(RwLock::new((0..n).map(|_| HashMap::new()).collect())), config_hash: 0,
                    original_server_parameters: Arc::new(RwLock::new(ServerParameters::new())), auth_hash: Arc::new(RwLock::new(None)),
                    settings: Arc::new(PoolSettings { shards: n, ..PoolSettings::default() }), validated: Arc::new(AtomicBool::new(true)),
                    paused: Arc::new(AtomicBool::new(false)), paused_waiter: Arc::new(Notify::new()), prepared_statement_cache: None,
                };
                let ids: Vec<usize> = pool.get_addresses_from_host(&format!("host-{}", v["host"].as_str().unwrap())).iter().map(|a| a.id).collect();
                Some(json!({"ids": ids}))
            }
            "reload_paused" => {
                // PAUSE; a client parks in wait_paused() on the pool object it holds; a RELOAD re-creates that pool (changed definition); RESUME on every
                // pool of the new map: is the parked client released?
                let rt = tokio::runtime::Builder::new_multi_thread().worker_threads(2).enable_all().build().unwrap();
                Some(rt.block_on(async move {
                    let tag = std::time::SystemTime::now().duration_since(std::time::UNIX_EPOCH).unwrap().as_nanos();
                    let mk = |port: u16| {
                        let mut pool = crate::config::Pool::default();
                        pool.shards.clear();
                        pool.shards.insert("0".to_string(), crate::config::Shard { database: "db".to_string(), mirrors: None,
                            servers: vec![crate::config::ServerConfig { host: "127.0.0.1".to_string(), port, role: Role::Primary }] });
                        let mut user = User::default();
                        user.username = "u".to_string();
                        user.password = Some("pw".to_string());
                        pool.users.clear();
                        pool.users.insert("0".to_string(), user);
                        pool
                    };
                    let name = format!("paused_{}", tag);
                    let mut a = crate::config::Config::default();
                    a.general.validate_config = false;
                    a.pools.clear();
                    a.pools.insert(name.clone(), mk(5432));
                    crate::config::verif_probe::set_config(a.clone());
                    let csm: ClientServerMap = Arc::new(Mutex::new(HashMap::new()));
                    if ConnectionPool::from_config(csm.clone()).await.is_err() { return json!({"error": "first from_config failed"}); }
                    let old = get_pool(&name, "u").unwrap();
                    old.pause();
                    let held = old.clone();
                    let parked = tokio::spawn(async move { held.wait_paused().await; });
                    tokio::time::sleep(Duration::from_millis(100)).await;
                    let mut b = a.clone();
                    b.pools.insert(name.clone(), mk(6543));
                    crate::config::verif_probe::set_config(b);
                    if ConnectionPool::from_config(csm).await.is_err() { return json!({"error": "second from_config failed"}); }
                    let replaced = get_pool(&name, "u").map(|p| !Arc::ptr_eq(&p.databases, &old.databases)).unwrap_or(false);
                    for (_id, p) in get_all_pools() { p.resume(); }
                    let released = timeout(Duration::from_millis(800), parked).await.is_ok();
                    json!({"pool_replaced": replaced, "released_after_resume": released})
                }))
            }
            "pool_try_unban" => {
                let (pool, addrs) = bare_pool(&v["roles"], v["ban_time"].as_i64().unwrap());
                let now = chrono::offset::Utc::now().naive_utc();
                for b in v["bans"].as_array().unwrap() {
                    let i = b["idx"].as_u64().unwrap() as usize;
                    let ts = now - chrono::Duration::seconds(b["age"].as_i64().unwrap());
                    pool.banlist.write()[0].insert(addrs[i].clone(), (reason_of(b["reason"].as_str().unwrap(), b["duration"].as_i64().unwrap()), ts));
                }
                let rt = tokio::runtime::Builder::new_current_thread().enable_all().build().unwrap();
                let t = v["target"].as_u64().unwrap() as usize;
                let r = rt.block_on(pool.try_unban(&addrs[t]));
                Some(json!({"result": r, "banned": banned_ids(&pool)}))
            }
            "handle_script" => {
                let rt = tokio::runtime::Builder::new_multi_thread().worker_threads(2).enable_all().build().unwrap();
                let vv = v.clone();
                let r = rt.block_on(async move { timeout(Duration::from_secs(40), handle_script(vv)).await });
                Some(match r { Ok(x) => x, Err(_) => json!({"error": "scenario timed out"}) })
            }
            "e2e_handover" => {
                let rt = tokio::runtime::Builder::new_multi_thread().worker_threads(2).enable_all().build().unwrap();
                let vv = v.clone();
                let r = rt.block_on(async move { timeout(Duration::from_secs(30), scenario(vv)).await });
                Some(match r { Ok(x) => x, Err(_) => json!({"error": "scenario timed out"}) })
            }
            _ => None,
        }
    }
}
