
// ---- appended by /verif/native/oracle.py (scratch copy only) ----
#[cfg(test)]
pub(crate) mod verif_probe {
    #[allow(unused_imports)]
    use super::*;
    use serde_json::{json, Value};
    use sqlparser::dialect::PostgreSqlDialect;
    use sqlparser::parser::Parser;

    pub(crate) fn handle(op: &str, v: &Value) -> Option<Value> {
        match op {
            "table_access" => {
                let tables: Vec<String> = v["tables"].as_array().unwrap().iter().map(|x| x.as_str().unwrap().to_string()).collect();
                let sql = v["sql"].as_str().unwrap();
                let ast = match Parser::parse_sql(&PostgreSqlDialect {}, sql) { Ok(a) => a, Err(e) => return Some(json!({"parse_error": e.to_string()})) };
                let mut relations = vec![];
                sqlparser::ast::visit_relations(&ast, |r| { relations.push(r.0.iter().map(|i| json!({"value": i.value, "quoted": i.quote_style.is_some()})).collect::<Vec<Value>>()); core::ops::ControlFlow::<()>::Continue(()) });
                let mut plugin = TableAccess { enabled: true, tables: &tables };
                let qr = QueryRouter::new();
                let rt = tokio::runtime::Builder::new_current_thread().enable_all().build().unwrap();
                let out = rt.block_on(plugin.run(&qr, &ast));
                let verdict = match out { Ok(PluginOutput::Allow) => "allow".to_string(), Ok(PluginOutput::Deny(m)) => format!("deny: {}", m), Ok(_) => "other".to_string(), Err(e) => format!("err: {:?}", e) };
                Some(json!({"verdict": verdict, "relations": relations}))
            }
            _ => None,
        }
    }
}
