
// ---- appended by /verif/native/oracle.py (scratch copy only) ----
#[cfg(test)]
pub(crate) mod verif_probe {
    use super::*;
    use serde_json::{json, Value};
    pub(crate) fn handle(op: &str, v: &Value) -> Option<Value> {
        match op {
            "shard" => {
                let shards = v["shards"].as_str().unwrap().parse::<usize>().unwrap();
                let key = v["key"].as_str().unwrap().parse::<i64>().unwrap();
                let f = if v["func"].as_str() == Some("sha1") { ShardingFunction::Sha1 } else { ShardingFunction::PgBigintHash };
                let s = Sharder::new(shards, f);
                Some(json!({"shard": s.shard(key).to_string()}))
            }
            _ => None,
        }
    }
}
