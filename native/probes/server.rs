
// ---- appended by /verif/native/oracle.py (scratch copy only) ----
#[cfg(test)]
pub(crate) mod verif_probe {
    #[allow(unused_imports)]
    use super::*;
    use serde_json::{json, Value};
    use std::io::{Read, Write as IoWrite};

    fn unhex(s: &str) -> Vec<u8> {
        (0..s.len() / 2).map(|i| u8::from_str_radix(&s[2 * i..2 * i + 2], 16).unwrap()).collect()
    }
    fn hex(b: &[u8]) -> String { b.iter().map(|x| format!("{:02x}", x)).collect() }

    /// (cleanup switch, statement cache capacity) of a connection -- for the probes of other modules
    pub(crate) fn conn_settings(s: &Server) -> (bool, usize) {
        (s.cleanup_connections, s.prepared_statement_cache.as_ref().map(|c| c.cap().get()).unwrap_or(0))
    }

    fn params_from(v: &Value) -> ServerParameters {
        let mut sp = ServerParameters::new();
        if let Some(o) = v.as_object() {
            for (k, val) in o { sp.parameters.insert(k.clone(), val.as_str().unwrap().to_string()); }
        }
        sp
    }

    fn params_json(sp: &ServerParameters) -> Value {
        let mut m = serde_json::Map::new();
        let mut keys: Vec<&String> = sp.parameters.keys().collect();
        keys.sort();
        for k in keys { m.insert(k.clone(), json!(sp.parameters[k])); }
        Value::Object(m)
    }

    pub(crate) fn run_script(v: &Value) -> Value {
        let inbound = unhex(v["inbound_hex"].as_str().unwrap_or(""));
        let listener = std::net::TcpListener::bind("127.0.0.1:0").unwrap();
        let port = listener.local_addr().unwrap().port();
        let peer = std::thread::spawn(move || {
            let (mut s, _) = listener.accept().unwrap();
            s.write_all(&inbound).unwrap();
            s.flush().unwrap();
            let _ = s.shutdown(std::net::Shutdown::Write);
            let mut got = Vec::new();
            let _ = s.read_to_end(&mut got);
            got
        });
        let rt = tokio::runtime::Builder::new_current_thread().enable_all().build().unwrap();
        let result = rt.block_on(async move {
            let stream = TcpStream::connect(("127.0.0.1", port)).await.unwrap();
            let pre = &v["pre"];
            let b = |k: &str| pre.get(k).and_then(|x| x.as_bool()).unwrap_or(false);
            let csmap: ClientServerMap = Arc::new(Mutex::new(HashMap::new()));
            let mut cache = None;
            if let Some(c) = pre.get("ps_cache").filter(|c| !c.is_null()) {
                let mut l = LruCache::new(std::num::NonZeroUsize::new(c["cap"].as_u64().unwrap() as usize).unwrap());
                for n in c["names"].as_array().unwrap() { l.push(n.as_str().unwrap().to_string(), ()); }
                cache = Some(l);
            }
            let mut reg = VecDeque::new();
            if let Some(r) = pre.get("registering").and_then(|x| x.as_array()) { for n in r { reg.push_back(n.as_str().unwrap().to_string()); } }
            let mut mirror_rx = Vec::new();
            let mut mirror_manager = None;
            if let Some(ms) = pre.get("mirrors").and_then(|x| x.as_array()) {
                let mut byte_senders = vec![];
                let mut exit_senders = vec![];
                for m in ms {
                    let (btx, brx) = tokio::sync::mpsc::channel::<bytes::Bytes>(10);
                    let (etx, erx) = tokio::sync::mpsc::channel::<()>(1);
                    let fill = m.get("prefilled").and_then(|x| x.as_u64()).unwrap_or(0);
                    for _ in 0..fill { let _ = btx.try_send(bytes::Bytes::from_static(b"fill")); }
                    let closed = m.get("closed").and_then(|x| x.as_bool()).unwrap_or(false);
                    if closed { drop(brx); mirror_rx.push(None); } else { mirror_rx.push(Some(brx)); }
                    byte_senders.push(btx);
                    exit_senders.push(etx);
                    std::mem::forget(erx);
                }
                mirror_manager = Some(crate::mirrors::MirroringManager { byte_senders, disconnect_senders: exit_senders });
            }
            let mut server = Server {
                address: Address::default(),
                stream: BufStream::new(StreamInner::Plain { stream }),
                buffer: BytesMut::from(&unhex(pre.get("buffer_hex").and_then(|x| x.as_str()).unwrap_or(""))[..]),
                server_parameters: params_from(&pre["server_params"]),
                process_id: pre.get("process_id").and_then(|x| x.as_i64()).unwrap_or(1111) as i32,
                secret_key: pre.get("secret_key").and_then(|x| x.as_i64()).unwrap_or(2222) as i32,
                in_transaction: b("in_transaction"),
                data_available: b("data_available"),
                in_copy_mode: b("in_copy_mode"),
                bad: b("bad"),
                cleanup_state: CleanupState { needs_cleanup_set: b("needs_cleanup_set"), needs_cleanup_prepare: b("needs_cleanup_prepare") },
                client_server_map: csmap.clone(),
                connected_at: chrono::offset::Utc::now().naive_utc(),
                stats: Arc::new(ServerStats::default()),
                application_name: "app".to_string(),
                last_activity: SystemTime::now(),
                mirror_manager,
                addr_set: None,
                cleanup_connections: pre.get("cleanup_connections").and_then(|x| x.as_bool()).unwrap_or(true),
                log_client_parameter_status_changes: false,
                prepared_statement_cache: cache,
                registering_prepared_statement: reg,
                /*VERIF_EXTRA_SERVER_FIELDS*/
            };
            // (code that spells out the representation of the cancel map is compiled out in the minimal probe build, which is used
            // when the tree under test changed that representation)
            #[cfg(not(verif_probe_minimal))]
            if let Some(entries) = pre.get("client_map").and_then(|x| x.as_array()) {
                let mut g = csmap.lock();
                for e in entries {
                    g.insert((e[0].as_i64().unwrap() as i32, e[1].as_i64().unwrap() as i32),
                             (e[2].as_i64().unwrap() as i32, e[3].as_i64().unwrap() as i32, e[4].as_str().unwrap().to_string(), e[5].as_u64().unwrap() as u16));
                }
            }
            let mut client_params = params_from(&v["client_params"]);
            let mut out = vec![];
            for step in v["steps"].as_array().unwrap() {
                let what = step["do"].as_str().unwrap();
                let r = match what {
                    "recv" => {
                        let use_client = step.get("with_client_params").and_then(|x| x.as_bool()).unwrap_or(false);
                        let r = if use_client { server.recv(Some(&mut client_params)).await } else { server.recv(None).await };
                        match r { Ok(bytes) => json!({"ok": hex(&bytes)}), Err(e) => json!({"err": format!("{:?}", e)}) }
                    }
                    "recv_loop" => {
                        let mut all = vec![];
                        let mut res = json!(null);
                        let mut n = 0;
                        loop {
                            match server.recv(None).await {
                                Ok(bytes) => { all.extend_from_slice(&bytes); }
                                Err(e) => { res = json!(format!("{:?}", e)); break; }
                            }
                            n += 1;
                            if !server.is_data_available() || n > 64 { break; }
                        }
                        json!({"relayed": hex(&all), "err": res, "calls": n})
                    }
                    "send" => match tokio::time::timeout(std::time::Duration::from_secs(2), server.send(&BytesMut::from(&unhex(step["hex"].as_str().unwrap())[..]))).await {
                        Ok(Ok(())) => json!({"ok": true}), Ok(Err(e)) => json!({"err": format!("{:?}", e)}),
                        Err(_) => json!({"blocked": true}) },
                    "query" => match server.query(step["sql"].as_str().unwrap()).await {
                        Ok(()) => json!({"ok": true}), Err(e) => json!({"err": format!("{:?}", e)}) },
                    "checkin_cleanup" => match server.checkin_cleanup().await {
                        Ok(()) => json!({"ok": true}), Err(e) => json!({"err": format!("{:?}", e)}) },
                    "sync_parameters" => match server.sync_parameters(&params_from(&step["params"])).await {
                        Ok(()) => json!({"ok": true}), Err(e) => json!({"err": format!("{:?}", e)}) },
                    "register_ps" => {
                        let parse = Parse::try_from(&BytesMut::from(&unhex(step["parse_hex"].as_str().unwrap())[..])).unwrap();
                        match server.register_prepared_statement(&parse, step["send"].as_bool().unwrap_or(true)).await {
                            Ok(()) => json!({"ok": true}), Err(e) => json!({"err": format!("{:?}", e)}) }
                    }
                    "has_ps" => json!({"has": server.has_prepared_statement(step["name"].as_str().unwrap())}),
                    "claim" => { server.claim(step["pid"].as_i64().unwrap() as i32, step["key"].as_i64().unwrap() as i32); json!({"ok": true}) }
                    #[cfg(not(verif_probe_minimal))]
                    "map_put" => {
                        // another server (pid2, key2, host, port) claims itself for client (pid, key): what Server::claim on THAT server does
                        csmap.lock().insert((step["pid"].as_i64().unwrap() as i32, step["key"].as_i64().unwrap() as i32),
                            (step["spid"].as_i64().unwrap() as i32, step["skey"].as_i64().unwrap() as i32, step["host"].as_str().unwrap_or("127.0.0.1").to_string(), step["port"].as_u64().unwrap_or(5432) as u16));
                        json!({"ok": true})
                    }
                    "mark_dirty" => { server.mark_dirty(); json!({"ok": true}) }
                    "is_bad" => json!({"bad": server.bad}),
                    _ => json!({"error": "unknown step"}),
                };
                out.push(r);
            }
            let mut mirrors_got = vec![];
            for rx in mirror_rx.iter_mut() {
                let mut msgs = vec![];
                if let Some(rx) = rx { while let Ok(m) = rx.try_recv() { msgs.push(hex(&m)); } }
                mirrors_got.push(msgs);
            }
            let cache_names: Value = match &server.prepared_statement_cache {
                Some(c) => json!(c.iter().map(|(k, _)| k.clone()).collect::<Vec<String>>()),   // most-recent first
                None => Value::Null,
            };
            #[cfg(not(verif_probe_minimal))]
            let mut cmap: Vec<Value> = csmap.lock().iter().map(|(k, val)| json!([k.0, k.1, val.0, val.1, val.2, val.3])).collect();
            #[cfg(verif_probe_minimal)]
            let mut cmap: Vec<Value> = vec![];
            cmap.sort_by_key(|x| x.to_string());
            let fin = json!({
                "in_transaction": server.in_transaction, "data_available": server.data_available, "in_copy_mode": server.in_copy_mode,
                "bad": server.bad, "needs_cleanup_set": server.cleanup_state.needs_cleanup_set,
                "needs_cleanup_prepare": server.cleanup_state.needs_cleanup_prepare, "buffer_hex": hex(&server.buffer),
                "ps_cache": cache_names, "registering": server.registering_prepared_statement.iter().cloned().collect::<Vec<String>>(),
                "server_params": params_json(&server.server_parameters), "client_params": params_json(&client_params),
                "client_map": cmap, "mirrors": mirrors_got,
            });
            // suppress the Terminate that Drop writes: forget the server but close the socket
            server.bad = true;
            drop(server);
            json!({"steps": out, "final": fin})
        });
        let written = peer.join().unwrap();
        let mut res = result;
        // Drop for Server appends a Terminate ('X', len 4): strip it
        let mut w = written;
        if w.len() >= 5 && &w[w.len() - 5..] == b"X\x00\x00\x00\x04" { w.truncate(w.len() - 5); }
        res["written_hex"] = json!(hex(&w));
        res
    }

    /// Servers claim themselves for clients (Server::claim), then a CancelRequest (Client::cancel + Client::handle) is looked up:
    /// which listeners receive which (pid, key)?  Nothing here depends on how the cancel map represents its keys.
    pub(crate) fn cancel_roundtrip(v: &Value) -> Value {
        let rt = tokio::runtime::Builder::new_multi_thread().worker_threads(2).enable_all().build().unwrap();
        let v = v.clone();
        rt.block_on(async move {
            let csmap: ClientServerMap = Arc::new(Mutex::new(HashMap::new()));
            let mut acceptors = vec![];
            let mut servers = vec![];
            for (i, c) in v["claims"].as_array().unwrap().iter().enumerate() {
                let l = tokio::net::TcpListener::bind("127.0.0.1:0").await.unwrap();
                let port = l.local_addr().unwrap().port();
                // a socket for the Server object itself (never used)
                let dummy = std::net::TcpListener::bind("127.0.0.1:0").unwrap();
                let stream = TcpStream::connect(("127.0.0.1", dummy.local_addr().unwrap().port())).await.unwrap();
                let mut server = Server {
                    address: Address { host: "127.0.0.1".to_string(), port, ..Address::default() },
                    stream: BufStream::new(StreamInner::Plain { stream }),
                    buffer: BytesMut::new(), server_parameters: ServerParameters::new(),
                    process_id: 5000 + i as i32, secret_key: 6000 + i as i32,
                    in_transaction: false, data_available: false, in_copy_mode: false, bad: true,
                    cleanup_state: CleanupState { needs_cleanup_set: false, needs_cleanup_prepare: false },
                    client_server_map: csmap.clone(), connected_at: chrono::offset::Utc::now().naive_utc(),
                    stats: Arc::new(ServerStats::default()), application_name: "app".to_string(), last_activity: SystemTime::now(),
                    mirror_manager: None, addr_set: None, cleanup_connections: true, log_client_parameter_status_changes: false,
                    prepared_statement_cache: None, registering_prepared_statement: VecDeque::new(),
                    /*VERIF_EXTRA_SERVER_FIELDS*/
                };
                server.claim(c[0].as_i64().unwrap() as i32, c[1].as_i64().unwrap() as i32);
                servers.push((server, dummy));
                acceptors.push(tokio::spawn(async move {
                    let mut got = vec![];
                    loop {
                        match tokio::time::timeout(std::time::Duration::from_millis(400), l.accept()).await {
                            Ok(Ok((mut s, _))) => {
                                let mut buf = [0u8; 16];
                                if tokio::io::AsyncReadExt::read_exact(&mut s, &mut buf).await.is_ok() {
                                    got.push(json!([i32::from_be_bytes([buf[8], buf[9], buf[10], buf[11]]), i32::from_be_bytes([buf[12], buf[13], buf[14], buf[15]])]));
                                }
                            }
                            _ => break,
                        }
                    }
                    got
                }));
            }
            let (tx, rx) = tokio::sync::broadcast::channel::<()>(1);
            let (_client_end, pgcat_end) = tokio::io::duplex(4096);
            let (read, write) = tokio::io::split(pgcat_end);
            let mut bytes = BytesMut::new();
            bytes.put_i32(v["request"][0].as_i64().unwrap() as i32);
            bytes.put_i32(v["request"][1].as_i64().unwrap() as i32);
            let mut client = crate::client::Client::cancel(read, write, "127.0.0.1:1".parse().unwrap(), bytes, csmap.clone(), rx).await.unwrap();
            let _keep = tx;
            let r = client.handle().await;
            let mut cancels = vec![];
            for a in acceptors { cancels.extend(a.await.unwrap()); }
            json!({"result": format!("{:?}", r), "cancels": cancels})
        })
    }

    /// A Server whose statistics entry is registered is dropped, healthy or marked bad: is it still listed?
    pub(crate) fn server_drop_stats() -> Value {
        let rt = tokio::runtime::Builder::new_multi_thread().worker_threads(2).enable_all().build().unwrap();
        rt.block_on(async move {
            let csmap: ClientServerMap = Arc::new(Mutex::new(HashMap::new()));
            let mut listed_before = true;
            let mut after = vec![];
            for bad in [false, true] {
                let dummy = std::net::TcpListener::bind("127.0.0.1:0").unwrap();
                let stream = TcpStream::connect(("127.0.0.1", dummy.local_addr().unwrap().port())).await.unwrap();
                let address = Address { host: "127.0.0.1".to_string(), port: 1, pool_name: "dropstats".to_string(), ..Address::default() };
                let stats = Arc::new(ServerStats::new(address.clone(), tokio::time::Instant::now()));
                stats.register(stats.clone());
                let id = stats.server_id();
                let server = Server {
                    address,
                    stream: BufStream::new(StreamInner::Plain { stream }),
                    buffer: BytesMut::new(), server_parameters: ServerParameters::new(),
                    process_id: 1, secret_key: 2,
                    in_transaction: false, data_available: false, in_copy_mode: false, bad,
                    cleanup_state: CleanupState { needs_cleanup_set: false, needs_cleanup_prepare: false },
                    client_server_map: csmap.clone(), connected_at: chrono::offset::Utc::now().naive_utc(),
                    stats: stats.clone(), application_name: "app".to_string(), last_activity: SystemTime::now(),
                    mirror_manager: None, addr_set: None, cleanup_connections: true, log_client_parameter_status_changes: false,
                    prepared_statement_cache: None, registering_prepared_statement: VecDeque::new(),
                    /*VERIF_EXTRA_SERVER_FIELDS*/
                };
                listed_before = listed_before && crate::stats::get_server_stats().contains_key(&id);
                drop(server);
                after.push(crate::stats::get_server_stats().contains_key(&id));
                if after[after.len() - 1] { stats.disconnect(); }
            }
            json!({"listed_before": listed_before, "listed_after_good": after[0], "listed_after_bad": after[1]})
        })
    }

    pub(crate) fn handle(op: &str, v: &Value) -> Option<Value> {
        match op {
            "server_drop_stats" => Some(server_drop_stats()),
            "server_script" => Some(run_script(v)),
            "cancel_roundtrip" => Some(cancel_roundtrip(v)),
            _ => None,
        }
    }
}
