
// ---- appended by /verif/native/oracle.py (scratch copy only; never in /repo) ----
#[cfg(test)]
mod verif_oracle {
    use serde_json::{json, Value};
    use std::io::{BufRead, Write};

    fn dispatch(op: &str, v: &Value) -> Value {
        if let Some(r) = crate::sharding::verif_probe::handle(op, v) { return r; }
        if let Some(r) = crate::query_router::verif_probe::handle(op, v) { return r; }
        if let Some(r) = crate::messages::verif_probe::handle(op, v) { return r; }
        if let Some(r) = crate::config::verif_probe::handle(op, v) { return r; }
        if let Some(r) = crate::server::verif_probe::handle(op, v) { return r; }
        if let Some(r) = crate::pool::verif_probe::handle(op, v) { return r; }
        if let Some(r) = crate::client::verif_probe::handle(op, v) { return r; }
        if let Some(r) = crate::plugins::table_access::verif_probe::handle(op, v) { return r; }
        json!({"error": format!("unknown op {}", op)})
    }

    #[test]
    fn verif_oracle_main() {
        let inp = match std::env::var("VERIF_ORACLE_IN") { Ok(p) => p, Err(_) => return };
        let outp = std::env::var("VERIF_ORACLE_OUT").expect("VERIF_ORACLE_OUT");
        std::panic::set_hook(Box::new(|_| {}));
        let f = std::io::BufReader::new(std::fs::File::open(inp).unwrap());
        let mut out = std::fs::File::create(outp).unwrap();
        for line in f.lines() {
            let line = line.unwrap();
            if line.trim().is_empty() { continue; }
            let v: Value = serde_json::from_str(&line).unwrap();
            let op = v["op"].as_str().unwrap_or("").to_string();
            let r = std::panic::catch_unwind(std::panic::AssertUnwindSafe(|| dispatch(&op, &v)));
            let res = match r {
                Ok(x) => x,
                Err(e) => {
                    let msg = if let Some(s) = e.downcast_ref::<String>() { s.clone() }
                              else if let Some(s) = e.downcast_ref::<&str>() { s.to_string() }
                              else { "panic".to_string() };
                    json!({"panic": msg})
                }
            };
            writeln!(out, "{}", res).unwrap();
        }
    }
}
