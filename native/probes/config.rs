
// ---- appended by /verif/native/oracle.py (scratch copy only) ----
#[cfg(test)]
pub(crate) mod verif_probe {
    #[allow(unused_imports)]
    use super::*;
    use serde_json::Value;
    pub(crate) fn handle(_op: &str, _v: &Value) -> Option<Value> {
        None
    }
}
