
// ---- appended by /verif/native/oracle.py (scratch copy only) ----
#[cfg(test)]
pub(crate) mod verif_probe {
    use super::*;
    use serde_json::{json, Value};

    fn role(s: &str) -> Role { match s { "primary" => Role::Primary, "replica" => Role::Replica, _ => Role::Mirror } }

    pub(crate) fn build_pool(v: &Value) -> Pool {
        let mut p = Pool::default();
        p.shards.clear();
        p.users.clear();
        if let Some(x) = v.get("default_role").and_then(|x| x.as_str()) { p.default_role = x.to_string(); }
        if let Some(x) = v.get("query_parser_enabled").and_then(|x| x.as_bool()) { p.query_parser_enabled = x; }
        if let Some(x) = v.get("query_parser_read_write_splitting").and_then(|x| x.as_bool()) { p.query_parser_read_write_splitting = x; }
        if v.get("plugins").and_then(|x| x.as_bool()) == Some(true) { p.plugins = Some(Plugins::default()); }
        if let Some(x) = v.get("automatic_sharding_key").and_then(|x| x.as_str()) { p.automatic_sharding_key = Some(x.to_string()); }
        if let Some(x) = v.get("sharding_key_regex").and_then(|x| x.as_str()) { p.sharding_key_regex = Some(x.to_string()); }
        if let Some(x) = v.get("shard_id_regex").and_then(|x| x.as_str()) { p.shard_id_regex = Some(x.to_string()); }
        if let Some(x) = v.get("default_shard").and_then(|x| x.as_str()) {
            p.default_shard = match x {
                "random" => DefaultShard::Random,
                "random_healthy" => DefaultShard::RandomHealthy,
                s => DefaultShard::Shard(s.trim_start_matches("shard_").parse::<usize>().unwrap()),
            };
        }
        if let Some(x) = v.get("db_activity_based_routing").and_then(|x| x.as_bool()) { p.db_activity_based_routing = x; }
        if let Some(x) = v.get("db_activity_init_delay").and_then(|x| x.as_u64()) { p.db_activity_init_delay = x; }
        if let Some(x) = v.get("db_activity_ttl").and_then(|x| x.as_u64()) { p.db_activity_ttl = x; }
        if let Some(x) = v.get("table_mutation_cache_ms_ttl").and_then(|x| x.as_u64()) { p.table_mutation_cache_ms_ttl = x; }
        if let Some(sh) = v.get("shards").and_then(|x| x.as_array()) {
            for s in sh {
                let id = s["id"].as_str().unwrap().to_string();
                let mut shard = Shard { database: "db".to_string(), mirrors: None, servers: vec![] };
                for srv in s["servers"].as_array().unwrap() {
                    shard.servers.push(ServerConfig { host: srv[0].as_str().unwrap().to_string(), port: srv[1].as_u64().unwrap() as u16, role: role(srv[2].as_str().unwrap()) });
                }
                p.shards.insert(id, shard);
            }
        }
        if let Some(us) = v.get("users").and_then(|x| x.as_array()) {
            for (i, u) in us.iter().enumerate() {
                let mut user = User::default();
                user.password = u.get("password").and_then(|x| x.as_str()).map(|x| x.to_string());
                user.pool_size = u["pool_size"].as_u64().unwrap() as u32;
                user.min_pool_size = u.get("min_pool_size").and_then(|x| x.as_u64()).map(|x| x as u32);
                p.users.insert(i.to_string(), user);
            }
        }
        p
    }

    pub(crate) fn set_config(cfg: Config) {
        CONFIG.store(Arc::new(cfg));
    }

    pub(crate) fn handle(op: &str, v: &Value) -> Option<Value> {
        match op {
            "pool_validate" => {
                let mut p = build_pool(&v["pool"]);
                Some(json!({"ok": p.validate().is_ok()}))
            }
            "shard_validate" => {
                let p = build_pool(&json!({"shards": [v["shard"].clone()]}));
                let s = p.shards.values().next().unwrap();
                Some(json!({"ok": s.validate().is_ok()}))
            }
            "reload_invalid" => {
                // parse a good file, then make it unreadable / syntactically / semantically invalid and reload
                let kind = v["kind"].as_str().unwrap_or("toml").to_string();
                let rt = tokio::runtime::Builder::new_current_thread().enable_all().build().unwrap();
                Some(rt.block_on(async move {
                    let good = std::fs::read_to_string(concat!(env!("CARGO_MANIFEST_DIR"), "/pgcat.toml")).unwrap();
                    let dir = std::env::temp_dir().join(format!("verif_cfg_{}", std::time::SystemTime::now().duration_since(std::time::UNIX_EPOCH).unwrap().as_nanos()));
                    std::fs::create_dir_all(&dir).unwrap();
                    let path = dir.join("pgcat.toml");
                    std::fs::write(&path, &good).unwrap();
                    if parse(path.to_str().unwrap()).await.is_err() { return json!({"error": "baseline config does not parse"}); }
                    let before = get_config();
                    match kind.as_str() {
                        "open" | "read" => { std::fs::remove_file(&path).unwrap(); }
                        "toml" => { std::fs::write(&path, "this is [not toml").unwrap(); }
                        "validate" => { std::fs::write(&path, good.replace("default_role = \"any\"", "default_role = \"nobody\"")).unwrap(); }
                        _ => {}
                    }
                    let map: crate::pool::ClientServerMap = Arc::new(parking_lot::Mutex::new(std::collections::HashMap::new()));
                    let r = reload_config(map).await;
                    let after = get_config();
                    let _ = std::fs::remove_dir_all(&dir);
                    json!({"result": if r.is_ok() { "ok" } else { "err" }, "config_changed": before != after, "kind": kind})
                }))
            }
            "admin_reload" => {
                // the admin console's RELOAD on an unchanged file and on an invalid one: what is the admin client told?
                let rt = tokio::runtime::Builder::new_current_thread().enable_all().build().unwrap();
                Some(rt.block_on(async move {
                    let good = std::fs::read_to_string(concat!(env!("CARGO_MANIFEST_DIR"), "/pgcat.toml")).unwrap().replace("validate_config = true", "validate_config = false");
                    let dir = std::env::temp_dir().join(format!("verif_admin_reload_{}", std::time::SystemTime::now().duration_since(std::time::UNIX_EPOCH).unwrap().as_nanos()));
                    std::fs::create_dir_all(&dir).unwrap();
                    let path = dir.join("pgcat.toml");
                    std::fs::write(&path, &good).unwrap();
                    if parse(path.to_str().unwrap()).await.is_err() { return json!({"error": "baseline config does not parse"}); }
                    let map: crate::pool::ClientServerMap = Arc::new(parking_lot::Mutex::new(std::collections::HashMap::new()));
                    let mut out = vec![];
                    for kind in ["same", "invalid"] {
                        if kind == "invalid" { std::fs::write(&path, "this is [not toml").unwrap(); }
                        let mut reply: Vec<u8> = vec![];
                        let r = crate::admin::handle_admin(&mut reply, crate::messages::simple_query("RELOAD"), map.clone()).await;
                        let says_reload = reply.windows(7).any(|w| w == b"RELOAD\0");
                        out.push(json!({"kind": kind, "ok": r.is_ok(), "says_reload": says_reload}));
                    }
                    let _ = std::fs::remove_dir_all(&dir);
                    json!({"runs": out})
                }))
            }
            "auth_query_config" => {
                // a one-pool configuration whose auth_query triple is partly set, every user with a password: validated, then the pass-through is built
                let mut cfg = Config::default();
                cfg.general.validate_config = false;
                let mut pool = Pool::default();
                let mut u = User::default(); u.username = "u".to_string(); u.password = Some("p".to_string());
                pool.users.clear(); pool.users.insert("0".to_string(), u);
                pool.shards.clear();
                pool.shards.insert("0".to_string(), Shard { database: "db".to_string(), mirrors: None,
                    servers: vec![ServerConfig { host: "127.0.0.1".to_string(), port: 5432, role: Role::Primary }] });
                if v["present"]["auth_query"].as_bool() == Some(true) { pool.auth_query = Some("SELECT 1".to_string()); }
                if v["present"]["auth_query_user"].as_bool() == Some(true) { pool.auth_query_user = Some("lookup".to_string()); }
                if v["present"]["auth_query_password"].as_bool() == Some(true) { pool.auth_query_password = Some("lookup".to_string()); }
                cfg.pools.clear();
                cfg.pools.insert("db".to_string(), pool.clone());
                let accepted = cfg.validate().is_ok();
                let built = std::panic::catch_unwind(std::panic::AssertUnwindSafe(|| crate::auth_passthrough::AuthPassthrough::from_pool_config(&pool).is_some()));
                Some(json!({"accepted": accepted, "build_panics": match built { Ok(_) => Value::Null, Err(e) => json!(e.downcast_ref::<String>().cloned().or_else(|| e.downcast_ref::<&str>().map(|s| s.to_string())).unwrap_or("panic".to_string())) }}))
            }
            "reload_diff" => {
                // startup with pools {a, b}; then the file is rewritten (scenario) and reload_config runs: are the pools that are in force
                // afterwards the ones of the new file?
                let scenario = v["scenario"].as_str().unwrap_or("added").to_string();
                let rt = tokio::runtime::Builder::new_current_thread().enable_all().build().unwrap();
                Some(rt.block_on(async move {
                    let tag = std::time::SystemTime::now().duration_since(std::time::UNIX_EPOCH).unwrap().as_nanos();
                    let general = |ban: i64| format!("[general]\nhost = \"127.0.0.1\"\nport = 6433\nadmin_username = \"admin\"\nadmin_password = \"admin\"\nvalidate_config = false\nban_time = {}\n", ban);
                    let section = |name: &str, port: u16| format!("\n[pools.{n}.users.0]\nusername = \"app\"\npassword = \"app\"\npool_size = 5\n\n[pools.{n}.shards.0]\nservers = [[\"127.0.0.1\", {p}, \"primary\"]]\ndatabase = \"db\"\n", n = name, p = port);
                    let (a, b, c) = (format!("va_{}", tag), format!("vb_{}", tag), format!("vc_{}", tag));
                    let dir = std::env::temp_dir().join(format!("verif_reload_{}", tag));
                    std::fs::create_dir_all(&dir).unwrap();
                    let path = dir.join("pgcat.toml");
                    std::fs::write(&path, format!("{}{}{}", general(60), section(&a, 5432), section(&b, 5432))).unwrap();
                    if parse(path.to_str().unwrap()).await.is_err() { return json!({"error": "baseline config does not parse"}); }
                    let map: crate::pool::ClientServerMap = Arc::new(parking_lot::Mutex::new(std::collections::HashMap::new()));
                    if crate::pool::ConnectionPool::from_config(map.clone()).await.is_err() { return json!({"error": "first from_config failed"}); }
                    let new_text = match scenario.as_str() {
                        "same" => format!("{}{}{}", general(60), section(&a, 5432), section(&b, 5432)),
                        "changed" => format!("{}{}{}", general(60), section(&a, 6543), section(&b, 5432)),
                        "removed" => format!("{}{}", general(60), section(&a, 5432)),
                        "general" => format!("{}{}{}", general(61), section(&a, 5432), section(&b, 5432)),
                        _ => format!("{}{}{}{}", general(60), section(&a, 5432), section(&b, 5432), section(&c, 5433)),
                    };
                    std::fs::write(&path, new_text).unwrap();
                    let r = reload_config(map).await;
                    let _ = std::fs::remove_dir_all(&dir);
                    let port_of = |n: &str| crate::pool::get_pool(n, "app").map(|p| p.address(0, 0).port);
                    let (pa, pb, pc) = (port_of(&a), port_of(&b), port_of(&c));
                    let want = match scenario.as_str() {
                        "changed" => (Some(6543), Some(5432), None), "removed" => (Some(5432), None, None),
                        "same" | "general" => (Some(5432), Some(5432), None), _ => (Some(5432), Some(5432), Some(5433)) };
                    json!({"scenario": scenario, "result": format!("{:?}", r), "pools_in_force": [pa, pb, pc], "as_in_new_file": (pa, pb, pc) == want})
                }))
            }
            "pool_default_validate" => {
                let mut p = Pool::default();
                Some(json!({"ok": p.validate().is_ok(), "shard_ids": p.shards.keys().cloned().collect::<Vec<String>>()}))
            }
            _ => None,
        }
    }
}
