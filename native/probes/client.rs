
// ---- appended by /verif/native/oracle.py (scratch copy only) ----
#[cfg(test)]
pub(crate) mod verif_probe {
    #[allow(unused_imports)]
    use super::*;
    use serde_json::{json, Value};
    use tokio::io::{duplex, split, AsyncReadExt};

    fn fill_map(map: &ClientServerMap, entries: &Value) {
        let mut g = map.lock();
        for e in entries.as_array().unwrap() {
            g.insert((e[0].as_i64().unwrap() as i32, e[1].as_i64().unwrap() as i32),
                     (e[2].as_i64().unwrap() as i32, e[3].as_i64().unwrap() as i32, e[4].as_str().unwrap().to_string(), e[5].as_u64().unwrap() as u16));
        }
    }

    fn dump_map(map: &ClientServerMap) -> Value {
        let mut v: Vec<Value> = map.lock().iter().map(|(k, val)| json!([k.0, k.1, val.0, val.1, val.2, val.3])).collect();
        v.sort_by_key(|x| x.to_string());
        json!(v)
    }

    async fn run(v: Value) -> Value {
        let map: ClientServerMap = Arc::new(parking_lot::Mutex::new(HashMap::new()));
        let which = v["which"].as_str().unwrap();
        // a listener standing for the server that would receive CancelRequest packets
        let listener = tokio::net::TcpListener::bind("127.0.0.1:0").await.unwrap();
        let port = listener.local_addr().unwrap().port();
        let mut entries = v["map"].clone();
        if which == "cancel" {
            for e in entries.as_array_mut().unwrap() { e[4] = json!("127.0.0.1"); e[5] = json!(port); }
        }
        fill_map(&map, &entries);
        let (tx, rx) = tokio::sync::broadcast::channel::<()>(1);
        let (_client_end, pgcat_end) = duplex(4096);
        let (read, write) = split(pgcat_end);
        let mut bytes = BytesMut::new();
        bytes.put_i32(v["pid"].as_i64().unwrap() as i32);
        bytes.put_i32(v["key"].as_i64().unwrap() as i32);
        let mut client = Client::cancel(read, write, "127.0.0.1:1".parse().unwrap(), bytes, map.clone(), rx).await.unwrap();
        let _keep = tx;
        let mut packets: Vec<Value> = vec![];
        match which {
            "release" => { client.cancel_mode = false; client.release(); }
            "drop" => {
                client.cancel_mode = false;
                client.transaction_mode = v.get("transaction_mode").and_then(|x| x.as_bool()).unwrap_or(true);
                client.connected_to_server = v.get("connected_to_server").and_then(|x| x.as_bool()).unwrap_or(false);
                drop(client);
            }
            "cancel" => {
                let acceptor = tokio::spawn(async move {
                    let mut got = vec![];
                    loop {
                        match tokio::time::timeout(std::time::Duration::from_millis(300), listener.accept()).await {
                            Ok(Ok((mut s, _))) => {
                                let mut buf = [0u8; 16];
                                if s.read_exact(&mut buf).await.is_ok() {
                                    got.push(json!([i32::from_be_bytes([buf[8], buf[9], buf[10], buf[11]]), i32::from_be_bytes([buf[12], buf[13], buf[14], buf[15]])]));
                                }
                            }
                            _ => break,
                        }
                    }
                    got
                });
                let r = client.handle().await;
                packets = acceptor.await.unwrap();
                return json!({"result": format!("{:?}", r), "cancels": packets, "map": dump_map(&map)});
            }
            _ => return json!({"error": "unknown op"}),
        }
        json!({"map": dump_map(&map), "cancels": packets})
    }

    pub(crate) fn handle(op: &str, v: &Value) -> Option<Value> {
        match op {
            "client_map_op" => {
                let rt = tokio::runtime::Builder::new_multi_thread().worker_threads(2).enable_all().build().unwrap();
                let vv = v.clone();
                Some(rt.block_on(async move { run(vv).await }))
            }
            _ => None,
        }
    }
}
