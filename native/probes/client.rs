
// ---- appended by /verif/native/oracle.py (scratch copy only) ----
#[cfg(test)]
pub(crate) mod verif_probe {
    #[allow(unused_imports)]
    use super::*;
    use serde_json::{json, Value};
    use tokio::io::{duplex, split, AsyncReadExt};

    // (the two functions below spell out the representation of the cancel map: compiled out in the minimal probe build)
    #[cfg(verif_probe_minimal)]
    fn fill_map(_map: &ClientServerMap, _entries: &Value) {}
    #[cfg(verif_probe_minimal)]
    fn dump_map(_map: &ClientServerMap) -> Value { json!([]) }

    #[cfg(not(verif_probe_minimal))]
    fn fill_map(map: &ClientServerMap, entries: &Value) {
        let mut g = map.lock();
        for e in entries.as_array().unwrap() {
            g.insert((e[0].as_i64().unwrap() as i32, e[1].as_i64().unwrap() as i32),
                     (e[2].as_i64().unwrap() as i32, e[3].as_i64().unwrap() as i32, e[4].as_str().unwrap().to_string(), e[5].as_u64().unwrap() as u16));
        }
    }

    #[cfg(not(verif_probe_minimal))]
    fn dump_map(map: &ClientServerMap) -> Value {
        let mut v: Vec<Value> = map.lock().iter().map(|(k, val)| json!([k.0, k.1, val.0, val.1, val.2, val.3])).collect();
        v.sort_by_key(|x| x.to_string());
        json!(v)
    }

    async fn run(v: Value) -> Value {
        let map: ClientServerMap = Arc::new(parking_lot::Mutex::new(HashMap::new()));
        let which = v["which"].as_str().unwrap();
        // a listener standing for the server that would receive CancelRequest packets
        let listener = tokio::net::TcpListener::bind("127.0.0.1:0").await.unwrap();
        let port = listener.local_addr().unwrap().port();
        let mut entries = v["map"].clone();
        if which == "cancel" {
            for e in entries.as_array_mut().unwrap() { e[4] = json!("127.0.0.1"); e[5] = json!(port); }
        }
        fill_map(&map, &entries);
        let (tx, rx) = tokio::sync::broadcast::channel::<()>(1);
        let (_client_end, pgcat_end) = duplex(4096);
        let (read, write) = split(pgcat_end);
        let mut bytes = BytesMut::new();
        bytes.put_i32(v["pid"].as_i64().unwrap() as i32);
        bytes.put_i32(v["key"].as_i64().unwrap() as i32);
        let mut client = Client::cancel(read, write, "127.0.0.1:1".parse().unwrap(), bytes, map.clone(), rx).await.unwrap();
        let _keep = tx;
        let mut packets: Vec<Value> = vec![];
        match which {
            "release" => { client.cancel_mode = false; client.release(); }
            "drop" => {
                client.cancel_mode = false;
                client.transaction_mode = v.get("transaction_mode").and_then(|x| x.as_bool()).unwrap_or(true);
                client.connected_to_server = v.get("connected_to_server").and_then(|x| x.as_bool()).unwrap_or(false);
                drop(client);
            }
            "cancel" => {
                let acceptor = tokio::spawn(async move {
                    let mut got = vec![];
                    loop {
                        match tokio::time::timeout(std::time::Duration::from_millis(300), listener.accept()).await {
                            Ok(Ok((mut s, _))) => {
                                let mut buf = [0u8; 16];
                                if s.read_exact(&mut buf).await.is_ok() {
                                    got.push(json!([i32::from_be_bytes([buf[8], buf[9], buf[10], buf[11]]), i32::from_be_bytes([buf[12], buf[13], buf[14], buf[15]])]));
                                }
                            }
                            _ => break,
                        }
                    }
                    got
                });
                let r = client.handle().await;
                packets = acceptor.await.unwrap();
                return json!({"result": format!("{:?}", r), "cancels": packets, "map": dump_map(&map)});
            }
            _ => return json!({"error": "unknown op"}),
        }
        json!({"map": dump_map(&map), "cancels": packets})
    }

    async fn login(v: Value) -> Value {
        use tokio::io::AsyncWriteExt;
        let user = v["user"].as_str().unwrap().to_string();
        let db = v["database"].as_str().map(|x| x.to_string());
        let kind = v["pool"].as_str().unwrap_or("none").to_string();
        let attack = v["attack"].as_str().unwrap_or("wrong").to_string();
        let resp_len = v["resp_len"].as_u64().unwrap_or(36) as usize;
        let admin_only = v["admin_only"].as_bool().unwrap_or(false);
        // configuration: admin credentials + optionally one pool
        let mut cfg = crate::config::Config::default();
        cfg.general.validate_config = false;
        cfg.general.admin_username = "admin".to_string();
        cfg.general.admin_password = "adminpw".to_string();
        let dbname = db.clone().unwrap_or(user.clone());
        // auth_query pools: no cleartext password; the secret is the MD5 hash a (fake) PostgreSQL hands out for the auth query
        let authq = kind.starts_with("authquery");
        let first_pass = { use md5::{Digest, Md5}; let mut h = Md5::new(); h.update(b"secret"); h.update(user.as_bytes()); format!("{:x}", h.finalize()) };
        let mut server_port: u16 = 1;
        if authq {
            use tokio::io::AsyncWriteExt;
            let l = tokio::net::TcpListener::bind("127.0.0.1:0").await.unwrap();
            server_port = l.local_addr().unwrap().port();
            let (u2, h2) = (user.clone(), first_pass.clone());
            tokio::spawn(async move {
                loop {
                    let (mut sock, _) = match l.accept().await { Ok(c) => c, Err(_) => return };
                    let (u3, h3) = (u2.clone(), h2.clone());
                    tokio::spawn(async move {
                        let len = match sock.read_i32().await { Ok(l) => l, Err(_) => return };
                        let mut startup = vec![0u8; len as usize - 4];
                        if sock.read_exact(&mut startup).await.is_err() { return; }
                        let mut out = BytesMut::new();
                        out.put_u8(b'R'); out.put_i32(8); out.put_i32(0);
                        out.put(crate::messages::server_parameter_message("server_version", "14.0"));
                        out.put_u8(b'K'); out.put_i32(12); out.put_i32(7); out.put_i32(1234);
                        out.put(crate::messages::ready_for_query(false));
                        if sock.write_all(&out).await.is_err() { return; }
                        loop {
                            let code = match sock.read_u8().await { Ok(c) => c, Err(_) => return };
                            let len = match sock.read_i32().await { Ok(l) => l, Err(_) => return };
                            let mut body = vec![0u8; (len as usize).saturating_sub(4)];
                            if sock.read_exact(&mut body).await.is_err() { return; }
                            if code == b'X' { return; }
                            if code != b'Q' { continue; }
                            let mut out = BytesMut::new();
                            out.put(crate::messages::row_description(&vec![("usename", crate::messages::DataType::Text), ("passwd", crate::messages::DataType::Text)]));
                            out.put(crate::messages::data_row(&vec![u3.clone(), format!("md5{}", h3)]));
                            out.put(crate::messages::command_complete("SELECT 1"));
                            out.put(crate::messages::ready_for_query(false));
                            if sock.write_all(&out).await.is_err() { return; }
                        }
                    });
                }
            });
        }
        if kind != "none" {
            let mut pool = crate::config::Pool::default();
            pool.shards.clear();
            pool.shards.insert("0".to_string(), crate::config::Shard { database: "x".to_string(), mirrors: None,
                servers: vec![crate::config::ServerConfig { host: "127.0.0.1".to_string(), port: server_port, role: crate::config::Role::Primary }] });
            if authq {
                pool.auth_query = Some("SELECT usename, passwd FROM pg_shadow WHERE usename='$1'".to_string());
                pool.auth_query_user = Some("lookup".to_string());
                pool.auth_query_password = Some("lookup".to_string());
            }
            let mut u = crate::config::User::default();
            u.username = user.clone();
            u.password = if authq { None } else { Some("secret".to_string()) };
            u.auth_type = if kind == "trust" { crate::config::AuthType::Trust } else { crate::config::AuthType::MD5 };
            pool.users.insert("0".to_string(), u);
            cfg.pools.insert(dbname.clone(), pool);
        }
        crate::config::verif_probe::set_config(cfg);
        let map: ClientServerMap = Arc::new(parking_lot::Mutex::new(HashMap::new()));
        if crate::pool::ConnectionPool::from_config(map.clone()).await.is_err() { return json!({"error": "from_config failed"}); }
        if let Some(p) = crate::pool::get_pool(&dbname, &user) {
            p.verif_mark_validated();
            // "authquery-fetch": the hash was not obtained when the pool was built (PostgreSQL unreachable then): it is fetched during the login
            if kind == "authquery-fetch" { *p.auth_hash.write() = None; }
        }
        let (mut client_end, pgcat_end) = duplex(1 << 16);
        let (read, write) = split(pgcat_end);
        let (tx, rx) = tokio::sync::broadcast::channel::<()>(1);
        let mut startup = BytesMut::new();
        startup.put_slice(b"user\0"); startup.put_slice(user.as_bytes()); startup.put_u8(0);
        if let Some(d) = &db { startup.put_slice(b"database\0"); startup.put_slice(d.as_bytes()); startup.put_u8(0); }
        startup.put_u8(0);
        let shutdown_during_challenge = v["shutdown_during_challenge"].as_bool().unwrap_or(false);
        let task = tokio::spawn(async move {
            Client::startup(read, write, "127.0.0.1:1".parse().unwrap(), startup, map, rx, admin_only).await
        });
        // read what the pooler says first
        let mut admitted_msg = false;
        let mut detail = String::new();
        let mut salt: Option<[u8; 4]> = None;
        let mut answered = false;
        loop {
            let code = match tokio::time::timeout(std::time::Duration::from_millis(1500), client_end.read_u8()).await { Ok(Ok(c)) => c, _ => break };
            let len = match client_end.read_i32().await { Ok(l) => l, Err(_) => break };
            let mut body = vec![0u8; (len as usize).saturating_sub(4)];
            if client_end.read_exact(&mut body).await.is_err() { break; }
            if code == b'R' && body.len() == 8 && body[3] == 5 {
                salt = Some([body[4], body[5], body[6], body[7]]);
                let s = salt.unwrap();
                // SIGINT arrives while this client's challenge is outstanding: main() sends the broadcast exactly once, now
                if shutdown_during_challenge { let _ = tx.send(()); tokio::time::sleep(std::time::Duration::from_millis(50)).await; }
                let correct = if db.as_deref() == Some("pgcat") || db.as_deref() == Some("pgbouncer") {
                    crate::messages::md5_hash_password("admin", "adminpw", &s)
                } else if authq { crate::messages::md5_hash_second_pass(&first_pass, &s)
                } else { crate::messages::md5_hash_password(&user, "secret", &s) };
                let payload: Vec<u8> = match attack.as_str() {
                    "correct" => correct,
                    "empty" => vec![],
                    "prefix" => correct[..std::cmp::min(resp_len, correct.len())].to_vec(),
                    "admin_pw_other_user" => crate::messages::md5_hash_password(&user, "adminpw", &s),
                    _ => { let mut w = correct.clone(); if w.len() > 5 { w[5] ^= 1; } w }
                };
                let mut m = BytesMut::new();
                m.put_u8(b'p'); m.put_i32(payload.len() as i32 + 4); m.put_slice(&payload);
                if client_end.write_all(&m).await.is_err() { break; }
                answered = true;
            } else if code == b'R' && body.len() == 4 && body == [0, 0, 0, 0] {
                admitted_msg = true;
            } else if code == b'E' {
                detail = String::from_utf8_lossy(&body).replace('\0', " ");
            } else if code == b'Z' { break; }
        }
        let res = tokio::time::timeout(std::time::Duration::from_secs(3), task).await;
        let ok = matches!(res, Ok(Ok(Ok(_))));
        let mut told_shutdown = false;
        if shutdown_during_challenge {
            if let Ok(Ok(Ok(mut client))) = res {
                // the admitted client now sits idle between transactions: it must be told (the broadcast was sent before it got here)
                let h = tokio::spawn(async move { let _ = client.handle().await; });
                loop {
                    let code = match tokio::time::timeout(std::time::Duration::from_millis(1200), client_end.read_u8()).await { Ok(Ok(c)) => c, _ => break };
                    let len = match client_end.read_i32().await { Ok(l) => l, Err(_) => break };
                    let mut body = vec![0u8; (len as usize).saturating_sub(4)];
                    if client_end.read_exact(&mut body).await.is_err() { break; }
                    if code == b'E' && String::from_utf8_lossy(&body).contains("administrator command") { told_shutdown = true; break; }
                }
                h.abort();
            }
        }
        let _keep = tx;
        json!({"admitted": ok && admitted_msg, "startup_ok": ok, "auth_ok_seen": admitted_msg, "challenged": salt.is_some(), "answered": answered, "detail": detail,
               "told_shutdown": told_shutdown})
    }

    pub(crate) fn handle(op: &str, v: &Value) -> Option<Value> {
        match op {
            "startup_login" => {
                let rt = tokio::runtime::Builder::new_multi_thread().worker_threads(2).enable_all().build().unwrap();
                let vv = v.clone();
                Some(rt.block_on(async move { login(vv).await }))
            }
            "show_lists" => {
                let rt = tokio::runtime::Builder::new_multi_thread().worker_threads(2).enable_all().build().unwrap();
                let v = v.clone();
                Some(rt.block_on(async move {
                    let mut cregs = vec![]; let mut sregs = vec![];
                    for (i, c) in v["clients"].as_array().unwrap().iter().enumerate() {
                        let s = Arc::new(crate::stats::ClientStats::new(777_000 + i as i32, "app", "u", "db", tokio::time::Instant::now()));
                        s.register(s.clone());
                        match c.as_str().unwrap() { "active" => s.active(), "waiting" => s.waiting(), _ => s.idle() }
                        cregs.push(s);
                    }
                    for c in v["servers"].as_array().unwrap() {
                        let s = Arc::new(crate::stats::ServerStats::new(crate::config::Address::default(), tokio::time::Instant::now()));
                        s.register(s.clone());
                        match c.as_str().unwrap() { "active" => s.active("app".to_string()), "tested" => s.tested(), "idle" => s.idle(), _ => s.login() }
                        sregs.push(s);
                    }
                    let map: ClientServerMap = Arc::new(parking_lot::Mutex::new(HashMap::new()));
                    let mut out: Vec<u8> = vec![];
                    let r = crate::admin::handle_admin(&mut out, crate::messages::simple_query("SHOW LISTS"), map).await;
                    for s in cregs.iter() { s.disconnect(); }
                    for s in sregs.iter() { s.disconnect(); }
                    if r.is_err() { return json!({"error": format!("handle_admin: {:?}", r)}); }
                    let mut lists = serde_json::Map::new(); let mut i = 0usize;
                    while i + 5 <= out.len() {
                        let ln = i32::from_be_bytes([out[i + 1], out[i + 2], out[i + 3], out[i + 4]]) as usize;
                        if out[i] == b'D' {
                            let body = &out[i + 5..i + 1 + ln];
                            let n = u16::from_be_bytes([body[0], body[1]]) as usize; let mut j = 2; let mut cols = vec![];
                            for _ in 0..n { let l = i32::from_be_bytes([body[j], body[j + 1], body[j + 2], body[j + 3]]) as usize; j += 4;
                                            cols.push(String::from_utf8_lossy(&body[j..j + l]).to_string()); j += l; }
                            if cols.len() == 2 { lists.insert(cols[0].clone(), json!(cols[1])); }
                        }
                        i += 1 + ln;
                    }
                    json!({"lists": lists, "want": v["want"]})
                }))
            }
            "show_servers" => {
                // server connections registered in the real registry with given states and counters; SHOW SERVERS through the real handle_admin
                let rt = tokio::runtime::Builder::new_multi_thread().worker_threads(2).enable_all().build().unwrap();
                let v = v.clone();
                Some(rt.block_on(async move {
                    use std::sync::atomic::Ordering::Relaxed;
                    let mut regs = vec![];
                    let mut ids = std::collections::HashMap::new();
                    for c in v["servers"].as_array().unwrap() {
                        let address = crate::config::Address { pool_name: c["pool"].as_str().unwrap().to_string(), username: c["user"].as_str().unwrap().to_string(),
                                                               role: crate::config::Role::Replica, ..crate::config::Address::default() };
                        let s = Arc::new(crate::stats::ServerStats::new(address, tokio::time::Instant::now()));
                        s.register(s.clone());
                        match c["state"].as_str().unwrap() { "active" => s.active(c["app"].as_str().unwrap().to_string()), "tested" => s.tested(), "idle" => s.idle(), _ => s.login() }
                        *s.application_name.write() = c["app"].as_str().unwrap().to_string();
                        let b = c["base"].as_u64().unwrap();
                        s.transaction_count.store(b, Relaxed); s.query_count.store(b + 1, Relaxed); s.bytes_sent.store(b + 2, Relaxed); s.bytes_received.store(b + 3, Relaxed);
                        s.prepared_hit_count.store(b + 4, Relaxed); s.prepared_miss_count.store(b + 5, Relaxed); s.prepared_eviction_count.store(b + 6, Relaxed); s.prepared_cache_size.store(b + 7, Relaxed);
                        ids.insert(format!("{:#010X}", s.server_id()), format!("{:#010X}", c["sid"].as_i64().unwrap() as i32));
                        regs.push(s);
                    }
                    let map: ClientServerMap = Arc::new(parking_lot::Mutex::new(HashMap::new()));
                    let mut out: Vec<u8> = vec![];
                    let r = crate::admin::handle_admin(&mut out, crate::messages::simple_query("SHOW SERVERS"), map).await;
                    for s in regs.iter() { s.disconnect(); }
                    if r.is_err() { return json!({"error": format!("handle_admin: {:?}", r)}); }
                    let mut rows = vec![]; let mut i = 0usize;
                    while i + 5 <= out.len() {
                        let ln = i32::from_be_bytes([out[i + 1], out[i + 2], out[i + 3], out[i + 4]]) as usize;
                        if out[i] == b'D' {
                            let body = &out[i + 5..i + 1 + ln];
                            let n = u16::from_be_bytes([body[0], body[1]]) as usize; let mut j = 2; let mut cols = vec![];
                            for _ in 0..n { let l = i32::from_be_bytes([body[j], body[j + 1], body[j + 2], body[j + 3]]) as usize; j += 4;
                                            cols.push(String::from_utf8_lossy(&body[j..j + l]).to_string()); j += l; }
                            // the server id is random: rows of OUR connections are renamed to the ids the check uses; columns as the check compares them
                            if let Some(alias) = ids.get(&cols[0]) {
                                let mut keep = vec![alias.clone()];
                                keep.extend_from_slice(&cols[1..3]); keep.extend_from_slice(&cols[4..10]); keep.extend_from_slice(&cols[11..15]);
                                rows.push(keep);
                            }
                        }
                        i += 1 + ln;
                    }
                    json!({"rows": rows, "want": v["want"]})
                }))
            }
            "show_clients" => {
                // clients registered in the real registry with given states and counters; SHOW CLIENTS through the real handle_admin
                let rt = tokio::runtime::Builder::new_multi_thread().worker_threads(2).enable_all().build().unwrap();
                let v = v.clone();
                Some(rt.block_on(async move {
                    let mut regs = vec![];
                    for c in v["clients"].as_array().unwrap() {
                        let id = c["cid"].as_i64().unwrap() as i32;
                        let s = Arc::new(crate::stats::ClientStats::new(id, c["app"].as_str().unwrap(), c["user"].as_str().unwrap(), c["pool"].as_str().unwrap(), tokio::time::Instant::now()));
                        s.register(s.clone());
                        match c["state"].as_str().unwrap() { "active" => s.active(), "waiting" => s.waiting(), _ => s.idle() }
                        s.transaction_count.store(c["tx"].as_u64().unwrap(), std::sync::atomic::Ordering::Relaxed);
                        s.query_count.store(c["q"].as_u64().unwrap(), std::sync::atomic::Ordering::Relaxed);
                        s.error_count.store(c["err"].as_u64().unwrap(), std::sync::atomic::Ordering::Relaxed);
                        regs.push(s);
                    }
                    let map: ClientServerMap = Arc::new(parking_lot::Mutex::new(HashMap::new()));
                    let mut out: Vec<u8> = vec![];
                    let r = crate::admin::handle_admin(&mut out, crate::messages::simple_query("SHOW CLIENTS"), map).await;
                    for s in regs.iter() { s.disconnect(); }
                    if r.is_err() { return json!({"error": format!("handle_admin: {:?}", r)}); }
                    let mut rows = vec![]; let mut i = 0usize;
                    while i + 5 <= out.len() {
                        let ln = i32::from_be_bytes([out[i + 1], out[i + 2], out[i + 3], out[i + 4]]) as usize;
                        if out[i] == b'D' {
                            let body = &out[i + 5..i + 1 + ln];
                            let n = u16::from_be_bytes([body[0], body[1]]) as usize; let mut j = 2; let mut cols = vec![];
                            for _ in 0..n { let l = i32::from_be_bytes([body[j], body[j + 1], body[j + 2], body[j + 3]]) as usize; j += 4;
                                            cols.push(String::from_utf8_lossy(&body[j..j + l]).to_string()); j += l; }
                            cols.truncate(8);
                            rows.push(cols);
                        }
                        i += 1 + ln;
                    }
                    json!({"rows": rows, "want": v["want"]})
                }))
            }
            "cancel_conn_stats" => {
                // a client is registered in the statistics the way Client::handle registers it; a CancelRequest naming its process id (wrong key: the
                // request is dropped silently) is served the way client_entrypoint serves it -- Client::cancel, handle(), drop.  Still listed?
                let rt = tokio::runtime::Builder::new_multi_thread().worker_threads(2).enable_all().build().unwrap();
                Some(rt.block_on(async move {
                    let pid: i32 = 424_242 + (std::process::id() as i32 % 1000);
                    let target = Arc::new(crate::stats::ClientStats::new(pid, "app", "u", "verif_cancel_pool", tokio::time::Instant::now()));
                    target.register(target.clone());
                    let listed_before = crate::stats::get_client_stats().contains_key(&pid);
                    let map: ClientServerMap = Arc::new(parking_lot::Mutex::new(HashMap::new()));
                    let (_client_end, pgcat_end) = duplex(1 << 12);
                    let (read, write) = split(pgcat_end);
                    let (tx, rx) = tokio::sync::broadcast::channel::<()>(1);
                    let _keep = tx;
                    let mut body = BytesMut::new(); body.put_i32(pid); body.put_i32(99);
                    let r = match Client::cancel(read, write, "127.0.0.1:1".parse().unwrap(), body, map, rx).await {
                        Ok(mut c) => { let r = c.handle().await; if r.is_err() { c.stats.disconnect(); } drop(c); format!("{:?}", r) }
                        Err(e) => format!("cancel constructor failed: {:?}", e),
                    };
                    let listed_after = crate::stats::get_client_stats().contains_key(&pid);
                    target.disconnect();
                    json!({"target_listed_before": listed_before, "target_listed_after": listed_after, "handle_result": r})
                }))
            }
            "client_map_op" => {
                let rt = tokio::runtime::Builder::new_multi_thread().worker_threads(2).enable_all().build().unwrap();
                let vv = v.clone();
                Some(rt.block_on(async move { run(vv).await }))
            }
            _ => None,
        }
    }
}
