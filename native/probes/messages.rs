
// ---- appended by /verif/native/oracle.py (scratch copy only) ----
#[cfg(test)]
pub(crate) mod verif_probe {
    #[allow(unused_imports)]
    use super::*;
    use serde_json::{json, Value};

    fn unhex(s: &str) -> Vec<u8> {
        (0..s.len() / 2).map(|i| u8::from_str_radix(&s[2 * i..2 * i + 2], 16).unwrap()).collect()
    }
    fn hex(b: &[u8]) -> String { b.iter().map(|x| format!("{:02x}", x)).collect() }
    fn buf(v: &Value) -> BytesMut { BytesMut::from(&unhex(v["hex"].as_str().unwrap())[..]) }

    pub(crate) fn handle(op: &str, v: &Value) -> Option<Value> {
        match op {
            "parse_roundtrip" => {
                let b = buf(v);
                match Parse::try_from(&b) {
                    Err(e) => Some(json!({"decode_err": format!("{:?}", e)})),
                    Ok(mut p) => {
                        let decoded = json!({"name": p.name.clone(), "query": p.query.clone(), "num_params": p.num_params, "param_types": p.param_types.clone()});
                        if let Some(n) = v.get("new_name").and_then(|x| x.as_str()) { p.name = n.to_string(); }
                        let r: Result<BytesMut, Error> = p.try_into();
                        match r {
                            Ok(o) => Some(json!({"decoded": decoded, "hex": hex(&o)})),
                            Err(e) => Some(json!({"decoded": decoded, "encode_err": format!("{:?}", e)})),
                        }
                    }
                }
            }
            "parse_get_name" => {
                match Parse::get_name(&buf(v)) { Ok(n) => Some(json!({"name": n})), Err(e) => Some(json!({"err": format!("{:?}", e)})) }
            }
            "bind_get_name" => {
                match Bind::get_name(&buf(v)) { Ok(n) => Some(json!({"name": n})), Err(e) => Some(json!({"err": format!("{:?}", e)})) }
            }
            "bind_rename" => {
                match Bind::rename(buf(v), v["new_name"].as_str().unwrap()) {
                    Ok(o) => Some(json!({"hex": hex(&o)})), Err(e) => Some(json!({"err": format!("{:?}", e)})) }
            }
            "bind_roundtrip" => {
                let b = buf(v);
                match Bind::try_from(&b) {
                    Err(e) => Some(json!({"decode_err": format!("{:?}", e)})),
                    Ok(p) => { let r: Result<BytesMut, Error> = p.try_into();
                        match r { Ok(o) => Some(json!({"hex": hex(&o)})), Err(e) => Some(json!({"encode_err": format!("{:?}", e)})) } }
                }
            }
            "describe_roundtrip" => {
                let b = buf(v);
                match Describe::try_from(&b) {
                    Err(e) => Some(json!({"decode_err": format!("{:?}", e)})),
                    Ok(mut d) => {
                        let decoded = json!({"target": (d.target as u32), "name": d.statement_name.clone()});
                        if let Some(n) = v.get("new_name").and_then(|x| x.as_str()) { d = d.rename(n); }
                        let r: Result<BytesMut, Error> = d.try_into();
                        match r { Ok(o) => Some(json!({"decoded": decoded, "hex": hex(&o)})), Err(e) => Some(json!({"decoded": decoded, "encode_err": format!("{:?}", e)})) }
                    }
                }
            }
            "close_roundtrip" => {
                let b = buf(v);
                match Close::try_from(&b) {
                    Err(e) => Some(json!({"decode_err": format!("{:?}", e)})),
                    Ok(c) => {
                        let decoded = json!({"close_type": (c.close_type as u32), "name": c.name.clone(), "is_ps": c.is_prepared_statement()});
                        let r: Result<BytesMut, Error> = c.try_into();
                        match r { Ok(o) => Some(json!({"decoded": decoded, "hex": hex(&o)})), Err(e) => Some(json!({"decoded": decoded, "encode_err": format!("{:?}", e)})) }
                    }
                }
            }
            "read_message" => {
                let data = unhex(v["hex"].as_str().unwrap());
                let rt = tokio::runtime::Builder::new_current_thread().enable_all().build().unwrap();
                let mut cur = std::io::Cursor::new(data);
                match rt.block_on(read_message(&mut cur)) {
                    Ok(b) => Some(json!({"ok": hex(&b), "pos": cur.position()})),
                    Err(e) => Some(json!({"err": format!("{:?}", e), "pos": cur.position()})),
                }
            }
            "decode_terminates" => {
                // does the decoder come back (Ok, Err or a panic of its own thread) on these bytes?  A decoder that spins holds a runtime
                // worker for good: with `worker_threads` such clients every other client is blocked.
                let b = buf(v);
                let which = v["which"].as_str().unwrap_or("").to_string();
                let (tx, rx) = std::sync::mpsc::channel();
                std::thread::spawn(move || {
                    let r = std::panic::catch_unwind(std::panic::AssertUnwindSafe(|| {
                        match which.as_str() {
                            "parse_startup" => format!("{:?}", parse_startup(b).map(|m| m.len())),
                            "parse_params" => format!("{:?}", parse_params(b).map(|m| m.len())),
                            "Parse" => format!("{:?}", Parse::try_from(&b).is_ok()),
                            "Bind" => format!("{:?}", Bind::try_from(&b).is_ok()),
                            "Describe" => format!("{:?}", Describe::try_from(&b).is_ok()),
                            "Close" => format!("{:?}", Close::try_from(&b).is_ok()),
                            "Bind::get_name" => format!("{:?}", Bind::get_name(&b).is_ok()),
                            "Parse::get_name" => format!("{:?}", Parse::get_name(&b).is_ok()),
                            _ => "unknown decoder".to_string(),
                        }
                    }));
                    let _ = tx.send(match r { Ok(s) => s, Err(_) => "panic".to_string() });
                });
                match rx.recv_timeout(std::time::Duration::from_secs(3)) {
                    Ok(s) => Some(json!({"finished": true, "result": s})),
                    Err(_) => Some(json!({"finished": false})),
                }
            }
            "parse_hash" => {
                // two Parse values built through the real decoder from their wire encodings
                let a = Parse::try_from(&BytesMut::from(&unhex(v["a"].as_str().unwrap())[..])).unwrap();
                let b = Parse::try_from(&BytesMut::from(&unhex(v["b"].as_str().unwrap())[..])).unwrap();
                Some(json!({"ha": a.get_hash().to_string(), "hb": b.get_hash().to_string(),
                            "same_statement": a.query == b.query && a.param_types == b.param_types && a.num_params == b.num_params}))
            }
            _ => None,
        }
    }
}
