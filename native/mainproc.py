"""Native replay for the accept / signal loop of src/main.rs: the REAL pgcat binary, built from /repo's working tree, run as a child process
against a scripted PostgreSQL on loopback, driven by an event script (the same vocabulary as checks/mainloop.py):

  int / term / hup   the signal is sent to the process
  client             a client connects and sends its StartupMessage (it is not logged in yet: the MD5 challenge is outstanding)
  counted            the oldest such client answers the challenge (admitted -> ReadyForQuery, refused -> ErrorResponse) and opens a transaction
  left               the oldest admitted client sends Terminate and closes
  admin_shutdown     an admin client logs in to the admin database and sends SHUTDOWN (judged like SIGINT)
  idle_client        a client logs in and stays idle between transactions (it must be told at SIGINT)
  timeout            general.shutdown_timeout passes (2 s in a run whose script has this event, 120 s otherwise)
  accept_err         (cannot be provoked on loopback: skipped)

Reported: whether the process had exited after each event and at the end, which logins were admitted, how often the configuration was
re-read."""
import os, sys, json, time, socket, struct, hashlib, subprocess, threading, signal, fcntl, tempfile, shutil

VERIF = os.path.dirname(os.path.dirname(os.path.abspath(__file__)))
REPO = os.environ.get('VERIF_REPO', '/repo')
_TAG = '' if REPO.rstrip('/') == '/repo' else '-' + hashlib.sha256(REPO.encode()).hexdigest()[:8]
WORK = os.path.join(VERIF, '.work' + _TAG)
CACHE = os.path.join(VERIF, '.cache' + _TAG)
SHUTDOWN_TIMEOUT_MS = 2000


def _tree_hash(root):
    h = hashlib.sha256()
    for base in ('src', 'Cargo.toml', 'Cargo.lock'):
        p = os.path.join(root, base)
        if os.path.isdir(p):
            for dp, dn, fns in sorted(os.walk(p)):
                dn.sort()
                for fn in sorted(fns):
                    fp = os.path.join(dp, fn)
                    h.update(fp[len(root):].encode())
                    h.update(open(fp, 'rb').read())
        elif os.path.exists(p):
            h.update(open(p, 'rb').read())
    return h.hexdigest()


def ensure_binary(profile='dev'):
    os.makedirs(CACHE, exist_ok=True)
    os.makedirs(WORK, exist_ok=True)
    lock = open(os.path.join(CACHE, 'bin-%s.lock' % profile), 'w')
    fcntl.flock(lock, fcntl.LOCK_EX)
    try:
        src = os.path.join(WORK, 'bin-src')
        want = _tree_hash(REPO)
        # the oracle's target directory already holds every dependency compiled for this profile
        tdir = os.path.join(CACHE, 'oracle-target-' + profile)
        exe = os.path.join(tdir, 'release' if profile == 'release' else 'debug', 'pgcat')
        stamp = os.path.join(tdir, 'bin.stamp')
        if os.path.exists(stamp) and open(stamp).read() == want and os.path.exists(exe):
            return exe
        subprocess.run(['rsync', '-a', '--delete', '--exclude', 'target', '--exclude', '.git', REPO.rstrip('/') + '/', src + '/'], check=True)
        env = dict(os.environ)
        env['CARGO_NET_OFFLINE'] = 'true'
        env.pop('RUSTFLAGS', None)
        cmd = ['cargo', 'build', '--offline', '--bin', 'pgcat', '--target-dir', tdir] + (['--release'] if profile == 'release' else [])
        r = subprocess.run(cmd, cwd=src, env=env, stdout=subprocess.PIPE, stderr=subprocess.STDOUT, text=True)
        if r.returncode != 0 or not os.path.exists(exe):
            sys.stderr.write(r.stdout[-3000:])
            raise RuntimeError('building the pgcat binary failed')
        os.makedirs(tdir, exist_ok=True)
        open(stamp, 'w').write(want)
        return exe
    finally:
        fcntl.flock(lock, fcntl.LOCK_UN)
        lock.close()


# ------------------------------------------------------------------------------------------------ a scripted PostgreSQL
def _msg(code, body):
    return code + struct.pack('>I', len(body) + 4) + body


def _read_exact(s, n):
    buf = b''
    while len(buf) < n:
        c = s.recv(n - len(buf))
        if not c:
            raise EOFError
        buf += c
    return buf


def _backend(conn):
    try:
        ln = struct.unpack('>I', _read_exact(conn, 4))[0]
        _read_exact(conn, ln - 4)
        out = _msg(b'R', struct.pack('>I', 0))
        for k, v in ((b'server_version', b'14.0'), (b'client_encoding', b'UTF8'), (b'server_encoding', b'UTF8'), (b'DateStyle', b'ISO, MDY'),
                     (b'TimeZone', b'UTC'), (b'standard_conforming_strings', b'on'), (b'application_name', b'pgcat'), (b'integer_datetimes', b'on')):
            out += _msg(b'S', k + b'\0' + v + b'\0')
        out += _msg(b'K', struct.pack('>II', 4242, 17)) + _msg(b'Z', b'I')
        conn.sendall(out)
        status = b'I'
        while True:
            code = _read_exact(conn, 1)
            ln = struct.unpack('>I', _read_exact(conn, 4))[0]
            body = _read_exact(conn, ln - 4)
            if code == b'X':
                break
            if code == b'Q':
                q = body.upper()
                if q.startswith(b'BEGIN'):
                    status = b'T'
                elif q.startswith(b'COMMIT') or q.startswith(b'ROLLBACK') or q.startswith(b'DISCARD'):
                    status = b'I'
                conn.sendall(_msg(b'C', b'SET\0') + _msg(b'Z', status))
            elif code == b'S':
                conn.sendall(_msg(b'Z', status))
    except (EOFError, OSError):
        pass
    finally:
        try:
            conn.close()
        except OSError:
            pass


def _serve(lst):
    while True:
        try:
            c, _ = lst.accept()
        except OSError:
            return
        threading.Thread(target=_backend, args=(c,), daemon=True).start()


# ------------------------------------------------------------------------------------------------ a client
class PgClient:
    def __init__(self, port, user='app', db='db', password='app'):
        self.user, self.password = user, password
        self.s = socket.create_connection(('127.0.0.1', port), timeout=5)
        body = struct.pack('>I', 196608) + b'user\0' + user.encode() + b'\0database\0' + db.encode() + b'\0\0'
        self.s.sendall(struct.pack('>I', len(body) + 4) + body)
        self.salt = None
        self.early = None
        # the challenge (or an early refusal)
        try:
            code, body = self.read_msg()
            if code == b'R' and struct.unpack('>I', body[:4])[0] == 5:
                self.salt = body[4:8]
            else:
                self.early = (code, body)
        except (EOFError, OSError, socket.timeout):
            self.early = (b'', b'')

    def read_msg(self):
        code = _read_exact(self.s, 1)
        ln = struct.unpack('>I', _read_exact(self.s, 4))[0]
        return code, _read_exact(self.s, ln - 4)

    def login(self, begin=True):
        """-> 'admitted' | 'refused'"""
        if self.salt is None:
            return 'refused'
        inner = hashlib.md5((self.password + self.user).encode()).hexdigest().encode()
        resp = b'md5' + hashlib.md5(inner + self.salt).hexdigest().encode() + b'\0'
        try:
            self.s.sendall(_msg(b'p', resp))
            while True:
                code, body = self.read_msg()
                if code == b'E':
                    return 'refused'
                if code == b'Z':
                    break
            if not begin:
                return 'admitted'
            # open a transaction: a client idle between transactions is (rightly) disconnected by the shutdown broadcast, one inside a
            # transaction stays until it leaves
            self.s.sendall(_msg(b'Q', b'BEGIN\0'))
            while True:
                code, body = self.read_msg()
                if code == b'E':
                    return 'refused'
                if code == b'Z':
                    return 'admitted'
        except (EOFError, OSError, socket.timeout):
            return 'refused'

    def leave(self):
        try:
            self.s.sendall(_msg(b'X', b''))
        except OSError:
            pass
        try:
            self.s.close()
        except OSError:
            pass

    def told(self):
        """Has the pooler told this (idle) client that it is being shut down?  -> True when a FATAL ErrorResponse or EOF is waiting."""
        self.s.settimeout(0.05)
        try:
            code, body = self.read_msg()
            return code == b'E'
        except socket.timeout:
            return False
        except (EOFError, OSError):
            return True
        finally:
            self.s.settimeout(5)


def _free_port():
    s = socket.socket()
    s.bind(('127.0.0.1', 0))
    p = s.getsockname()[1]
    s.close()
    return p


def run_script(script, profile='dev'):
    exe = ensure_binary(profile)
    d = tempfile.mkdtemp(prefix='verif_main_', dir=WORK)
    lst = socket.socket()
    lst.setsockopt(socket.SOL_SOCKET, socket.SO_REUSEADDR, 1)
    lst.bind(('127.0.0.1', 0))
    lst.listen(32)
    threading.Thread(target=_serve, args=(lst,), daemon=True).start()
    pg_port = lst.getsockname()[1]
    port = _free_port()
    cfg = os.path.join(d, 'pgcat.toml')
    open(cfg, 'w').write(
        '[general]\nhost = "127.0.0.1"\nport = %d\nadmin_username = "admin"\nadmin_password = "admin"\nshutdown_timeout = %d\n'
        'connect_timeout = 11000\nidle_timeout = 13000\nworker_threads = 2\n\n[pools.db]\npool_mode = "transaction"\n\n[pools.db.users.0]\nusername = "app"\npassword = "app"\npool_size = 5\n\n'
        '[pools.db.shards.0]\nservers = [["127.0.0.1", %d, "primary"]]\ndatabase = "db"\n' % (port, SHUTDOWN_TIMEOUT_MS if 'timeout' in script else 120000, pg_port))
    logf = open(os.path.join(d, 'log'), 'w')
    env = dict(os.environ)
    env['RUST_LOG'] = 'info'
    proc = subprocess.Popen([exe, cfg], stdout=logf, stderr=subprocess.STDOUT, cwd=d, env=env)
    res = {'script': list(script), 'steps': [], 'logins': [], 'skipped': []}
    try:
        t0 = time.time()
        up = False
        while time.time() - t0 < 20 and proc.poll() is None:
            try:
                socket.create_connection(('127.0.0.1', port), timeout=0.5).close()
                up = True
                break
            except OSError:
                time.sleep(0.1)
        if not up:
            res['error'] = 'the pooler did not start listening (exit code %r)' % (proc.poll(),)
            return res
        time.sleep(0.3)
        waiting, inside, idle, admins = [], [], [], []
        hups = 0
        res['reload_effective'] = []
        int_at = None
        for e in script:
            if proc.poll() is not None:
                res['skipped'].append(e)
                continue
            if e in ('int', 'term', 'hup'):
                if e == 'hup':
                    hups += 1
                    with open(cfg, 'a') as f:
                        f.write('\n[pools.db.users.%d]\nusername = "late%d"\npassword = "late"\npool_size = 2\n' % (hups, hups))
                proc.send_signal({'int': signal.SIGINT, 'term': signal.SIGTERM, 'hup': signal.SIGHUP}[e])
                if e == 'int' and int_at is None:
                    int_at = time.time()
                if e == 'hup' and int_at is None:
                    # the file was rewritten before the signal (below): a login that only the NEW file allows shows that it was re-read
                    time.sleep(0.5)
                    try:
                        pc = PgClient(port, user='late%d' % hups, password='late')
                        okk = pc.login(begin=False) == 'admitted'
                        pc.leave()
                    except OSError:
                        okk = False
                    res['reload_effective'].append(okk)
            elif e == 'admin_shutdown':
                # the admin console's SHUTDOWN: an admin client logs in (admin database) and sends the command
                try:
                    ac = PgClient(port, user='admin', db='pgcat', password='admin')
                    r = ac.login(begin=False)
                    res['admin_login'] = r
                    if r == 'admitted':
                        ac.s.sendall(_msg(b'Q', b'SHUTDOWN\0'))
                        if int_at is None:
                            int_at = time.time()
                        try:
                            while True:
                                code, body = ac.read_msg()
                                if code in (b'Z', b'E'):
                                    break
                        except (EOFError, OSError, socket.timeout):
                            pass
                        admins.append(ac)
                except OSError:
                    res['admin_login'] = 'connect-failed'
            elif e == 'idle_client':
                try:
                    c = PgClient(port)
                    r = c.login(begin=False)
                    res['logins'].append(r)
                    if r == 'admitted':
                        idle.append(c)
                except OSError:
                    res['logins'].append('connect-failed')
            elif e == 'client':
                try:
                    waiting.append(PgClient(port))
                except OSError as ex:
                    res['logins'].append('connect-failed')
            elif e == 'counted':
                if waiting:
                    c = waiting.pop(0)
                    r = c.login()
                    res['logins'].append(r)
                    if r == 'admitted':
                        inside.append(c)
            elif e == 'left':
                if inside:
                    inside.pop(0).leave()
            elif e == 'timeout':
                if int_at is not None:
                    time.sleep(max(0.0, int_at + SHUTDOWN_TIMEOUT_MS / 1000.0 + 0.8 - time.time()))
            else:
                res['skipped'].append(e)
            time.sleep(0.35)
            step = {'event': e, 'exited': proc.poll() is not None}
            if e == 'int' and idle:
                step['idle_told'] = [c.told() for c in idle]
            res['steps'].append(step)
        t1 = time.time()
        while time.time() - t1 < 1.0 and proc.poll() is None:
            time.sleep(0.05)
        res['exited'] = proc.poll() is not None
        res['exit_code'] = proc.poll()
        res['still_inside'] = len(inside)
        res['elapsed_since_int'] = None if int_at is None else round(time.time() - int_at, 2)
        logf.flush()
        log = open(os.path.join(d, 'log')).read()
        res['reloads'] = log.count('Reloading config')
        res['log_tail'] = log[-600:]
        return res
    finally:
        if proc.poll() is None:
            proc.kill()
        proc.wait()
        logf.close()
        lst.close()
        shutil.rmtree(d, ignore_errors=True)


def judge(res):
    """The rules of checks/mainloop.py applied to what the real process did.  -> list of problems."""
    if 'error' in res:
        return None
    sc = [e for e in res['script'] if e not in res['skipped']]
    done = ['int' if s['event'] == 'admin_shutdown' else s['event'] for s in res['steps']]
    problems = []
    got_int, got_term = 'int' in done, 'term' in done
    timeout = 'timeout' in done
    if got_term and not res['exited']:
        problems.append('sigterm-ignored')
    if res['exited'] and not got_term and not got_int:
        problems.append('exit-without-cause')
    if got_int and not got_term:
        # replay the counting: +1 for an admitted login, -1 for a leave
        inside, zero_after_int, seen_int, li = 0, False, False, 0
        for e in done:
            if e == 'int':
                seen_int = True
            elif e == 'counted' and li < len(res['logins']):
                inside += res['logins'][li] == 'admitted'
                li += 1
            elif e == 'left' and inside > 0:
                inside -= 1
            if seen_int and inside == 0:
                zero_after_int = True
        if res['exited'] and not timeout and not zero_after_int:
            problems.append('exit-with-clients')
        if not res['exited'] and timeout:
            problems.append('timeout-ignored')
        if not res['exited'] and not timeout and inside == 0 and not res['skipped']:
            problems.append('drained-not-exiting')
        # a login completed after SIGINT was handled must be refused only when the client CONNECTED after it
    # clients that connected after SIGINT must be refused
    seen_int, order, li = False, [], 0
    pend = []
    for e in done:
        if e == 'int':
            seen_int = True
        elif e == 'client':
            pend.append(seen_int)
        elif e == 'counted' and pend:
            late = pend.pop(0)
            if li < len(res['logins']):
                if late and res['logins'][li] == 'admitted':
                    problems.append('admin-only-flag')
                if not late and res['logins'][li] != 'admitted' and not res['exited'] and not got_int:
                    problems.append('refused-before-shutdown')
                li += 1
    if (res.get('reloads', 0) != done.count('hup') or not all(res.get('reload_effective', []))) and not res['exited']:
        problems.append('sighup-reload')
    for s in res['steps']:
        if s['event'] == 'int' and not all(s.get('idle_told', [])):
            problems.append('no-broadcast')
    return problems


if __name__ == '__main__':
    sc = sys.argv[1].split(',') if len(sys.argv) > 1 else ['client', 'counted', 'int', 'left']
    r = run_script(sc)
    print(json.dumps(r, indent=1))
    print(judge(r))
