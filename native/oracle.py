"""Native oracle: the real pgcat code, compiled from a scratch copy of /repo's working tree with
probe modules appended (child modules, so they see private items).  Used for (a) translator
validation -- the same concrete inputs are pushed through the interpreter and through the compiled
code -- and (b) replaying solver counterexamples against the real build before anything is reported.
/repo itself is never modified."""
import os, sys, json, subprocess, glob, hashlib, fcntl, time, shutil

HERE = os.path.dirname(os.path.abspath(__file__))
VERIF = os.path.dirname(HERE)
REPO = os.environ.get('VERIF_REPO', '/repo')
# a scratch tree (VERIF_REPO, used by the seed tooling) gets its own work and cache directories, so that it can run next to a check of /repo
_TAG = '' if REPO.rstrip('/') == '/repo' else '-' + hashlib.sha256(REPO.encode()).hexdigest()[:8]
WORK = os.path.join(VERIF, '.work' + _TAG)
CACHE = os.path.join(VERIF, '.cache' + _TAG)
PROBES = os.path.join(HERE, 'probes')


class OracleError(Exception):
    pass


def _tree_hash(root, extra=b''):
    h = hashlib.sha256()
    for base in ('src', 'Cargo.toml', 'Cargo.lock'):
        p = os.path.join(root, base)
        if os.path.isdir(p):
            for dp, dn, fns in sorted(os.walk(p)):
                dn.sort()
                for fn in sorted(fns):
                    fp = os.path.join(dp, fn)
                    h.update(fp[len(root):].encode())
                    h.update(open(fp, 'rb').read())
        elif os.path.exists(p):
            h.update(open(p, 'rb').read())
    h.update(extra)
    return h.hexdigest()


def _probe_files():
    out = []
    for dp, dn, fns in sorted(os.walk(PROBES)):
        for fn in sorted(fns):
            if fn.endswith('.rs'):
                fp = os.path.join(dp, fn)
                out.append((os.path.relpath(fp, PROBES), fp))
    return out


KNOWN_SERVER_FIELDS = set("""address stream buffer server_parameters process_id secret_key in_transaction data_available in_copy_mode bad cleanup_state
client_server_map connected_at stats application_name last_activity mirror_manager addr_set cleanup_connections log_client_parameter_status_changes
prepared_statement_cache registering_prepared_statement""".split())


def _extra_server_fields(src):
    """The probes build `Server` values by struct literal.  A tree that ADDS a field to `Server` would not compile against them; such fields are
    initialised with Default::default() (what `Server::startup` would do for a new Option / bool / counter) at the marked places."""
    import re
    p = os.path.join(src, 'src', 'server.rs')
    t = open(p).read()
    m = re.search(r'pub struct Server\s*\{(.*?)\n\}', t, re.S)
    extra = []
    if m:
        body = re.sub(r'//[^\n]*', '', m.group(1))
        for fm in re.finditer(r'^\s*(?:pub(?:\([a-z]+\))?\s+)?([a-z_][a-z0-9_]*)\s*:', body, re.M):
            if fm.group(1) not in KNOWN_SERVER_FIELDS:
                extra.append(fm.group(1))
    t = t.replace('/*VERIF_EXTRA_SERVER_FIELDS*/', ' '.join('%s: Default::default(),' % f for f in extra))
    open(p, 'w').write(t)


def ensure_built(profile='dev'):
    """Build (or reuse) the oracle test binary. Returns path to the executable."""
    os.makedirs(CACHE, exist_ok=True)
    os.makedirs(WORK, exist_ok=True)
    lock = open(os.path.join(CACHE, 'oracle-%s.lock' % profile), 'w')
    fcntl.flock(lock, fcntl.LOCK_EX)
    try:
        src = os.path.join(WORK, 'oracle-src')
        ph = hashlib.sha256()
        for rel, fp in _probe_files():
            ph.update(rel.encode())
            ph.update(open(fp, 'rb').read())
        want = _tree_hash(REPO, ph.digest())
        tdir = os.path.join(CACHE, 'oracle-target-' + profile)
        stamp = os.path.join(tdir, 'oracle.stamp')
        if os.path.exists(stamp):
            st = json.load(open(stamp))
            if st.get('hash') == want and os.path.exists(st.get('exe', '')):
                return st['exe']
        subprocess.run(['rsync', '-a', '--delete', '--exclude', 'target', '--exclude', '.git',
                        REPO.rstrip('/') + '/', src + '/'], check=True)
        for rel, fp in _probe_files():
            dst = os.path.join(src, 'src', rel)
            if not os.path.exists(dst):
                raise OracleError("probe target src/%s does not exist in the tree" % rel)
            with open(dst, 'a') as f:
                f.write(open(fp).read())
        _extra_server_fields(src)
        env = dict(os.environ)
        env['CARGO_NET_OFFLINE'] = 'true'
        env.pop('RUSTFLAGS', None)
        cmd = ['cargo', 'test', '--offline', '--lib', '--no-run', '--message-format=json', '--target-dir', tdir]
        if profile == 'release':
            cmd.insert(2, '--release')
        t = time.time()
        r = subprocess.run(cmd, cwd=src, env=env, stdout=subprocess.PIPE, stderr=subprocess.PIPE, text=True)
        if r.returncode != 0:
            # the tree under test may have changed a data representation that some probes spell out (e.g. the cancel map's key):
            # retry with those parts of the probes compiled out; the representation-independent operations remain
            env2 = dict(env)
            env2['RUSTFLAGS'] = '--cfg verif_probe_minimal'
            r2 = subprocess.run(cmd, cwd=src, env=env2, stdout=subprocess.PIPE, stderr=subprocess.PIPE, text=True)
            if r2.returncode == 0:
                sys.stderr.write('native oracle: built in MINIMAL mode (the full probe set does not compile against this tree)\n')
                r = r2
        exe = None
        errs = []
        for line in r.stdout.split('\n'):
            if not line.startswith('{'):
                continue
            try:
                m = json.loads(line)
            except ValueError:
                continue
            if m.get('reason') == 'compiler-artifact' and m.get('executable') and m.get('target', {}).get('name') == 'pgcat' \
                    and m.get('profile', {}).get('test'):
                exe = m['executable']
            if m.get('reason') == 'compiler-message' and m['message'].get('level') == 'error':
                errs.append(m['message'].get('rendered', ''))
        if r.returncode != 0 or exe is None:
            sys.stderr.write(''.join(errs)[-6000:] + r.stderr[-3000:])
            raise OracleError("oracle build failed (probes do not compile against this tree?)")
        os.makedirs(tdir, exist_ok=True)
        json.dump({'hash': want, 'exe': exe, 'build_s': time.time() - t}, open(stamp, 'w'))
        return exe
    finally:
        fcntl.flock(lock, fcntl.LOCK_UN)
        lock.close()


def run(commands, profile='dev', timeout=600):
    """commands: list of dicts with an 'op'.  Returns list of result dicts (same length)."""
    if commands and all(c.get('op') == 'main_process' for c in commands):
        # the accept / signal loop of main.rs: the real binary as a child process (native/mainproc.py)
        from native import mainproc
        out = []
        for c in commands:
            r = mainproc.run_script(c['script'], profile)
            r['problems'] = mainproc.judge(r)
            out.append(r)
        return out
    exe = ensure_built(profile)
    tmpd = os.path.join(WORK, 'oracle-io')
    os.makedirs(tmpd, exist_ok=True)
    tag = '%d-%d' % (os.getpid(), int(time.time() * 1e6) % 10 ** 9)
    fin = os.path.join(tmpd, 'in-%s.jsonl' % tag)
    fout = os.path.join(tmpd, 'out-%s.jsonl' % tag)
    with open(fin, 'w') as f:
        for c in commands:
            f.write(json.dumps(c) + '\n')
    env = dict(os.environ)
    env['VERIF_ORACLE_IN'] = fin
    env['VERIF_ORACLE_OUT'] = fout
    env['RUST_BACKTRACE'] = '0'
    try:
        r = subprocess.run([exe, 'verif_oracle::verif_oracle_main', '--exact', '--nocapture', '--test-threads', '1'],
                           env=env, stdout=subprocess.PIPE, stderr=subprocess.PIPE, text=True, timeout=timeout)
        if not os.path.exists(fout):
            raise OracleError("oracle produced no output: " + r.stdout[-2000:] + r.stderr[-2000:])
        res = [json.loads(l) for l in open(fout) if l.strip()]
        if len(res) != len(commands):
            raise OracleError("oracle answered %d of %d commands (crash?): %s" % (len(res), len(commands), r.stderr[-2000:]))
        return res
    finally:
        for p in (fin, fout):
            try:
                os.unlink(p)
            except OSError:
                pass


if __name__ == '__main__':
    prof = sys.argv[1] if len(sys.argv) > 1 else 'dev'
    t = time.time()
    print(ensure_built(prof), '%.1fs' % (time.time() - t))
    print(run([{'op': 'shard', 'shards': '5', 'key': '1', 'func': 'pg'}, {'op': 'regexes'}], prof))
