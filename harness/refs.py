"""Reference oracles written from sources independent of pgcat."""
import z3

# ---------------------------------------------------------------------------------------------
# PostgreSQL hash partitioning of a single bigint column.
# Transcribed from PostgreSQL: src/common/hashfn.c (hash_bytes_uint32_extended, mix, final),
# src/backend/access/hash/hashfunc.c (hashint8extended), src/include/common/hashfn.h
# (hash_combine64), src/backend/partitioning/partbounds.c (compute_partition_hash_value) and
# src/include/catalog/partition.h (HASH_PARTITION_SEED).  Generic over Python ints / z3 terms.
# ---------------------------------------------------------------------------------------------
HASH_PARTITION_SEED = 0x7A5B22367996DCFD


class IntOps:
    def __init__(self):
        pass

    def c32(self, v):
        return v & 0xffffffff

    def c64(self, v):
        return v & 0xffffffffffffffff

    def add32(self, a, b):
        return (a + b) & 0xffffffff

    def sub32(self, a, b):
        return (a - b) & 0xffffffff

    def xor(self, a, b):
        return a ^ b

    def rot32(self, x, k):
        return ((x << k) | (x >> (32 - k))) & 0xffffffff

    def add64(self, a, b):
        return (a + b) & 0xffffffffffffffff

    def shl64(self, a, k):
        return (a << k) & 0xffffffffffffffff

    def shr64(self, a, k):
        return a >> k

    def join(self, hi, lo):
        return (hi << 32) | lo

    def split_key(self, key):
        """key: signed python int -> (lohalf, hihalf, nonneg)"""
        u = key & 0xffffffffffffffff
        return u & 0xffffffff, (u >> 32) & 0xffffffff, key >= 0

    def ite(self, c, a, b):
        return a if c else b

    def not32(self, a):
        return (~a) & 0xffffffff


class Z3Ops:
    def c32(self, v):
        return z3.BitVecVal(v, 32)

    def c64(self, v):
        return z3.BitVecVal(v, 64)

    def add32(self, a, b):
        return a + b

    def sub32(self, a, b):
        return a - b

    def xor(self, a, b):
        return a ^ b

    def rot32(self, x, k):
        return z3.RotateLeft(x, k)

    def add64(self, a, b):
        return a + b

    def shl64(self, a, k):
        return a << k

    def shr64(self, a, k):
        return z3.LShR(a, k)

    def join(self, hi, lo):
        return z3.Concat(hi, lo)

    def split_key(self, key):
        return z3.Extract(31, 0, key), z3.Extract(63, 32, key), key >= 0

    def ite(self, c, a, b):
        return z3.If(c, a, b)

    def not32(self, a):
        return ~a


def _mix(o, a, b, c):
    a = o.sub32(a, c); a = o.xor(a, o.rot32(c, 4)); c = o.add32(c, b)
    b = o.sub32(b, a); b = o.xor(b, o.rot32(a, 6)); a = o.add32(a, c)
    c = o.sub32(c, b); c = o.xor(c, o.rot32(b, 8)); b = o.add32(b, a)
    a = o.sub32(a, c); a = o.xor(a, o.rot32(c, 16)); c = o.add32(c, b)
    b = o.sub32(b, a); b = o.xor(b, o.rot32(a, 19)); a = o.add32(a, c)
    c = o.sub32(c, b); c = o.xor(c, o.rot32(b, 4)); b = o.add32(b, a)
    return a, b, c


def _final(o, a, b, c):
    c = o.xor(c, b); c = o.sub32(c, o.rot32(b, 14))
    a = o.xor(a, c); a = o.sub32(a, o.rot32(c, 11))
    b = o.xor(b, a); b = o.sub32(b, o.rot32(a, 25))
    c = o.xor(c, b); c = o.sub32(c, o.rot32(b, 16))
    a = o.xor(a, c); a = o.sub32(a, o.rot32(c, 4))
    b = o.xor(b, a); b = o.sub32(b, o.rot32(a, 14))
    c = o.xor(c, b); c = o.sub32(c, o.rot32(b, 24))
    return a, b, c


def pg_partition_hash(o, key):
    """64-bit row hash PostgreSQL computes for PARTITION BY HASH (bigint) -- before `% modulus`."""
    lo, hi, nonneg = o.split_key(key)
    lo = o.xor(lo, o.ite(nonneg, hi, o.not32(hi)))                # hashint8extended
    init = (0x9e3779b9 + 4 + 3923095) & 0xffffffff                # hash_bytes_uint32_extended
    a = b = c = o.c32(init)
    a = o.add32(a, o.c32(HASH_PARTITION_SEED >> 32))              # seed != 0
    b = o.add32(b, o.c32(HASH_PARTITION_SEED & 0xffffffff))
    a, b, c = _mix(o, a, b, c)
    a = o.add32(a, lo)
    a, b, c = _final(o, a, b, c)
    h = o.join(b, c)
    # compute_partition_hash_value: rowHash = hash_combine64(0, h)
    row = o.c64(0)
    t = o.add64(o.add64(o.add64(h, o.c64(0x49a0f4dd15e5a8e3)), o.shl64(row, 54)), o.shr64(row, 7))
    return o.xor(row, t)


def pg_partition_of(key, modulus):
    return pg_partition_hash(IntOps(), key) % modulus


# Ground truth from a real PostgreSQL (partition_hash_test_setup.sql in the pgcat repo, MODULUS 5):
PG_VECTORS_MOD5 = {
    0: [1, 4, 5, 14, 19, 39, 40, 46, 47, 53],
    1: [2, 3, 11, 17, 21, 23, 30, 49, 51, 54],
    2: [6, 7, 15, 16, 18, 20, 25, 28, 34, 35],
    3: [8, 12, 13, 22, 29, 31, 33, 36, 41, 43],
    4: [9, 10, 24, 26, 27, 32, 37, 38, 42, 45],
}


def validate_pg_reference():
    bad = []
    n = 0
    for part, keys in PG_VECTORS_MOD5.items():
        for k in keys:
            n += 1
            if pg_partition_of(k, 5) != part:
                bad.append(k)
    return n, bad
