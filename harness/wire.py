"""PostgreSQL frontend/backend wire formats (transcribed from the protocol documentation,
"Message Formats"): builders producing lists of 8-bit values (mirsym BV) with symbolic contents."""
from mirsym.values import BV


def be(n, width):
    return [BV(8, b) for b in (n & ((1 << (8 * width)) - 1)).to_bytes(width, 'big')]


def be_sym(v, width):
    """Big-endian bytes of a (possibly symbolic) BV of 8*width bits."""
    import z3
    out = []
    w = 8 * width
    for i in range(width):
        hi = w - 1 - 8 * i
        out.append(BV(8, (v.v >> (hi - 7)) & 0xff) if v.concrete else BV(8, z3.simplify(z3.Extract(hi, hi - 7, v.v))))
    return out


def cstr(bs):
    return list(bs) + [BV(8, 0)]


def frame(code, body):
    return [BV(8, ord(code))] + be(len(body) + 4, 4) + list(body)


def parse_msg(name, query, types):
    """Parse: 'P' len name\\0 query\\0 int16 n, int32[n]."""
    body = cstr(name) + cstr(query) + be(len(types), 2)
    for t in types:
        body += be_sym(t, 4)
    return frame('P', body)


def bind_msg(portal, stmt, fmts, params, rfmts):
    """Bind: 'B' len portal\\0 stmt\\0 int16 nf, int16[nf], int16 np, (int32 len, bytes)[np], int16 nr, int16[nr].
    params: list of (length:int (-1 = NULL), [bytes])."""
    body = cstr(portal) + cstr(stmt) + be(len(fmts), 2)
    for f in fmts:
        body += be_sym(f, 2)
    body += be(len(params), 2)
    for ln, data in params:
        body += be(ln, 4) + list(data)
    body += be(len(rfmts), 2)
    for f in rfmts:
        body += be_sym(f, 2)
    return frame('B', body)


def describe_msg(target, name):
    return frame('D', [target] + cstr(name))


def close_msg(target, name):
    return frame('C', [target] + cstr(name))


def to_hex(m, bs):
    return bytes(m.eval(b.z(), True).as_long() for b in bs).hex()
