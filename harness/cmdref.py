"""Reference for C13: the documented command language and its state machine.

Written from README.md ("Sharding", "Failover"/"SET SERVER ROLE" sections) and the statement of C13:
the seven commands, case-insensitive, optional quotes, optional trailing semicolon.
 L_i  (lower bound, MUST be handled): the spellings the README documents -- keywords separated by single
      spaces, the argument in balanced single quotes or (where the property allows) bare, optional ';'.
 U_i  (upper bound, MAY be handled): the same with independently optional quotes and optional
      surrounding spaces.  Anything outside U_i must not be handled as command i.
The docs are silent about U_i \\ L_i (mismatched quotes, padding); the check neither demands nor forbids those.
"""
import re
from . import refs

CMD_NAMES = ['SetShardingKey', 'SetShard', 'ShowShard', 'SetServerRole', 'ShowServerRole', 'SetPrimaryReads', 'ShowPrimaryReads']

U = [
    r"(?i)^ *SET SHARDING KEY TO '?([0-9]+)'? *;? *$",
    r"(?i)^ *SET SHARD TO '?([0-9]+|ANY)'? *;? *$",
    r"(?i)^ *SHOW SHARD *;? *$",
    r"(?i)^ *SET SERVER ROLE TO '?(PRIMARY|REPLICA|ANY|AUTO|DEFAULT)'? *;? *$",
    r"(?i)^ *SHOW SERVER ROLE *;? *$",
    r"(?i)^ *SET PRIMARY READS TO '?(ON|OFF|DEFAULT)'? *;? *$",
    r"(?i)^ *SHOW PRIMARY READS *;? *$",
]
L = [
    r"(?i)^SET SHARDING KEY TO ('[0-9]+'|[0-9]+);?$",
    r"(?i)^SET SHARD TO ('[0-9]+'|[0-9]+|'ANY'|ANY);?$",
    r"(?i)^SHOW SHARD;?$",
    r"(?i)^SET SERVER ROLE TO '(PRIMARY|REPLICA|ANY|AUTO|DEFAULT)';?$",
    r"(?i)^SHOW SERVER ROLE;?$",
    r"(?i)^SET PRIMARY READS TO ('ON'|'OFF'|'DEFAULT'|ON|OFF|DEFAULT);?$",
    r"(?i)^SHOW PRIMARY READS;?$",
]

_U = [re.compile(p.replace('(?i)', ''), re.I | re.A) for p in U]
_L = [re.compile(p.replace('(?i)', ''), re.I | re.A) for p in L]


def classify(q):
    """(k, arg, in_L) for an ASCII query string; (None, None, False) when outside every U_k."""
    if any(ord(ch) >= 128 for ch in q):
        return None, None, False
    for k, r in enumerate(_U):
        m = r.match(q)
        if m:
            arg = m.group(1) if r.groups else None
            return k, arg, bool(_L[k].match(q))
    return None, None, False


def step(settings, pre, q):
    """Concrete reference: expected outcome of one query from a router state."""
    state = {'active_shard': pre.get('active_shard'), 'active_role': pre.get('active_role'),
             'qpe_override': pre.get('qpe_override'), 'pre_override': pre.get('pre_override')}
    k, arg, in_l = classify(q)
    if k is None:
        return {'handled': 'no', 'state': state}
    new = dict(state)
    out = {'handled': 'yes' if in_l else 'optional', 'cmd': CMD_NAMES[k], 'state': new, 'old': state}
    shards = settings.get('shards', 1)
    if k == 0:
        key = int(arg)
        if key > (1 << 63) - 1:
            out['unrepresentable'] = True
        else:
            new['active_shard'] = refs.pg_partition_of(key, shards)
            out['value'] = str(new['active_shard'])
    elif k == 1:
        if arg.upper() == 'ANY':
            out['shard_below'] = shards
            new['active_shard'] = 'any'
        else:
            n = int(arg)
            if n > (1 << 64) - 1:
                out['unrepresentable'] = True
            else:
                new['active_shard'] = n
    elif k == 2:
        out['value'] = 'unset' if state['active_shard'] is None else str(state['active_shard'])
    elif k == 3:
        a = arg.lower()
        dr = settings.get('default_role', 'any')
        if a == 'primary':
            new['active_role'], new['qpe_override'] = 'primary', False
        elif a == 'replica':
            new['active_role'], new['qpe_override'] = 'replica', False
        elif a == 'any':
            new['active_role'], new['qpe_override'] = None, False
        elif a == 'auto':
            new['active_role'], new['qpe_override'] = None, True
        else:
            new['active_role'], new['qpe_override'] = (dr if dr in ('primary', 'replica') else None), None
    elif k == 4:
        if state['active_role'] in ('primary', 'replica'):
            out['value'] = state['active_role']
        else:
            qpe = state['qpe_override'] if state['qpe_override'] is not None else settings.get('query_parser_enabled', False)
            out['value'] = 'auto' if qpe else 'any'
    elif k == 5:
        a = arg.lower()
        new['pre_override'] = {'on': True, 'off': False, 'default': None}[a]
    elif k == 6:
        p = state['pre_override'] if state['pre_override'] is not None else settings.get('primary_reads_enabled', False)
        out['value'] = 'on' if p else 'off'
    return out


def _norm_state(s):
    sh = s.get('active_shard')
    return {'active_shard': None if sh is None else int(sh), 'active_role': s.get('active_role'),
            'qpe_override': s.get('qpe_override'), 'pre_override': s.get('pre_override')}


def differs(want, nat):
    """(bool, detail): does the native step outcome differ from the reference expectation?"""
    if 'panic' in nat:
        return True, 'native panics: %s' % nat['panic']
    ns = _norm_state(nat['state'])
    cmd = nat.get('cmd')
    if want['handled'] == 'no':
        if cmd is not None:
            return True, 'native handles it as %s, reference: not a command' % cmd
        if ns != _norm_state(want['state']):
            return True, 'native state %r changed by a non-command (was %r)' % (ns, want['state'])
        return False, 'agrees (not a command)'
    if cmd is None:
        if want['handled'] == 'yes':
            return True, 'native does not handle documented command %s' % want['cmd']
        if ns != _norm_state(want['old']):
            return True, 'native state changed although not handled'
        return False, 'agrees (optional spelling not handled)'
    if cmd != want['cmd']:
        return True, 'native handled as %s, reference %s' % (cmd, want['cmd'])
    if want.get('unrepresentable'):
        return False, 'no panic for an unrepresentable argument (any orderly outcome accepted)'
    exp = dict(want['state'])
    if exp.get('active_shard') == 'any':
        sh = ns['active_shard']
        if sh is None or not (0 <= sh < want['shard_below']):
            return True, 'SET SHARD TO ANY selected %r, not below %d' % (sh, want['shard_below'])
        exp['active_shard'] = sh
    if ns != _norm_state(exp):
        return True, 'native state %r, reference %r' % (ns, _norm_state(exp))
    if 'value' in want and nat.get('value') != want['value']:
        return True, 'native value %r, reference %r' % (nat.get('value'), want['value'])
    return False, 'agrees'


VALIDATION_QUERIES = [
    # the spellings exercised by the repo's own tests (test_regex_set, test_try_execute_command)
    "SET SHARDING KEY TO '1'", "SET SHARD TO '1'", "SHOW SHARD", "SET SERVER ROLE TO 'replica'", "SET SERVER ROLE TO 'primary'",
    "SET SERVER ROLE TO 'any'", "SET SERVER ROLE TO 'auto'", "SHOW SERVER ROLE", "SET PRIMARY READS TO 'on'",
    "SET PRIMARY READS TO 'off'", "SET PRIMARY READS TO 'default'", "SHOW PRIMARY READS",
    "set sharding key to '1'", "set shard to '1'", "show shard", "set server role to 'replica'", "set server role to 'primary'",
    "set server role to 'any'", "set server role to 'auto'", "show server role", "set primary reads to 'on'",
    "set primary reads to 'OFF'", "set primary reads to 'deFaUlt'", "sHoW PrimAry READS;",
    "SET SHARDING KEY TO 1", "SET SHARD TO 1", "  SET SHARD TO 2 ; ", "SET SHARD TO ANY", "set shard to 'any';",
    "SET SERVER ROLE TO 'default'", "SET SERVER ROLE TO 'DEFAULT';", "SET SERVER ROLE TO primary",
    # near misses
    "SET SHARD TO 1; SELECT 1", "SELECT 1; SET SHARD TO 1", "SET  SHARD TO 1", "SET SHARD TO", "SET SHARD TO -1", "SET SHARD TO 1x",
    "SHOW SHARDS", "SHOW SHARD x", "SET SHARDING KEY TO '1", "SET SHARDING KEY TO 1'", "SET SHARDING KEY TO ''", "/* x */ SHOW SHARD",
    "SET SERVER ROLE TO 'mirror'", "SET PRIMARY READS TO 'yes'", "SELECT 1", "", "SET SHARDING KEY TO 9223372036854775807",
    "SET SHARDING KEY TO 9223372036854775808", "SET SHARD TO 18446744073709551615", "SET SHARD TO 18446744073709551616",
    "SET SHARDING KEY TO 0000000000000000000012", "SET SHARD TO 007",
]


def quick_lengths():
    """Query lengths explored by the quick tier: every length at which a documented core spelling exists for
    each command with arguments of 1-2 characters, plus neighbours (near misses one byte longer/shorter)."""
    return [9, 10, 11, 12, 14, 15, 16, 17, 18, 21, 22, 23, 24, 26, 27, 28, 29, 30]
