"""Shared check framework: tiers/seeds, obligations, known findings, replay dirs, evidence, exit codes."""
import os, sys, json, time, hashlib, traceback

HERE = os.path.dirname(os.path.abspath(__file__))
VERIF = os.path.dirname(HERE)
sys.path.insert(0, VERIF)

from mirsym.interp import Interp, Inconclusive, Stats  # noqa: E402
from mirsym import build as mbuild                      # noqa: E402
import mirsym.models                                    # noqa: E402,F401

KNOWN = os.path.join(VERIF, 'known_findings.jsonl')

# Named replay predicates: name -> f(*args) -> (results -> (reproduced: bool, detail: str)).
# Reports carry ['name', args...] so that they are plain data (picklable, written to replay.json).
EXPECT = {}


def expectation(name):
    def deco(f):
        EXPECT[name] = f
        return f
    return deco


def resolve_expect(e):
    if callable(e):
        return e
    return EXPECT[e[0]](*e[1:])


def load_known():
    out = []
    if os.path.exists(KNOWN):
        for l in open(KNOWN):
            l = l.strip()
            if l and not l.startswith('#'):
                out.append(json.loads(l))
    return out


class Obligation:
    def __init__(self, name, desc, bounds=None):
        self.name = name
        self.desc = desc
        self.bounds = bounds or {}
        self.status = 'pending'      # discharged | violated | known | inconclusive | vacuous
        self.stats = Stats()
        self.paths = 0
        self.nontrivial = 0
        self.witnesses = []          # vacuity witnesses that came back sat
        self.samples = []
        self.notes = []
        self.wall = 0.0
        self.extra = {}

    def to_json(self):
        return {
            'name': self.name, 'desc': self.desc, 'bounds': self.bounds, 'status': self.status,
            'paths': self.paths, 'nontrivial_paths': self.nontrivial,
            'solver_queries': self.stats.queries, 'sat': self.stats.sat, 'unsat': self.stats.unsat,
            'unknown': self.stats.unknown, 'solver_s': round(self.stats.solver_s, 3),
            'mir_steps': self.stats.steps, 'vacuity_witnesses': self.witnesses, 'notes': self.notes,
            'wall_s': round(self.wall, 2), **self.extra,
        }


class Check:
    def __init__(self, pid, argv=None, design_ref=''):
        argv = argv if argv is not None else sys.argv[1:]
        self.pid = pid
        self.tier = os.environ.get('VERIF_TIER', 'quick')
        if '--tier' in argv:
            self.tier = argv[argv.index('--tier') + 1]
        if self.tier not in ('quick', 'thorough'):
            self.tier = 'quick'
        try:
            self.seed = int(os.environ.get('VERIF_SEED', '0'))
        except ValueError:
            self.seed = 0
        self.t0 = time.time()
        self.obligations = []
        self.violations = []       # (key, desc, replay_path)
        self.known_hit = []        # (key, what)
        self.inconclusive = []
        self.known = [k for k in load_known() if k.get('property') == pid and k.get('kind') == 'finding']
        self.assumptions = []
        self.trusted = set()
        self.functions = {}
        self.validation = {'vectors': 0, 'disagreements': 0, 'notes': []}
        self.programs = {}
        self.explanation = ''
        self.extra_cov = {}
        self.timeout_ms = 60000 if self.tier == 'quick' else 600000

    @property
    def thorough(self):
        return self.tier == 'thorough'

    # ------------------------------------------------------------------ programs
    def program(self, flavour='on', with_sqlparser=False):
        key = (flavour, with_sqlparser)
        if key not in self.programs:
            self.programs[key] = mbuild.load_program(flavour, with_sqlparser)
        return self.programs[key]

    def interp(self, prog, name, havoc=False):
        return Interp(prog, seed=self.seed, timeout_ms=self.timeout_ms, havoc=havoc, name=name)

    # ------------------------------------------------------------------ obligations
    def begin(self, name, desc, bounds=None):
        ob = Obligation(name, desc, bounds)
        ob._t = time.time()
        self.obligations.append(ob)
        return ob

    def absorb(self, ob, ip):
        """Merge an interpreter's statistics into the obligation and the check."""
        ob.stats.merge(ip.stats)
        ob.paths += ip.stats.paths
        self.functions.update(ip.stats.functions)
        for k in ip.stats.models_hit:
            self.trusted.add('model:' + k)
        for k in ip.stats.havoced:
            self.trusted.add('havoc:' + k)

    def end(self, ob, status=None):
        ob.wall = time.time() - ob._t
        if status:
            ob.status = status
        elif ob.status == 'pending':
            ob.status = 'discharged'
        return ob

    def is_known(self, key):
        for k in self.known:
            if k.get('key') == key:
                return k
        return None

    def parallel(self, fn, arglist, workers=None):
        """Run fn(sub_check, *args) for each args in arglist in forked worker processes; merge obligations,
        statistics and (data-only) reports into this check."""
        import concurrent.futures as cf, multiprocessing as mp
        workers = workers or min(len(arglist), int(os.environ.get('VERIF_JOBS', '12')))
        if workers <= 1 or len(arglist) <= 1:
            for a in arglist:
                fn(self, *a)
            return
        ctx = mp.get_context('fork')
        with cf.ProcessPoolExecutor(max_workers=workers, mp_context=ctx) as ex:
            futs = [ex.submit(_worker, self, fn, a) for a in arglist]
            for f in futs:
                res = f.result()
                for ob in res['obligations']:
                    self.obligations.append(ob)
                self.functions.update(res['functions'])
                self.trusted |= res['trusted']
                for m in res['inconclusive']:
                    self.inconclusive.append(m)
                for a in res['assumptions']:
                    if a not in self.assumptions:
                        self.assumptions.append(a)
                byname = {o.name: o for o in res['obligations']}
                for (obname, key, what, witness, replay) in res['reports']:
                    self.report(byname.get(obname) or self.obligations[-1], key, what, witness, replay)

    def report(self, ob, key, what, witness, replay):
        """A candidate violation.  `replay` = dict(commands=[...], expect=callable(results)->(bool, detail)).
        Known (listed) findings print KNOWN-FINDING; others are replayed natively and only reported when
        they reproduce."""
        if getattr(self, 'defer_reports', None) is not None:
            if not any(r[1] == key for r in self.defer_reports):
                self.defer_reports.append((ob.name, key, what, witness, replay))
            if ob.status in ('pending', 'discharged'):
                ob.status = 'reported'
            return 'deferred'
        k = self.is_known(key)
        if k is not None:
            if not any(x[0] == key for x in self.known_hit):
                self.known_hit.append((key, k.get('what', what), witness))
            if ob.status in ('pending', 'discharged'):
                ob.status = 'known'
            return 'known'
        if any(v[0] == key for v in self.violations):
            return 'dup'
        path, ok, detail = self.replay(key, what, witness, replay)
        if ok:
            self.violations.append((key, what, path))
            ob.status = 'violated'
            return 'violation'
        self.inconclusive.append("counterexample for %s did not reproduce natively (%s): encoder or model is wrong; see %s"
                                 % (key, detail, path))
        ob.status = 'inconclusive'
        return 'inconclusive'

    def replay(self, key, what, witness, replay):
        from native import oracle
        h = hashlib.sha256((key + json.dumps(witness, sort_keys=True, default=str)).encode()).hexdigest()[:12]
        d = os.path.join(VERIF, 'replays', self.pid, h)
        os.makedirs(d, exist_ok=True)
        rec = {'property': self.pid, 'key': key, 'what': what, 'witness': witness,
               'commands': replay.get('commands', []),
               'expect': replay.get('expect') if not callable(replay.get('expect')) else replay.get('expect_desc', '')}
        ok, detail = False, ''
        try:
            profiles = ['dev'] + (['release'] if self.thorough else [])
            results = {}
            for prof in profiles:
                results[prof] = oracle.run(replay['commands'], prof)
            rec['results'] = results
            exp = resolve_expect(replay['expect'])
            ok, detail = exp(results['dev'])
            if ok and 'release' in results:
                ok2, d2 = exp(results['release'])
                rec['release_reproduces'] = ok2
                detail += ' | release: ' + d2
        except Exception as e:      # noqa: BLE001
            detail = 'replay failed: %r' % (e,)
        rec['reproduced'] = ok
        rec['detail'] = detail
        json.dump(rec, open(os.path.join(d, 'replay.json'), 'w'), indent=1, default=str)
        return d, ok, detail

    def note_inconclusive(self, msg):
        self.inconclusive.append(msg)

    # ------------------------------------------------------------------ validation (translator validation)
    def validated(self, n, disagreements=0, note=''):
        self.validation['vectors'] += n
        self.validation['disagreements'] += disagreements
        if note:
            self.validation['notes'].append(note)
        if disagreements:
            self.inconclusive.append("translator validation disagreement: " + note)

    # ------------------------------------------------------------------ finish
    def finish(self):
        wall = time.time() - self.t0
        obs = self.obligations
        evaluations = sum(o.stats.queries for o in obs) + sum(o.extra.get('extra_queries', 0) for o in obs)
        nontrivial = sum(o.nontrivial for o in obs)
        samples = []
        for o in obs:
            for s in o.samples[:3]:
                samples.append({'obligation': o.name, 'case': s})
        if not samples:
            samples = [{'obligation': o.name, 'desc': o.desc} for o in obs[:3]] or [{'note': 'no obligations ran'}]
        ev = {
            'property_id': self.pid,
            'tier': self.tier,
            'seed': self.seed,
            'level': 'other',
            'coverage': {
                'explanation': self.explanation,
                'evaluations': max(1, evaluations),
                'distinct_nontrivial': nontrivial,
                'rule': 'evaluations = SMT queries discharged (feasibility, assertion and witness queries); '
                        'distinct_nontrivial = distinct (obligation, shape, path) triples whose path condition is '
                        'non-empty or whose assertion query needed the solver (counted by the engine)',
                'samples': samples[:12],
                'obligations': len(obs),
                'discharged': sum(1 for o in obs if o.status in ('discharged',)),
                'obligation_detail': [o.to_json() for o in obs],
                'functions_encoded': [{'fn': k, 'mir_sha256': v} for k, v in sorted(self.functions.items())],
                'mir': {k[0]: {'tree_hash': p.tree_hash, 'file': os.path.basename(p.mir_path)} for k, p in self.programs.items()},
                'trusted_base': sorted(self.trusted),
                'translator_validation': self.validation,
                'solver': 'z3 %s (python API), per-query timeout %d ms' % (z3_version(), self.timeout_ms),
                'solver_s': round(sum(o.stats.solver_s for o in obs), 3),
                'known_findings_hit': [k for k, _, _ in self.known_hit],
                'inconclusive': self.inconclusive,
                **self.extra_cov,
            },
            'assumptions': self.assumptions,
            'wall_s': round(wall, 2),
            'violations': len(self.violations),
        }
        edir = os.environ.get('VERIF_EVIDENCE_DIR') or os.path.join(VERIF, 'evidence')      # (development probes write elsewhere)
        os.makedirs(edir, exist_ok=True)
        json.dump(ev, open(os.path.join(edir, self.pid + '.json'), 'w'), indent=1, default=str)
        for key, what, w in self.known_hit:
            print("KNOWN-FINDING: property=%s %s [%s]" % (self.pid, what, key))
        for o in obs:
            print("  %-28s %-12s paths=%d queries=%d solver=%.2fs wall=%.1fs" %
                  (o.name, o.status, o.paths, o.stats.queries, o.stats.solver_s, o.wall))
        for key, what, path in self.violations:
            print("VIOLATION property=%s replay=%s" % (self.pid, path))
            print("  what: %s [%s]" % (what, key))
        if self.violations:
            return 1
        if self.inconclusive or any(o.status in ('inconclusive', 'vacuous', 'pending') for o in obs):
            for m in self.inconclusive:
                print("INCONCLUSIVE: " + m)
            for o in obs:
                if o.status in ('vacuous', 'pending', 'inconclusive'):
                    print("INCONCLUSIVE: obligation %s is %s" % (o.name, o.status))
            return 2
        print("OK property=%s tier=%s obligations=%d queries=%d wall=%.1fs" % (self.pid, self.tier, len(obs), evaluations, wall))
        return 0


def _worker(parent, fn, args):
    sub = Check(parent.pid, ['--tier', parent.tier])
    sub.seed = parent.seed
    sub.programs = parent.programs
    sub.defer_reports = []
    try:
        fn(sub, *args)
    except Inconclusive as e:
        sub.note_inconclusive('%s%r: %s' % (fn.__name__, args, e))
    except Exception as e:      # noqa: BLE001
        sub.note_inconclusive('%s%r: internal error %r\n%s' % (fn.__name__, args, e, traceback.format_exc()[-1500:]))
    for o in sub.obligations:
        if not o.wall:
            o.wall = time.time() - getattr(o, '_t', time.time())
        if o.status == 'pending':
            o.status = 'inconclusive'
        if o.status == 'reported':
            o.status = 'discharged'     # parent decides (known / violated) when it processes the reports
    return {'obligations': sub.obligations, 'functions': sub.functions, 'trusted': sub.trusted,
            'inconclusive': sub.inconclusive, 'assumptions': sub.assumptions, 'reports': sub.defer_reports}


def z3_version():
    import z3
    return z3.get_version_string()


def run_check(pid, main, argv=None):
    """Create the Check, run main(check); Inconclusive / unexpected exceptions -> exit 2 (never 0).
    The evidence file is always rewritten."""
    chk = Check(pid, argv)
    try:
        main(chk)
    except Inconclusive as e:
        chk.note_inconclusive(str(e))
        traceback.print_exc()
    except Exception as e:     # noqa: BLE001
        chk.note_inconclusive("internal error %r" % (e,))
        traceback.print_exc()
    for o in chk.obligations:
        if not hasattr(o, 'wall') or o.wall == 0.0:
            o.wall = time.time() - getattr(o, '_t', time.time())
    rc = chk.finish()
    sys.stdout.flush()
    sys.exit(rc)
