"""Helpers to build symbolic pre-states of pgcat structs with the real field layout."""
import z3
from mirsym.interp import Inconclusive
from mirsym.values import *


def field_index(prog, struct, name):
    fs = prog.src.structs.get(struct)
    if fs is None or name not in fs:
        raise Inconclusive("struct %s has no field %s (source changed?)" % (struct, name))
    return fs.index(name)


def setf(prog, agg, struct, name, val):
    i = field_index(prog, struct, name)
    if not isinstance(agg, Agg) or i >= len(agg.fields):
        raise Inconclusive("value is not a %s" % struct)
    agg.fields[i] = val


def getf(prog, agg, struct, name):
    return agg.fields[field_index(prog, struct, name)]


def opt_none():
    return EnumV(BV(64, 0), {}, 'Option')


def opt_some(v):
    return EnumV(BV(64, 1), {'Some': [v]}, 'Option')


def sym_option(ip, payload, hint):
    """Option<T> with symbolic discriminant and the given (symbolic) payload."""
    d = ip.fresh(64, hint + '_is_some')
    ip.assume(z3.ULE(d.v, 1))
    return EnumV(d, {'Some': [payload]}, 'Option')


def sym_bool(ip, hint):
    return ip.fresh(1, hint)


def sym_enum(ip, tyname, hint, allowed=None):
    """Field-less enum with symbolic discriminant restricted to the declared variants."""
    info = ip.enum_info(tyname)
    d = ip.fresh(64, hint)
    vals = [dv for n, dv in info if allowed is None or n in allowed]
    ip.assume(z3.Or(*[d.v == v for v in vals]))
    return EnumV(d, {}, tyname)


def role_name(v):
    return {0: 'primary', 1: 'replica', 2: 'mirror'}.get(v)


def msg_Q(query_bytes):
    """Simple-protocol Query message from a list of 8-bit values (no NUL inside assumed by caller)."""
    n = len(query_bytes) + 5
    return Seq([BV(8, ord('Q'))] + [BV(8, b) for b in n.to_bytes(4, 'big')] + list(query_bytes) + [BV(8, 0)], 'bytesmut')
