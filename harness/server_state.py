"""Build a `server::Server` value (real field layout) for the interpreter: scripted stream, symbolic flags."""
import re
import z3
from mirsym.interp import Inconclusive
from mirsym.values import *
from mirsym.models.io import StreamV
from mirsym.models.util import mkstr, unit, some, none
from .pgcat_state import *

TRACKED = ['client_encoding', 'DateStyle', 'TimeZone', 'standard_conforming_strings', 'application_name']


def rstring(s):
    return mkstr(s, 'string')


_INT_W = {'bool': 1, 'u8': 8, 'i8': 8, 'u16': 16, 'i16': 16, 'u32': 32, 'i32': 32, 'u64': 64, 'i64': 64, 'usize': 64, 'isize': 64}


def arbitrary_of_type(ip, ty, label):
    """A value of a plain-data type the harness has no opinion about: integers and booleans are fresh symbols, Option<T> is None or Some
    (solver's choice), tuples are built fieldwise.  None when the type is anything else."""
    ty = ty.strip()
    if ty in _INT_W:
        return ip.fresh(_INT_W[ty], label)
    m = re.match(r'^(?:std::option::|core::option::)?Option<(.*)>$', ty)
    if m:
        inner_ty = m.group(1)
        if arbitrary_of_type(ip, inner_ty, label + '_probe') is None:
            return None
        if ip.choose(2, 'auto_' + label) == 0:
            return none(ip)
        return some(ip, arbitrary_of_type(ip, inner_ty, label))
    if ty.startswith('(') and ty.endswith(')'):
        parts = [x.strip() for x in ty[1:-1].split(',') if x.strip()]
        vs = [arbitrary_of_type(ip, x, '%s_%d' % (label, i)) for i, x in enumerate(parts)]
        if any(v is None for v in vs):
            return None
        return Agg(vs, 'tuple')
    return None


def mk_struct(prog, name, _ip=None, **vals):
    names = prog.src.structs.get(name)
    if names is None:
        raise Inconclusive("unknown struct " + name)
    missing = [n for n in names if n not in vals]
    if missing and _ip is not None:
        # a field this harness does not know (the tree under test added it): plain data gets an arbitrary value of its type -- every state
        # the new field could be in, reachable or not (a report that rests on an unreachable one does not replay natively)
        types = dict(zip(names, prog.src.struct_types.get(name) or []))
        for n in list(missing):
            v = arbitrary_of_type(_ip, types.get(n, ''), '%s_%s' % (name, n))
            if v is not None:
                vals[n] = v
                missing.remove(n)
                _ip.env.setdefault('assumptions', set()).add('field %s.%s is unknown to the harness: given an arbitrary value of type %s' % (name, n, types.get(n)))
    if missing:
        raise Inconclusive("struct %s: no value for fields %r (source changed?)" % (name, missing))
    return Agg([vals[n] for n in names], name, list(names))


def mk_address(prog, role=None, shard=0, host='h', port=5432):
    return mk_struct(prog, 'Address', id=BV(64, 0), host=rstring(host), port=BV(16, port), shard=BV(64, shard), database=rstring('db'),
                     role=role if role is not None else EnumV(BV(64, 1), {}, 'Role'), replica_number=BV(64, 0), address_index=BV(64, 0),
                     username=rstring('u'), pool_name=rstring('p'), mirrors=Seq([], 'vec'),
                     stats=Ptr(Cell(Opaque('AddressStats', 'stats'), 'astats')), error_count=Ptr(Cell(Agg([BV(64, 0)], 'Atomic'), 'errcount')))


def mk_server_params(prog, values=None):
    m = MapV('hashmap')
    vals = values or {'client_encoding': 'UTF8', 'DateStyle': 'ISO, MDY', 'TimeZone': 'Etc/UTC',
                      'standard_conforming_strings': 'on', 'application_name': 'pgcat'}
    for k in TRACKED:
        if k in vals:
            v = vals[k]
            m.entries.append([rstring(k), Cell(v if isinstance(v, Seq) else rstring(v), 'param')])
    return mk_struct(prog, 'ServerParameters', parameters=m)


def mk_server(ip, prog, stream, **over):
    """Server with concrete defaults; override any field by name."""
    vals = dict(
        address=mk_address(prog),
        stream=stream,
        buffer=Seq([], 'bytesmut'),
        server_parameters=mk_server_params(prog),
        process_id=BV(32, 1111), secret_key=BV(32, 2222),
        in_transaction=BV(1, 0), data_available=BV(1, 0), in_copy_mode=BV(1, 0), bad=BV(1, 0),
        cleanup_state=mk_struct(prog, 'CleanupState', needs_cleanup_set=BV(1, 0), needs_cleanup_prepare=BV(1, 0)),
        client_server_map=Ptr(Cell(Agg([MapV('hashmap')], 'Lock'), 'csmap')),
        connected_at=Opaque('NaiveDateTime', 'connected_at'),
        stats=Ptr(Cell(Opaque('ServerStats', 'stats'), 'sstats')),
        application_name=rstring('app'),
        last_activity=Agg([BV(64, 0)], 'SystemTime'),
        mirror_manager=none(ip),
        addr_set=none(ip),
        cleanup_connections=BV(1, 1),
        log_client_parameter_status_changes=BV(1, 0),
        prepared_statement_cache=none(ip),
        registering_prepared_statement=Seq([], 'vecdeque'),
    )
    vals.update(over)
    return mk_struct(prog, 'Server', _ip=ip, **vals)


def install_stats_noops(ip):
    """ServerStats / AddressStats / ClientStats bookkeeping is not property-relevant here: no-ops."""
    def noop(c, *a):
        t = (c.dest_ty or '').strip()
        if t in ('()', ''):
            return unit()
        return ip.fresh_of_type(t, 'stat')
    ip.overrides.append((re.compile(r'^(?:stats::\w+::)?(?:ServerStats|AddressStats|ClientStats|PoolStats)::\w+$'), noop))


def sfield(prog, server, name):
    return getf(prog, server, 'Server', name)


def lru(names, cap):
    m = MapV('lru', cap=cap)
    for n in names:
        m.entries.append([n if isinstance(n, Seq) else rstring(n), Cell(unit(), 'lruval')])
    return m


def mk_client(ip, prog, write_stream=None, **over):
    """client::Client<S, T> with concrete defaults (field layout from the source)."""
    from mirsym.models.io import StreamV
    vals = dict(
        read=Opaque('BufReader', 'client_read'),
        write=write_stream if write_stream is not None else StreamV([], 'client'),
        buffer=Seq([], 'bytesmut'),
        response_message_queue_buffer=Seq([], 'bytesmut'),
        addr=Opaque('SocketAddr', 'addr'),
        cancel_mode=BV(1, 0), transaction_mode=BV(1, 1),
        process_id=BV(32, 7001), secret_key=BV(32, 7002),
        client_server_map=Ptr(Cell(Agg([MapV('hashmap')], 'Lock'), 'csmap')),
        parameters=MapV('hashmap'),
        stats=Ptr(Cell(Opaque('ClientStats', 'stats'), 'cstats')),
        admin=BV(1, 0),
        last_address_id=none(ip), last_server_stats=none(ip),
        connected_to_server=BV(1, 0),
        pool_name=rstring('db'), username=rstring('u'),
        server_parameters=mk_server_params(prog),
        shutdown=Opaque('Receiver', 'shutdown'),
        prepared_statements_enabled=BV(1, 0),
        prepared_statements=MapV('hashmap'),
        extended_protocol_data_buffer=Seq([], 'vecdeque'),
    )
    vals.update(over)
    return mk_struct(prog, 'Client', **vals)
