#!/usr/bin/env python3-vt
"""C17 -- shutdown is graceful: the client-facing half (refusal of new non-admin clients, idle clients told and disconnected, a transaction
in progress allowed to finish).  The signal handling and exit timing of main.rs are outside what is decided here."""
import os, sys
sys.path.insert(0, os.path.dirname(os.path.dirname(os.path.abspath(__file__))))
from harness.common import run_check
from checks import hobl
from checks import c09


def main(chk):
    chk.explanation = (
        'Solver-based checking of the client-facing half of C17, executed from MIR. (O1) Client::startup with admin_only = true (what the accept '
        'loop passes once shutdown has begun): a non-admin client is refused whatever it answers to the challenge, an admin client is still '
        'admitted (the C09 startup obligation instantiated for shutdown). (H) The real Client::handle coroutine on sessions during which the '
        'shutdown broadcast may arrive at ANY select! (solver\'s choice, either polling order of the two select! branches): the signal is acted '
        'on only while the session holds no server (a transaction in progress is finished first, its statements forwarded and answered as '
        'usual), the client is then sent "terminating connection due to administrator command" and the session ends; nothing it sent '
        'before is lost.  NOT decided: main.rs (SIGINT/SIGTERM handling, the admin SHUTDOWN command reaching the signal channel, exit once '
        'all clients have left or shutdown_timeout has passed) -- OS signals and the accept/drain select! loop are not encodable.')
    chk.assumptions += [
        'main.rs is outside the claim: that SIGINT sets admin_only and sends the broadcast, that the process exits on drain / shutdown_timeout, that SIGTERM exits immediately',
        'session-mode clients hold their server for the whole session and therefore never observe the signal (the property speaks of transaction-mode clients)',
        'tokio broadcast::Receiver::recv yields a sent value exactly once (library contract)',
    ]
    prog = chk.program('on')
    tasks = []
    for ln in (0, 36):
        tasks.append((c09.o1_startup, (prog, 'u', 'db', ln, 'md5', True)))
    tasks.append((c09.o1_startup, (prog, 'u', 'db', 0, 'trust', True)))
    tasks.append((c09.o1_startup, (prog, 'admin', 'pgcat', 36, 'none', True)))
    tasks.append((c09.o1_startup, (prog, 'admin', 'pgbouncer', 36, 'none', True)))
    chk.parallel(c09._dispatch, tasks)
    hobl.handle_obligations(chk, prog, {'C17'}, ['shutdown'])


if __name__ == '__main__':
    run_check('C17', main)
