#!/usr/bin/env python3-vt
"""C17 -- shutdown is graceful: the client-facing half (refusal of new non-admin clients, idle clients told and disconnected, a transaction
in progress allowed to finish) and the accept / signal / drain loop of main.rs (checks/mainloop.py, from the MIR of the binary target)."""
import os, sys
sys.path.insert(0, os.path.dirname(os.path.dirname(os.path.abspath(__file__))))
import re, struct
import z3
from harness.common import run_check, expectation
from checks.serverfam import *
from mirsym.models.util import ok, err
from checks import hobl
from checks import c09
from checks import fromconfig as FC
from harness.server_state import mk_client


@expectation('c17_drain')
def c17_drain():
    """Native confirmation: the real client_entrypoint over loopback TCP for a client that terminates, one whose socket drops and one
    whose startup fails; the drain channel must sum to 0 each time (and count an admitted client)."""
    def f(res):
        bad = []
        for r in res:
            if 'error' in r or 'panic' in r:
                return False, 'native: %r' % (r,)
            if r['sum'] != 0 or (r['logged_in'] and r['drain'][:1] != [1]) or (not r['logged_in'] and r['drain']):
                bad.append(r)
        return bool(bad), 'native client_entrypoint runs: %r' % (res,)
    return f


@expectation('c17_never')
def c17_never():
    return lambda res: (False, 'no native replay is defined for the entry-point accounting obligation (a counterexample is reported as inconclusive)')


@expectation('c17_late')
def c17_late():
    def f(res):
        for r in res:
            if 'error' in r or 'panic' in r:
                return False, 'native: %r' % (r,)
            if r.get('admitted'):
                return True, 'native: with admin_only set (shutdown begun) a new non-admin client (%s) was admitted: %r' % (r.get('scenario'), r)
        return False, 'native: late clients are refused on every connection path: %r' % (res,)
    return f


@expectation('c17_resub')
def c17_resub():
    """Native: the real Client::startup with the shutdown broadcast sent while the MD5 challenge is outstanding, then the real Client::handle:
    the client must be refused or told 'terminating connection due to administrator command'."""
    def f(res):
        for r in res:
            if 'error' in r or 'panic' in r:
                return False, 'native: %r' % (r,)
            if r.get('admitted') and not r.get('told_shutdown'):
                return True, 'native: a client whose login straddles the shutdown broadcast is admitted and never told: %r' % (r,)
        return False, 'native: such a client is refused or told: %r' % (res,)
    return f


@expectation('c17_main')
def c17_main():
    """Native confirmation for the accept loop: the real pgcat binary run as a child process under the event script (signals sent with
    kill(2), clients over loopback TCP, a scripted PostgreSQL behind it), judged by the same rules."""
    def f(res):
        for r in res:
            if 'error' in r or r.get('problems') is None:
                return False, 'native: %r' % (r.get('error'),)
            if r['problems']:
                return True, 'native (real process, events %s): %s; exited=%s, logins=%s, after each event: %s' % (
                    r['script'], ', '.join(r['problems']), r['exited'], r['logins'], [(s['event'], 'exited' if s['exited'] else 'running') for s in r['steps']])
        return False, 'native: the real process behaves as specified under %s' % ([r['script'] for r in res],)
    return f


def o3_main_loop(chk, bprog, first, n, prop='C17', only=None, oname='O3'):
    """The accept / signal / drain loop of main.rs from the MIR of the binary target, under every event script of length <= n that starts
    with `first`."""
    from checks import mainloop
    scs = [s for s in mainloop.scripts(n, chk.thorough) if (s[:1] or ('',))[0] == first]
    ob = chk.begin('%s-main-loop-%s' % (oname, first or 'empty'), 'the coroutine main() hands to block_on (src/main.rs: bind, pools, signal handlers, the select! loop over SIGHUP / SIGINT / '
                   'SIGTERM / accept / exit channel / drain channel, the client tasks and the shutdown timer it spawns) executed from the MIR of the binary target under every '
                   'event script of length <= %d beginning with %r (%d scripts; events: SIGINT, SIGTERM, SIGHUP, a client connecting, its login being counted, a counted '
                   'client leaving, accept() failing, shutdown_timeout passing); which select! branch is polled first is the solver\'s choice; general.shutdown_timeout is '
                   'symbolic. Decided: SIGTERM ends the loop; SIGINT ends it once the drain count is back at 0 or the timer has run for shutdown_timeout ms, and not before; '
                   'nothing else ends it; SIGINT sends the shutdown broadcast to every client task already started; a client task accepted after SIGINT is started with '
                   'admin_only = true (before: false), with its own broadcast subscription taken in the loop, and passes both to client_entrypoint; SIGHUP calls '
                   'reload_config once per signal' % (n, first, len(scs)), {'scripts': len(scs), 'max_events': n})
    seen = set()

    def report(key, what, script):
        if key in seen or (only is not None and key not in only):
            return
        seen.add(key)
        native = [e for e in script]
        # what the real process can show: a login that is still outstanding is completed (admitted or refused is the observation); the
        # timer needs a client that keeps the process alive
        if key == 'timeout-period' or key == 'timeout-ignored':
            native = ['client', 'counted', 'int', 'timeout']
        elif key in ('no-broadcast', 'no-subscription'):
            native = ['idle_client', 'int']
        else:
            native += ['counted'] * (native.count('client') - native.count('counted'))
        chk.report(ob, '%s/%s/%s' % (prop, oname, key), what, {'events': list(script)}, {'commands': [{'op': 'main_process', 'script': native}], 'expect': ['c17_main']})
    for sc in scs:
        mainloop.run_script(chk, ob, bprog, sc, {prop}, report)
    chk.end(ob)


def o4_admin_shutdown(chk, prog):
    """The admin console's SHUTDOWN: the same as SIGINT -- handle_admin from MIR sends SIGINT to the pooler's own process id (and to nothing else,
    for no other command), and answers the admin client."""
    ob = chk.begin('O4-admin-shutdown', 'admin::handle_admin (real coroutine) on the admin commands SHUTDOWN (several spellings) and, for contrast, SET / RELOAD-free commands: '
                   'nix::sys::signal::kill is called exactly once for a SHUTDOWN, with the pooler\'s OWN process id (symbolic) and SIGINT, the admin client gets '
                   'CommandComplete SHUTDOWN + ReadyForQuery; no other command signals anything. From there on it is the SIGINT arm of main.rs (O3)', {})
    ha = prog.funcs.get('handle_admin')
    if ha is None:
        raise Inconclusive('cannot locate admin::handle_admin')
    ip = chk.interp(prog, 'O4-admin-shutdown')
    install_stats_noops(ip)
    base = list(ip.overrides)
    cases = [(b'SHUTDOWN', True), (b'shutdown;', True), (b'  ShutDown  ;', True), (b'SET client_encoding TO utf8', False), (b'SHUTDOWNS', False)]

    def harness(ip_):
        ip_.overrides[:] = base
        k = ip_.choose(len(cases), 'admin_command')
        q, is_shutdown = cases[k]
        calls = []
        pid = ip_.fresh(32, 'own_pid')
        ip_.assume(z3.ULT(pid.v, 1 << 31))
        ip_.overrides[:0] = [
            (re.compile(r'signal::kill(?:::<.*>)?$'), lambda c, p_, sig: (calls.append((p_, sig)), ok(ip_, unit()))[1]),
            (re.compile(r'^std::process::id$'), lambda c: pid),
            (re.compile(r'Pid::from_raw$'), lambda c, raw: Opaque('Pid', 'pid', raw)),
        ]
        body = [BV(8, x) for x in b'Q' + (len(q) + 5).to_bytes(4, 'big') + q + b'\0']
        st = StreamV([], 'admin_client')
        csm = Ptr(Cell(Agg([MapV('hashmap')], 'Lock'), 'csmap'))
        try:
            r = ip_.drive(ip_.call_function(ha, [Ptr(Cell(st, 'stream')), Seq(body, 'bytesmut'), csm]))
        except Panic as p:
            if not is_shutdown:
                return
            raise Inconclusive('handle_admin panic: ' + p.msg)
        except Inconclusive:
            if not is_shutdown:
                if calls:
                    pass
                else:
                    return          # (a command this harness has no environment for; it did not signal anything before that)
            else:
                raise
        ob.nontrivial += 1
        what = None
        if is_shutdown:
            if len(calls) != 1:
                what = 'the admin command %r sends %d signals (exactly one SIGINT to the pooler itself is required)' % (q.decode(), len(calls))
            else:
                p_, sig = calls[0]
                raw = p_.data if isinstance(p_, Opaque) else None
                signame = getattr(sig, 'ty', None) or repr(sig)
                if not isinstance(raw, BV) or ip_.is_sat(z3.Extract(31, 0, z3.ZeroExt(32, raw.z()) if raw.w < 32 else raw.z()) != pid.z()):
                    what = 'the admin command %r signals process %r, not the pooler\'s own process id' % (q.decode(), raw)
                elif 'SIGINT' not in str(signame):
                    what = 'the admin command %r sends %s, not SIGINT (the graceful-shutdown signal of main.rs)' % (q.decode(), signame)
                else:
                    out = bytes(b.v for b in st.out if b.concrete)
                    if b'SHUTDOWN\x00' not in out or not out.endswith(b'Z\x00\x00\x00\x05I'):
                        what = 'the admin client is not answered with CommandComplete SHUTDOWN + ReadyForQuery'
        elif calls:
            what = 'the admin command %r, which is not SHUTDOWN, sends a signal' % (q.decode(),)
        if what:
            chk.report(ob, 'C17/O4/admin-shutdown', what, {'command': q.decode()},
                       {'commands': [{'op': 'main_process', 'script': ['client', 'counted', 'admin_shutdown', 'left']}], 'expect': ['c17_main']})
        if len(ob.samples) < 3:
            ob.samples.append({'command': q.decode(), 'signals': len(calls)})
    ip.explore(harness)
    chk.absorb(ob, ip)
    chk.end(ob)


def o2_entrypoint(chk, prog):
    """client_entrypoint from MIR: whatever the first packet is (startup / SSL request without TLS configured / cancel request / junk) and
    however startup and the session end, the drain channel -- the count main() waits on to exit "once all clients have left" -- gets
    +1 exactly when a non-admin client was admitted and -1 exactly once when that client's session is over."""
    ob = chk.begin('O2-entrypoint-drain', 'client_entrypoint (real coroutine): first packet code SYMBOLIC (startup, SSL request with no TLS configured followed '
                   'by a second packet, cancel request, anything else), Client::startup / Client::cancel succeed or fail, the client is admin or not, '
                   'the session (Client::handle) ends Ok or Err -- all solver choices: the values sent on the drain channel sum to 0 on every path, '
                   '+1 is sent iff a non-admin client was admitted, and a session that ended in error has its statistics entry removed',
                   {'first_packet': 'symbolic code', 'outcomes': 'symbolic'})
    f = fn(prog, 'client_entrypoint')
    ip = chk.interp(prog, 'O2-entrypoint-drain')
    install_stats_noops(ip)
    base = list(ip.overrides)

    def harness(ip_):
        ip_.overrides[:] = base
        sent = []
        flags = {}
        code = ip_.fresh(32, 'first_code')
        code2 = ip_.fresh(32, 'second_code')
        from harness import wire
        pkt = lambda c: wire.be(8 + 5, 4) + [bv(8, z3.Extract(31 - 8 * i, 24 - 8 * i, c.z())) for i in range(4)] + [BV(8, x) for x in b'user\0']
        st = StreamV(pkt(code) + pkt(code2), 'tcp')
        client = mk_client(ip_, prog, admin=ip_.fresh(1, 'is_admin'))

        admin_only = ip_.fresh(1, 'admin_only')
        log_conns = ip_.fresh(1, 'log_client_connections')

        def start(c, *a):
            # whichever way the client connected (plain, TLS, plain after a declined SSL request) the shutdown state of the accept loop
            # -- admin_only -- is what the startup code is told (Client::startup / startup_tls take it as their last argument)
            if not c.callee.endswith('cancel'):
                flags['startups'] = flags.get('startups', 0) + 1
                got = a[-1]
                if not isinstance(got, BV) or got.w != 1 or ip_.is_sat(got.z() != admin_only.z()):
                    flags['admin_only_lost'] = c.callee
            if ip_.choose(2, 'startup_ok') == 1:
                flags['admitted'] = True
                return Opaque('HookFuture', 'ready', ok(ip_, client))
            return Opaque('HookFuture', 'ready', err(ip_, ip_.make_enum('Error', 'ClientBadStartup')))

        def handle(c, p):
            flags['handled'] = flags.get('handled', 0) + 1
            r = ok(ip_, unit()) if ip_.choose(2, 'session_ok') == 1 else err(ip_, ip_.make_enum('Error', 'ClientBadStartup'))
            flags['result_err'] = (variant(ip_, r, 'Result') == 'Err')
            return Opaque('HookFuture', 'ready', r)

        def send(c, p, v):
            sent.append(v)
            return Opaque('HookFuture', 'ready', ok(ip_, unit()))

        def disc(c, *a):
            flags['disconnects'] = flags.get('disconnects', 0) + 1
            return unit()
        ip_.overrides[:0] = [
            (re.compile(r'^(?:client::)?Client::<.*>::(startup|cancel)$|^(?:client::)?startup_tls$'), start),
            (re.compile(r'^(?:client::)?Client::<.*>::handle$'), handle),
            (re.compile(r'^(?:tokio::sync::mpsc::)?(?:bounded::)?Sender::<i32>::send$'), send),
            (re.compile(r'^(?:stats::\w+::)?ClientStats::disconnect$'), disc),
            (re.compile(r'TcpStream::peer_addr$'), lambda c, p: ok(ip_, Opaque('SocketAddr', 'addr'))),
            (re.compile(r'^tokio::io::split::<'), lambda c, s_: Agg([s_, s_], 'tuple')),
        ]

        def poll_hook(ip2, co, ptr):
            if isinstance(co, Opaque) and co.ty == 'HookFuture' and co.tag == 'ready':
                return EnumV(BV(64, 0), {'Ready': [co.data]}, 'Poll')
            raise Inconclusive('poll of %r' % (co,))
        ip_.poll_hook = poll_hook
        csm = Ptr(Cell(Agg([MapV('hashmap')], 'Lock'), 'csmap'))
        try:
            r = ip_.drive(ip_.call_function(f, [st, csm, Opaque('Receiver', 'shutdown'), Ptr(Cell(Opaque('Sender', 'drain'), 'drain')), admin_only, none(ip_), log_conns]))
        except Panic as p:
            raise Inconclusive('client_entrypoint panic: ' + p.msg)
        ob.nontrivial += 1
        vals = [v.v if v.concrete else None for v in sent]
        is_admin = decide(ip_, client.fields[prog.src.structs['Client'].index('admin')].z() == 1) if flags.get('admitted') else None
        total = sum(x for x in vals if x is not None)
        total = total - (1 << 32) * sum(1 for x in vals if x is not None and x >= (1 << 31))

        def rep(key, what):
            chk.report(ob, 'C17/O2/' + key, what + ' (drain sends %r, admitted=%s, admin=%s, session error=%s)' % (vals, flags.get('admitted'), is_admin, flags.get('result_err')),
                       {}, {'commands': [{'op': 'entrypoint_drain', 'scenario': sc} for sc in ('terminate', 'drop', 'bad_startup')], 'expect': ['c17_drain']})
        if None in vals:
            rep('symbolic-count', 'a symbolic value is sent on the drain channel')
        elif total != 0:
            rep('drain-unbalanced', 'the drain channel is left at %+d: main() would %s' % (total, 'wait for a client that has already left until shutdown_timeout' if total > 0 else 'exit while a client is still connected'))
        elif flags.get('admitted') and is_admin is False and vals[:1] != [1]:
            rep('drain-not-counted', 'a non-admin client was admitted without being counted')
        elif (not flags.get('admitted') or is_admin) and vals:
            rep('drain-counted-wrongly', 'the drain channel is used for a client that is admin or was never admitted')
        if flags.get('admin_only_lost'):
            chk.report(ob, 'C17/O2/admin-only-not-passed', 'client_entrypoint starts a client (%s) with an admin_only flag that is not the one the accept loop passed: '
                       'while shutting down, a new non-admin client connecting this way would be admitted' % flags['admin_only_lost'],
                       {'first_code': str(ip_.model_for().eval(code.z(), True)), 'second_code': str(ip_.model_for().eval(code2.z(), True))},
                       {'commands': [{'op': 'entrypoint_drain', 'scenario': 'late_ssl_declined'}, {'op': 'entrypoint_drain', 'scenario': 'late_plain'}], 'expect': ['c17_late']})
        if flags.get('result_err') and not flags.get('disconnects'):
            chk.report(ob, 'C18/O2/err-session-not-unregistered', 'a session that ended in error is not removed from the statistics by the entry point', {}, {'commands': [], 'expect': ['c17_never']})
        if len(ob.samples) < 3:
            ob.samples.append({'drain': vals, 'admitted': flags.get('admitted', False), 'handled': flags.get('handled', 0)})
    ip.explore(harness, max_paths=4000)
    chk.absorb(ob, ip)
    chk.end(ob)


def _dispatch(chk, f, args):
    f(chk, *args)


def main(chk):
    chk.explanation = (
        'Solver-based checking of C17 executed from MIR. (O1) Client::startup with admin_only = true (what the accept '
        'loop passes once shutdown has begun): a non-admin client is refused whatever it answers to the challenge, an admin client is still '
        'admitted (the C09 startup obligation instantiated for shutdown). (O2) client_entrypoint: the drain channel gets +1 iff a non-admin client was admitted and '
        'sums to 0 when its task is over, whatever the first packet and however the session ends. (O3) The accept / signal loop of src/main.rs -- the coroutine main() '
        'hands to block_on, from the MIR of the binary target -- under every bounded script of events (SIGINT, SIGTERM, SIGHUP, client connecting / counted / leaving, '
        'accept() failing, shutdown_timeout passing) with the select! polling order as the solver\'s choice: SIGTERM ends the loop, SIGINT ends it when the drain count is '
        'back at 0 or after shutdown_timeout and not before, nothing else does; clients accepted after SIGINT are started with admin_only = true; the broadcast reaches '
        'every client task started before. (H) The real Client::handle coroutine on sessions during which the '
        'shutdown broadcast may arrive at ANY select! (solver\'s choice, either polling order of the two select! branches): the signal is acted '
        'on only while the session holds no server (a transaction in progress is finished first, its statements forwarded and answered as '
        'usual), the client is then sent "terminating connection due to administrator command" and the session ends; nothing it sent '
        'before is lost.  (O4) The admin console\'s SHUTDOWN: admin::handle_admin from MIR sends exactly one SIGINT, to the pooler\'s own process id, and answers the admin client; no other '
        'command signals anything.  NOT decided: main() before block_on, OS-level signal delivery.')
    chk.assumptions += [
        'main.rs: OS signal delivery, tokio::spawn, mpsc FIFO order, broadcast delivery to existing subscribers and tokio::time::interval (first tick immediate) are library contracts; '
        'event scripts are bounded (4 events quick, 5 thorough); a client task acts on the drain channel as client_entrypoint\'s contract (O2) says',
        'nix::sys::signal::kill delivers the signal it is given to the process it is given (library / OS contract)',
        'session-mode clients hold their server for the whole session and therefore never observe the signal (the property speaks of transaction-mode clients)',
        'tokio broadcast::Receiver::recv yields a sent value exactly once (library contract)',
    ]
    prog = chk.program('on')
    tasks = []
    for ln in (0, 36):
        tasks.append((c09.o1_startup, (prog, 'u', 'db', ln, 'md5', True)))
    tasks.append((c09.o1_startup, (prog, 'u', 'db', 0, 'trust', True)))
    tasks.append((c09.o1_startup, (prog, 'admin', 'pgcat', 36, 'none', True)))
    tasks.append((c09.o1_startup, (prog, 'admin', 'pgbouncer', 36, 'none', True)))
    # (not shutting down yet: what an admitted client listens on afterwards)
    tasks.append((c09.o1_startup, (prog, 'u', 'db', 36, 'md5', False)))
    chk.parallel(c09._dispatch, tasks)
    try:
        o2_entrypoint(chk, prog)
    except Inconclusive as e:
        chk.note_inconclusive('O2-entrypoint-drain: %s' % e)
    from mirsym import build
    from checks import mainloop
    try:
        bprog = build.load_bin_program('on')
        chk.parallel(_dispatch, [(o3_main_loop, (bprog, first, 5 if chk.thorough else 4)) for first in ('',) + mainloop.EVENTS if first not in ('counted', 'left', 'timeout')])
    except Inconclusive as e:
        chk.note_inconclusive('O3-main-loop: %s' % e)
    try:
        o4_admin_shutdown(chk, prog)
    except Inconclusive as e:
        chk.note_inconclusive('O4-admin-shutdown: %s' % e)
    hobl.handle_obligations(chk, prog, {'C17'}, ['shutdown'])


if __name__ == '__main__':
    run_check('C17', main)
