#!/usr/bin/env python3-vt
"""C02 -- a server connection is clean whenever it changes hands (cleanup kernels + the hand-over gate)."""
import os, sys, itertools, re
sys.path.insert(0, os.path.dirname(os.path.dirname(os.path.abspath(__file__))))
import z3
from harness.common import run_check, expectation
from checks.serverfam import *
from checks.c03 import srv_expect        # registers 'srv_expect'
from native import oracle
from checks import hobl


def q_msg(text):
    """Simple Query message bytes for a concrete SQL text."""
    b = text.encode() + b'\0'
    return [BV(8, ord('Q'))] + wire.be(len(b) + 4, 4) + [BV(8, x) for x in b]


@expectation('c02_e2e')
def c02_e2e():
    """End-to-end demonstration against the real Client::handle + bb8 pool + scripted backend: client A opens a
    transaction, changes a session variable, then sends a malformed Close; client B must get a clean connection."""
    def f(res):
        r = res[0]
        if 'error' in r:
            return False, 'demonstration harness failed: %r' % (r,)
        dirty = r.get('b_in_transaction') == 'true' or r.get('b_status') != 'I' or r.get('b_x') not in ('default', None)
        return dirty, 'client A ended with %r; client B then ran on backend %s with in_transaction=%s, x=%s, ReadyForQuery %s' % (
            r.get('a_result'), r.get('b_backend'), r.get('b_in_transaction'), r.get('b_x'), r.get('b_status'))
    return f


# ------------------------------------------------------------------------------------------------ O1 cleanup decisions
def o1_checkin(chk, prog, nreplies, with_cache, prop='C02', only=None):
    name = 'O1-checkin-%dreplies%s' % (nreplies, '-cache' if with_cache else '')
    ob = chk.begin(name, 'Server::checkin_cleanup from arbitrary flags (in_transaction, copy, needs_cleanup_set/prepare, cleanup_connections'
                   '%s), server answers the first %d of the expected CommandComplete/ReadyForQuery messages (tags and statuses symbolic) '
                   'and then the stream ends: in COPY mode nothing is sent and the connection is marked bad (a backend in COPY swallows the '
                   'cleanup query); otherwise SQL sent = ROLLBACK iff in transaction, then RESET ROLE;[RESET ALL;][DEALLOCATE ALL;] iff '
                   'marked dirty; flags afterwards as the protocol dictates; any failure leaves the connection marked bad'
                   % (', 2-entry statement cache' if with_cache else '', nreplies),
                   {'reply_messages_available': nreplies, 'statement_cache': with_cache})
    cc = fn(prog, 'Server::checkin_cleanup')
    ip = chk.interp(prog, name)
    install_stats_noops(ip)

    def harness(ip_):
        # the server's answers: (C tag[4 symbolic bytes], Z status) per query, at most two queries
        msgs = []
        for i in range(4):
            if i % 2 == 0:
                # realistic tags (the effect of arbitrary tags on the dirty marks is O2); first tag byte symbolic
                tag = [ip_.fresh(8, 'tag%d_0' % i)] + [BV(8, x) for x in (b'OLLBACK\0' if i == 0 else b'ESET\0')]
                msgs.append(Msg(BV(8, ord('C')), tag))
            else:
                msgs.append(Msg(BV(8, ord('Z')), [ip_.fresh(8, 'status%d' % i)]))
        avail = msgs[:nreplies]
        st = StreamV([b for m in avail for b in m.bytes], 'server')
        clean_conn = sym_flag(ip_, 'cleanup_connections')
        over = dict(cleanup_connections=clean_conn)
        cache = None
        if with_cache:
            cache = lru(['s1', 's2'], 2)
            over['prepared_statement_cache'] = some(ip_, cache)
        srv, pre, prebuf = mk_symbolic_server(ip_, prog, st, 0, **over)
        try:
            r = ip_.drive(ip_.call_function(cc, [Ptr(Cell(srv, 'server'))]))
        except Panic as p:
            m = ip_.model_for()
            chk.report(ob, 'C02/O1/panic', 'checkin_cleanup panics: ' + p.msg, {'pre': pre_json(m, pre)},
                       {'commands': [{'op': 'server_script', 'pre': pre_json(m, pre, (), {'cleanup_connections': bool(m.eval(clean_conn.z(), True).as_long())}),
                                      'inbound_hex': stream_hex(m, avail), 'steps': [{'do': 'checkin_cleanup'}]}],
                        'expect': ['srv_expect', {'steps': [{'err': False}]}]})
            return
        res = variant(ip_, r, 'Result')
        ob.nontrivial += 1
        # ---- reference
        ref = RefState(flag_val(ip_, pre['in_transaction']), flag_val(ip_, pre['data_available']), flag_val(ip_, pre['in_copy_mode']),
                       False, flag_val(ip_, pre['needs_cleanup_set']), flag_val(ip_, pre['needs_cleanup_prepare']), 0)
        cleanc = flag_val(ip_, clean_conn)
        written = []
        pos = 0
        ref_res = 'ok'
        cache_cleared = False

        def ref_query(sql):
            nonlocal pos, ref_res
            written.extend(q_msg(sql))
            while True:
                rr, n = ref_recv(ip_, ref, avail, pos)
                pos += n
                ref.buflen = 0
                if rr != 'ok':
                    ref_res = 'err'
                    return False
                if not ref.data_avail:
                    return True
        okq = True
        if ref.copy:
            # a backend in COPY mode swallows whatever is sent next as a COPY abort (protocol): such a connection cannot be
            # cleaned -- nothing may be sent and it must not be reused (marked bad)
            okq = False
            ref.bad = True
        if okq and ref.in_tx:
            okq = ref_query('ROLLBACK')
        if okq and (ref.cl_set or ref.cl_prep) and cleanc:
            sql = 'RESET ROLE;' + ('RESET ALL;' if ref.cl_set else '') + ('DEALLOCATE ALL;' if ref.cl_prep else '')
            if ref.cl_prep:
                cache_cleared = True
            if ref_query(sql):
                ref.cl_set = ref.cl_prep = False
        got = {k: flag_val(ip_, v) for k, v in server_flags(ip_, prog, srv).items()}
        want = {'in_transaction': ref.in_tx, 'data_available': ref.data_avail, 'in_copy_mode': ref.copy, 'bad': ref.bad,
                'needs_cleanup_set': ref.cl_set, 'needs_cleanup_prepare': ref.cl_prep}

        def rep(key, what):
            if only is not None and key.split('/', 2)[2] not in only:
                return
            key = prop + key[3:]
            m = ip_.model_for()
            pj = pre_json(m, pre, (), {'cleanup_connections': cleanc})
            if with_cache:
                pj['ps_cache'] = {'cap': 2, 'names': ['s1', 's2']}
            exp = {'steps': [{'err': ref_res != 'ok'}], 'final': dict(want), 'written_hex': bytes(b.v for b in written).hex()}
            if with_cache:
                exp['final']['ps_cache'] = [] if cache_cleared else ['s2', 's1']
            chk.report(ob, key, what, {'pre': pj, 'server_replies_hex': stream_hex(m, avail)},
                       {'commands': [{'op': 'server_script', 'pre': pj, 'inbound_hex': stream_hex(m, avail), 'steps': [{'do': 'checkin_cleanup'}]}],
                        'expect': ['srv_expect', exp]})
        if (res == 'Ok') != (ref_res == 'ok'):
            rep('C02/O1/result', 'checkin_cleanup returns %s where the cleanup %s' % (res, 'failed' if ref_res != 'ok' else 'succeeded'))
            return
        if ip_.model_for(z3.Not(seq_equal(st.out, written))) is not None:
            rep('C02/O1/sql-sent', 'cleanup SQL sent to the server differs from what the connection state requires '
                '(in_transaction=%s, needs_cleanup_set=%s, needs_cleanup_prepare=%s, cleanup_connections=%s)'
                % (flag_val(ip_, pre['in_transaction']), flag_val(ip_, pre['needs_cleanup_set']), flag_val(ip_, pre['needs_cleanup_prepare']), cleanc))
        for k in want:
            if got[k] != want[k] and not (res != 'Ok' and k not in ('bad',)):
                rep('C02/O1/flag-%s' % k, 'after checkin_cleanup %s=%s, reference %s' % (k, got[k], want[k]))
        if res != 'Ok' and not got['bad']:
            rep('C02/O1/failure-not-marked-bad', 'checkin_cleanup failed but the connection is not marked bad (it would be reused)')
        if with_cache:
            c = sfield(prog, srv, 'prepared_statement_cache').variants['Some'][0]
            if (len(c.entries) == 0) != cache_cleared:
                rep('C02/O1/statement-cache', 'statement cache %s although DEALLOCATE ALL was %s: the cache and the server\'s prepared statements are out of step (a cached name the server dropped '
                    'is bound without a Parse; a name the server still holds is prepared again and refused)' % (('not cleared', 'sent') if cache_cleared else ('cleared', 'NOT sent')))
        if len(ob.samples) < 3:
            ob.samples.append({'pre': {k: flag_val(ip_, v) for k, v in pre.items()}, 'sql_sent': bytes(b.v for b in written).decode('latin1'), 'result': res})
    ip.explore(harness, max_paths=60000)
    chk.absorb(ob, ip)
    chk.end(ob)


# ------------------------------------------------------------------------------------------------ O2 dirty marking
def o2_marking(chk, prog, taglen):
    name = 'O2-marking-tag%d' % taglen
    ob = chk.begin(name, 'Server::recv on CommandComplete(tag: %d symbolic bytes) + ReadyForQuery from arbitrary flags: the connection is marked '
                   'for RESET ALL iff the tag is SET outside a transaction, for DEALLOCATE ALL iff the tag is PREPARE; marks are never cleared by recv'
                   % taglen, {'tag_bytes': taglen})
    recv = fn(prog, 'Server::recv')
    ip = chk.interp(prog, name)
    install_stats_noops(ip)

    def harness(ip_):
        msgs = [Msg(BV(8, ord('C')), [ip_.fresh(8, 'tag%d' % j) for j in range(taglen)]), Msg(BV(8, ord('Z')), [ip_.fresh(8, 'status')])]
        st = StreamV([b for m in msgs for b in m.bytes], 'server')
        srv, pre, prebuf = mk_symbolic_server(ip_, prog, st, 0)
        try:
            r = ip_.drive(ip_.call_function(recv, [Ptr(Cell(srv, 'server')), none(ip_)]))
        except Panic as p:
            raise Inconclusive('recv panic: ' + p.msg)
        ob.nontrivial += 1
        ref = RefState(flag_val(ip_, pre['in_transaction']), flag_val(ip_, pre['data_available']), flag_val(ip_, pre['in_copy_mode']),
                       False, flag_val(ip_, pre['needs_cleanup_set']), flag_val(ip_, pre['needs_cleanup_prepare']), 0)
        rr, n = ref_recv(ip_, ref, msgs, 0)
        got = {k: flag_val(ip_, v) for k, v in server_flags(ip_, prog, srv).items()}
        for k, w in (('needs_cleanup_set', ref.cl_set), ('needs_cleanup_prepare', ref.cl_prep)):
            if got[k] != w:
                m = ip_.model_for()
                pj = pre_json(m, pre)
                chk.report(ob, 'C02/O2/%s' % k, 'after CommandComplete %r the connection has %s=%s, required %s'
                           % (bytes(m.eval(b.z(), True).as_long() for b in msgs[0].body), k, got[k], w),
                           {'pre': pj, 'stream_hex': stream_hex(m, msgs)},
                           {'commands': [{'op': 'server_script', 'pre': pj, 'inbound_hex': stream_hex(m, msgs), 'steps': [{'do': 'recv'}]}],
                            'expect': ['srv_expect', {'final': {'needs_cleanup_set': ref.cl_set, 'needs_cleanup_prepare': ref.cl_prep}}]})
        if len(ob.samples) < 2:
            m = ip_.model_for()
            ob.samples.append({'tag': repr(bytes(m.eval(b.z(), True).as_long() for b in msgs[0].body)), 'marks': [got['needs_cleanup_set'], got['needs_cleanup_prepare']]})
    ip.explore(harness, max_paths=60000)
    chk.absorb(ob, ip)
    chk.end(ob)


# ------------------------------------------------------------------------------------------------ O4 the gate
def o4_gate(chk, prog):
    ob = chk.begin('O4-gate', 'ServerPool::has_broken (consulted by bb8 whenever a connection is put back, on every exit path of Client::handle '
                   'including `?` returns and unwinding) from an arbitrary Server state: a connection is kept for reuse only if it is not bad, '
                   'not inside a transaction, not in COPY mode, has no unread reply pending and carries no session state checkin_cleanup would have reset', {'server_state': 'arbitrary flags'})
    hb = [f for f in prog.lookup('<ServerPool as ManageConnection>::has_broken')]
    if len(hb) != 1:
        hb = [f for n, f in prog.funcs.items() if n.endswith('::has_broken')]
    if len(hb) != 1:
        raise Inconclusive("cannot locate ServerPool::has_broken")
    ip = chk.interp(prog, 'O4-gate')
    install_stats_noops(ip)
    # DNS-cache based invalidation is disabled in this harness (CachedResolver::enabled() == false)
    ip.overrides.append((re.compile(r'CachedResolver::enabled$'), lambda c, *a: BV(1, 0)))
    ip.overrides.append((re.compile(r'^(?:arc_swap::)?ArcSwapAny::<.*>::load$'), lambda c, *a: Opaque('Guard', 'resolver')))
    ip.overrides.append((re.compile(r'^<(?:arc_swap::)?Guard<.*> as (?:std::ops::)?Deref>::deref$'), lambda c, *a: Ptr(Cell(Ptr(Cell(Opaque('CachedResolver', 'r'), 'r')), 'g'))))
    ip.lazy_hook = lambda ip_, p, c: Ptr(Cell(Opaque('ArcSwap', 'CACHED_RESOLVER'), 'lazy'))
    state = {'kept_clean': False}

    def harness(ip_):
        st = StreamV([], 'server')
        cc = sym_flag(ip_, 'cleanup_connections')
        srv, pre, prebuf = mk_symbolic_server(ip_, prog, st, 0, bad=sym_flag(ip_, 'pre_bad'), cleanup_connections=cc)
        pool = Opaque('ServerPool', 'manager')
        r = ip_.call_function(hb[0], [Ptr(Cell(pool, 'mgr')), Ptr(Cell(srv, 'server'))])
        broken = flag_val(ip_, r)
        ob.nontrivial += 1
        f = {k: flag_val(ip_, v) for k, v in server_flags(ip_, prog, srv).items()}
        # (session state that checkin_cleanup would have reset -- unless the pool is configured not to clean its connections)
        f['session_state'] = flag_val(ip_, cc) and (f['needs_cleanup_set'] or f['needs_cleanup_prepare'])
        # (statements listed as prepared whose Parse the server never answered: an abandoned batch -- the harness's connection has none pending)
        dirty = f['in_transaction'] or f['in_copy_mode'] or f['data_available'] or f['bad'] or f['session_state']
        if not broken and dirty:
            which = [k for k in ('in_transaction', 'in_copy_mode', 'data_available', 'bad', 'session_state') if f[k]]
            chk.report(ob, 'C02/O4/dirty-connection-kept/' + which[0],
                       'a connection with %s is put back into the pool for the next client (has_broken consults only `bad`); reachable e.g. '
                       'when a client inside a transaction sends a malformed Close message: the task unwinds past checkin_cleanup' % '+'.join(which),
                       {'server_flags': f},
                       {'commands': [{'op': 'e2e_handover', 'prep': ['BEGIN', 'SET x TO 5'], 'trigger_hex': '4300000004'}], 'expect': ['c02_e2e']})
        if broken and not dirty:
            chk.report(ob, 'C02/O4/clean-connection-dropped', 'a clean connection is discarded at check-in', {'server_flags': f},
                       {'commands': [{'op': 'e2e_handover', 'prep': ['SELECT 1'], 'trigger_hex': '5800000004'}], 'expect': ['c02_e2e_reuse']})
        if not broken and not dirty:
            state['kept_clean'] = True
        if len(ob.samples) < 2:
            ob.samples.append({'flags': f, 'has_broken': broken})
    ip.explore(harness)
    chk.absorb(ob, ip)
    if not state['kept_clean']:
        ob.status = 'vacuous'
    else:
        ob.witnesses.append('a clean connection is kept (has_broken == false reachable)')
    chk.end(ob)


@expectation('c02_e2e_reuse')
def c02_e2e_reuse():
    def f(res):
        r = res[0]
        return (r.get('b_backend') not in (None, '1'), 'client B was served by backend %r (a new connection was opened although the first was clean)' % r.get('b_backend'))
    return f


def _dispatch(chk, f, args):
    f(chk, *args)


def main(chk):
    chk.explanation = (
        'Solver-based checking of the mechanisms that make a server connection clean before it changes hands, executed from MIR: '
        'Server::checkin_cleanup (with query/send/recv/read_message underneath) from ARBITRARY connection flags against a scripted '
        'server whose answers are symbolic and may stop at any message boundary; the dirty marking in Server::recv for every '
        'CommandComplete tag; and the hand-over gate ServerPool::has_broken from an arbitrary Server state (one inductive step: '
        'whatever exit path of Client::handle drops the bb8 guard, this predicate alone decides reuse). Violations are replayed '
        'against the compiled Server over loopback and, for the gate, by an end-to-end run of the real Client::handle + bb8 pool.')
    chk.explanation += (' (O4-connect) bb8\'s connect hook from MIR: the cleanup switch Server::startup receives is the one the pool was configured with.')
    chk.assumptions += [
        'which exits of Client::handle reach the gate in which state is not enumerated (handle is outside reach); the gate is checked for EVERY state instead',
        'the scripted backend stands for PostgreSQL; its real GUC / prepared-statement tables are not modelled',
        'SET inside a transaction is deliberately not marked by the pooler (documented in the code); outside the property wording',
        'DNS-cache based invalidation (CachedResolver) disabled in the gate harness',
    ]
    prog = chk.program('on')
    tasks = [(o4_gate, (prog,))]
    for n in range(0, 5):
        tasks.append((o1_checkin, (prog, n, False)))
    tasks.append((o1_checkin, (prog, 4, True)))
    tasks.append((o1_checkin, (prog, 2, True)))
    for tl in (4, 8) + ((1, 5, 9) if chk.thorough else ()):
        tasks.append((o2_marking, (prog, tl)))
    chk.parallel(_dispatch, tasks)

    # the cleanup switch a connection lives by is the one the pool was configured with: bb8's connect hook hands each of the manager's settings to
    # Server::startup under its own name (ServerPool::connect from MIR; the C18 obligation instantiated for this property)
    import checks.c18 as c18mod
    try:
        c18mod.o4_connect(chk, prog, props=('C02',))
    except Inconclusive as e:
        chk.note_inconclusive('O4-connect: %s' % e)
    hobl.handle_obligations(chk, prog, {'C02'}, ['simple', 'session', 'extended', 'named', 'malformed', 'cuts', 'status', 'plugins', 'copy', 'two-clients', 'timeouts', 'drops', 'checkout-failures'])

if __name__ == '__main__':
    run_check('C02', main)
