#!/usr/bin/env python3-vt
"""C11 -- malformed or hostile client bytes hurt only the sender (decoder termination, well-framed re-encoding, the gate)."""
import os, sys, itertools, re
sys.path.insert(0, os.path.dirname(os.path.dirname(os.path.abspath(__file__))))
import z3
from harness.common import run_check, expectation
from checks.serverfam import *
from checks import c02 as c02mod          # the hand-over gate (and its end-to-end replay predicate)
from mirsym.interp import StopPath
from native import oracle


def sym_msg(ip, code, n, hint='b'):
    """code byte (concrete char or None = symbolic), n symbolic body bytes, and the length field that read_message guarantees
    for every message it hands to these decoders (declared length == bytes that follow); the length field itself is attacked
    in the read_message obligations."""
    c = BV(8, ord(code)) if code else ip.fresh(8, 'code')
    ln = BV(32, n + 4)
    body = [ip.fresh(8, '%s%d' % (hint, i)) for i in range(n)]
    return [c] + wire.be_sym(ln, 4) + body, ln


def hexof(m, bs):
    return bytes(m.eval(b.z(), True).as_long() for b in bs).hex()


@expectation('c11_frame')
def c11_frame():
    def f(res):
        r = res[0]
        if 'panic' in r:
            return False, 'native panics (sender-only): ' + r['panic']
        hx = r.get('hex')
        if not hx:
            return False, 'native does not produce a message: %r' % (r,)
        b = bytes.fromhex(hx)
        declared = int.from_bytes(b[1:5], 'big', signed=True)
        return (declared != len(b) - 1, 'native re-encoded message is %d bytes long but declares %d+1' % (len(b), declared))
    return f


@expectation('c11_spins')
def c11_spins():
    def f(res):
        r = res[0]
        if 'error' in r:
            return False, 'native: %r' % (r,)
        return (r.get('finished') is False, 'native: the decoder %s on these bytes' % ('is still running after 3 s (it never returns: the runtime worker it runs on is lost)'
                                                                                      if r.get('finished') is False else 'returns (%s)' % r.get('result')))
    return f


def o1_startup_decoder(chk, prog, n):
    """parse_startup on the parameter block of a StartupMessage (what get_startup hands over once the length and the protocol code are read)."""
    name = 'O1-parse_startup-%dbytes' % n
    ob = chk.begin(name, 'parse_startup / parse_params (reachable BEFORE authentication) on a parameter block of %d arbitrary bytes: the call terminates within the '
                   'unwinding bound in Ok / Err / an unwinding panic of the sender\'s task -- it never spins (a decoder that does not return keeps a runtime '
                   'worker thread for good)' % n, {'decoder': 'parse_startup', 'body_bytes': n})
    ip = chk.interp(prog, name)
    f = fn(prog, 'messages::parse_startup')
    outcomes = {'ok': 0, 'err': 0, 'panic': 0}
    panics = set()

    # (a legitimate decoder loops at most once per input byte: the unwinding bound is set far above that, far below the engine default)
    ip.MAX_BLOCK_VISITS = 200 + 20 * n
    found = []

    def harness(ip_):
        if found:
            return
        body = [ip_.fresh(8, 'b%d' % i) for i in range(n)]
        try:
            r = ip_.call_function(f, [Seq(list(body), 'bytesmut')])
            outcomes['ok' if variant(ip_, r, 'Result') == 'Ok' else 'err'] += 1
        except Panic as p:
            outcomes['panic'] += 1
            panics.add(p.msg[:70])
            return
        except Inconclusive as e:
            if 'unwinding bound hit' in str(e) or 'step bound hit' in str(e):
                m = ip_.model_for()
                hx = hexof(m, body)
                chk.report(ob, 'C11/O1/no-termination/parse_startup', 'parse_startup does not come back on a %d-byte parameter block (a loop runs past the unwinding bound of %d '
                           'iterations on %d input bytes): one unauthenticated packet pins a runtime worker' % (n, ip_.MAX_BLOCK_VISITS, n), {'body_hex': hx},
                           {'commands': [{'op': 'decode_terminates', 'which': 'parse_startup', 'hex': hx}], 'expect': ['c11_spins']})
                found.append(1)
                return
            raise
        ob.nontrivial += 1
    ip.explore(harness, max_paths=60000)
    chk.absorb(ob, ip)
    ob.extra['outcomes'] = dict(outcomes)
    ob.extra['sender_only_panic_sites'] = sorted(panics)
    ob.samples.append({'outcomes': dict(outcomes), 'panic_sites': sorted(panics)[:4]})
    if sum(outcomes.values()) == 0 and ob.status == 'pending':
        ob.status = 'vacuous'
    chk.end(ob)


def codec_callers(prog, which):
    """Functions of the (non-test) crate that decode a client message into the struct `which` -- read off the call sites in the MIR of this build."""
    pat = re.compile(r'(?:TryInto<(?:messages::)?%s>>::try_into|<(?:messages::)?%s as (?:std::convert::)?TryFrom<)' % (which, which))
    out = set()
    for n, f in prog.funcs.items():
        for b in f.blocks.values():
            if b[1] and pat.search(b[1]):
                out.add(n)
    return out


def o1_decoder(chk, prog, which, n):
    name = 'O1-%s-%dbytes' % (which, n)
    ob = chk.begin(name, '%s on a framed client message (as delivered by read_message) with %d arbitrary body bytes: the call terminates within the '
                   'unwinding bound in Ok / Err / an unwinding panic of the sender\'s task; it never reaches process exit or abort, and whatever it '
                   're-encodes for the server is well-framed (length field = bytes that follow)' % (which, n), {'decoder': which, 'body_bytes': n, 'length_field': 'consistent (read_message invariant)'})
    ip = chk.interp(prog, name)
    # hostile bytes: the strings of a message may contain bytes that are not UTF-8 (message codecs; the router entry points keep the ASCII assumption)
    ip.lossy_invalid = which in ('Parse', 'Bind', 'Describe', 'Close', 'Bind::rename', 'Bind::get_name', 'Parse::get_name')
    install_stats_noops(ip)
    code = {'Parse': 'P', 'Bind': 'B', 'Describe': 'D', 'Close': 'C', 'Bind::rename': 'B', 'Bind::get_name': 'B', 'Parse::get_name': 'P',
            'infer_shard_from_bind': 'B', 'try_execute_command': None, 'QueryRouter::parse': None}[which]
    outcomes = {'ok': 0, 'err': 0, 'panic': 0}
    panics = set()
    reachable = bool(codec_callers(prog, which)) if which in ('Parse', 'Bind', 'Describe', 'Close') else True

    def harness(ip_):
        msg, ln = sym_msg(ip_, code, n)
        buf = Ptr(Cell(Seq(list(msg), 'bytesmut'), 'msg'))
        out = None
        try:
            if which in ('Parse', 'Bind', 'Describe', 'Close'):
                dec = prog.lookup('<%s as TryFrom<&BytesMut>>::try_from' % which)[0]
                enc = prog.lookup('<BytesMut as TryFrom<%s>>::try_from' % which)[0]
                r = ip_.call_function(dec, [buf])
                if variant(ip_, r, 'Result') == 'Ok':
                    e = ip_.call_function(enc, [payload(r, 'Ok')[0]])
                    if variant(ip_, e, 'Result') == 'Ok':
                        out = items(ip_, payload(e, 'Ok')[0])
                        outcomes['ok'] += 1
                    else:
                        outcomes['err'] += 1
                else:
                    outcomes['err'] += 1
            elif which == 'Bind::rename':
                r = ip_.call_function(fn(prog, 'Bind::rename'), [Seq(list(msg), 'bytesmut'), Ptr(Cell(rstring('PGCAT_1'), 'n'))])
                if variant(ip_, r, 'Result') == 'Ok':
                    out = items(ip_, payload(r, 'Ok')[0])
                    outcomes['ok'] += 1
                else:
                    outcomes['err'] += 1
            elif which in ('Bind::get_name', 'Parse::get_name'):
                r = ip_.call_function(fn(prog, which), [buf])
                outcomes['ok' if variant(ip_, r, 'Result') == 'Ok' else 'err'] += 1
            elif which == 'infer_shard_from_bind':
                qr = ip_.call_function(prog.lookup('QueryRouter::new')[0], [])
                ps = getf(prog, qr, 'QueryRouter', 'pool_settings')
                setf(prog, ps, 'PoolSettings', 'query_parser_read_write_splitting', BV(1, 1))
                setf(prog, ps, 'PoolSettings', 'shards', BV(64, 3))
                setf(prog, qr, 'QueryRouter', 'placeholders', Seq([BV(16, 1)], 'vec'))
                ip_.call_function(fn(prog, 'QueryRouter::infer_shard_from_bind'), [Ptr(Cell(qr, 'qr')), buf])
                outcomes['ok'] += 1
            elif which == 'try_execute_command':
                ip_.call_function(prog.lookup('QueryRouter::setup')[0], [])
                qr = ip_.call_function(prog.lookup('QueryRouter::new')[0], [])
                ip_.call_function(fn(prog, 'QueryRouter::try_execute_command'), [Ptr(Cell(qr, 'qr')), buf])
                outcomes['ok'] += 1
            elif which == 'QueryRouter::parse':
                qr = ip_.call_function(prog.lookup('QueryRouter::new')[0], [])
                r = ip_.call_function(fn(prog, 'QueryRouter::parse'), [Ptr(Cell(qr, 'qr')), buf])
                outcomes['ok'] += 1
        except Panic as p:
            outcomes['panic'] += 1
            panics.add(p.msg[:70])
            return
        except Inconclusive as e:
            if ('unwinding bound hit' in str(e) or 'step bound hit' in str(e)) and which in ('Parse', 'Bind', 'Describe', 'Close', 'Bind::get_name', 'Parse::get_name'):
                m = ip_.model_for()
                chk.report(ob, 'C11/O1/no-termination/' + which, '%s does not come back on a %d-byte body (a loop runs past the unwinding bound of %d iterations)' %
                           (which, n, ip_.MAX_BLOCK_VISITS), {'message_hex': hexof(m, msg)},
                           {'commands': [{'op': 'decode_terminates', 'which': which, 'hex': hexof(m, msg)}], 'expect': ['c11_spins']})
                return
            raise
        except StopPath as s:
            if s.tag == 'process_exit':
                m = ip_.model_for()
                chk.report(ob, 'C11/O1/process-exit/' + which, '%s reaches process exit/abort on client bytes' % which, {'message_hex': hexof(m, msg)},
                           {'commands': [{'op': 'parse_roundtrip', 'hex': hexof(m, msg)}], 'expect': ['c11_frame']})
                return
            if s.tag == 'sql_parser':
                outcomes['ok'] += 1
                return
            raise
        ob.nontrivial += 1
        if out is not None and len(out) >= 5 and which in ('Parse', 'Bind', 'Describe', 'Close') and not reachable:
            # nothing in this build decodes a client message with this codec (e.g. Bind: only get_name / rename are used): what its
            # re-encoding would emit is not something a client can cause -- termination is still checked above
            ob.extra['re_encoding_unreachable'] = True
            return
        if out is not None and len(out) >= 5:
            declared = z3.Concat(*[b.z() for b in out[1:5]])
            m = ip_.model_for(declared != z3.BitVecVal(len(out) - 1, 32))
            if m is not None:
                op = {'Parse': 'parse_roundtrip', 'Bind': 'bind_roundtrip', 'Describe': 'describe_roundtrip', 'Close': 'close_roundtrip', 'Bind::rename': 'bind_rename'}[which]
                cmd = {'op': op, 'hex': hexof(m, msg)}
                if which == 'Bind::rename':
                    cmd['new_name'] = 'PGCAT_1'
                chk.report(ob, 'C11/O3/ill-framed-output/' + which, 'a client %s message makes the pooler emit an ill-framed message towards the server '
                           '(declared length differs from the bytes that follow): the server connection would desynchronise for whoever uses it next' % which,
                           {'message_hex': hexof(m, msg)}, {'commands': [cmd], 'expect': ['c11_frame']})
    if which == 'QueryRouter::parse':
        ip.stop_calls.append(re.compile(r'Parser::<.*>::parse_sql$|Parser::parse_sql$'))

        def h2(ip_):
            try:
                return harness(ip_)
            except StopPath as s:
                outcomes['ok'] += 1
        ip.explore(h2, max_paths=60000)
    else:
        ip.explore(harness, max_paths=60000)
    chk.absorb(ob, ip)
    ob.extra['outcomes'] = dict(outcomes)
    ob.extra['sender_only_panic_sites'] = sorted(panics)
    ob.samples.append({'outcomes': dict(outcomes), 'panic_sites': sorted(panics)[:4]})
    if sum(outcomes.values()) == 0:
        ob.status = 'vacuous'
    chk.end(ob)


def o1_read_message(chk, prog, lo, hi, avail, flavour):
    name = 'O1-read_message-len%s-avail%d-%s' % (('%d..%d' % (lo, hi)), avail, flavour)
    ob = chk.begin(name, 'read_message (MIR flavour overflow-checks=%s) on a client stream: symbolic code, length field in [%d, %d], %d body bytes then EOF: '
                   'terminates in Ok / Err / unwinding panic; never a partial message' % (flavour, lo, hi, avail), {'len': [lo, hi], 'available': avail, 'flavour': flavour})
    rm = fn(prog, 'messages::read_message')
    ip = chk.interp(prog, name)
    outcomes = {'ok': 0, 'err': 0, 'panic': 0}
    panics = set()

    def harness(ip_):
        code = ip_.fresh(8, 'code')
        ln = ip_.fresh(32, 'len')
        ip_.assume(z3.And(ln.v >= lo, ln.v <= hi))
        body = [ip_.fresh(8, 'b%d' % i) for i in range(avail)]
        st = StreamV([code] + wire.be_sym(ln, 4) + body, 'client')
        try:
            r = ip_.drive(ip_.call_function(rm, [Ptr(Cell(st, 's'))]))
        except Panic as p:
            outcomes['panic'] += 1
            panics.add(p.msg[:70])
            return
        ob.nontrivial += 1
        if variant(ip_, r, 'Result') == 'Ok':
            outcomes['ok'] += 1
            out = items(ip_, payload(r, 'Ok')[0])
            need = decide(ip_, ln.v == len(out) - 1)
            if not need:
                m = ip_.model_for()
                chk.report(ob, 'C11/O1/read_message-partial', 'read_message returns a message whose size disagrees with its length field', {},
                           {'commands': [{'op': 'read_message', 'hex': hexof(m, st.inbound)}], 'expect': ['c11_frame']})
        else:
            outcomes['err'] += 1
    ip.explore(harness)
    chk.absorb(ob, ip)
    ob.extra['outcomes'] = dict(outcomes)
    ob.extra['sender_only_panic_sites'] = sorted(panics)
    ob.samples.append({'outcomes': dict(outcomes), 'panic_sites': sorted(panics)[:4]})
    chk.end(ob)


def panic_strategy(chk):
    """A panic must unwind (and end one Tokio task), not abort the process: no `panic = "abort"` in the manifest."""
    ob = chk.begin('O0-panic-strategy', 'Cargo.toml does not select panic = "abort" (a panic in a client task ends that task only)', {})
    txt = open(os.path.join(os.environ.get('VERIF_REPO', '/repo'), 'Cargo.toml')).read()
    ob.nontrivial += 1
    if re.search(r'panic\s*=\s*"abort"', txt):
        chk.report(ob, 'C11/O0/panic-abort', 'Cargo.toml sets panic = "abort": any panic reachable from client bytes terminates the pooler', {},
                   {'commands': [{'op': 'regexes'}], 'expect': ['c11_always']})
    ob.samples.append({'panic_abort': False})
    chk.end(ob)


@expectation('c11_always')
def c11_always():
    return lambda res: (True, 'manifest setting read from /repo/Cargo.toml')


def _dispatch(chk, f, args):
    f(chk, *args)


def main(chk):
    chk.explanation = (
        'Solver-based checking that hostile client bytes stay the sender\'s problem, executed from MIR: every client-reachable decoder '
        '(parse_startup on the pre-authentication parameter block, Parse/Bind/Describe/Close decode + re-encode, get_name, Bind::rename, infer_shard_from_bind, try_execute_command, '
        'QueryRouter::parse up to the SQL parser) runs on framed messages whose body bytes are symbolic, and read_message itself (both overflow '
        'flavours) on streams whose length field ranges over negative, too-small and valid values: all paths terminate within the unwinding bound in Ok / Err / an unwinding panic, none '
        'reaches process exit, and anything re-encoded for the server is well-framed. The consequence of a panic or early return while a '
        'server connection is borrowed is decided by the hand-over gate (C02 O4), re-asserted here. Panic sites are inventoried in the '
        'evidence as sender-only disconnects, not as violations.  Client-controlled bytes that come BACK: an ErrorResponse quoting the statement in the client\'s encoding (never-valid UTF-8 bytes) '
        'is relayed by Server::recv on a connection with a statement cache, and the connection stays in step.')
    chk.assumptions += [
        'a panic inside a client\'s Tokio task ends that task only (unwinding; checked: no panic = "abort")',
        'memory exhaustion through large declared lengths, slow-loris behaviour, statistics/shutdown accounting and the SQL parser itself are outside the claim',
        'body sizes up to 8 (12 thorough) bytes',
    ]
    prog = chk.program('on')
    panic_strategy(chk)
    tasks = [(c02mod.o4_gate, (prog,))]
    sizes = (0, 1, 3, 6, 8) if not chk.thorough else (0, 1, 2, 3, 4, 6, 8, 10, 12)
    for w in ('Parse', 'Bind', 'Describe', 'Close', 'Bind::rename', 'Bind::get_name', 'Parse::get_name'):
        for n in sizes:
            tasks.append((o1_decoder, (prog, w, n)))
    for n in (0, 2, 9, 14):
        tasks.append((o1_decoder, (prog, 'infer_shard_from_bind', n)))
    for n in (0, 1, 4):
        tasks.append((o1_decoder, (prog, 'try_execute_command', n)))
        tasks.append((o1_decoder, (prog, 'QueryRouter::parse', n)))
    for n in ((0, 1, 2, 5, 7, 10) if not chk.thorough else range(0, 15)):
        tasks.append((o1_startup_decoder, (prog, n)))
    # shared state a hostile message can reach: the key under which a Parse enters the POOL-WIDE statement cache (all clients of the pool) must
    # tell a malformed Parse (arbitrary non-positive parameter count, no types) from every valid statement
    import checks.c08 as c08mod
    for qa, qb in ((1, 1), (2, 2)):
        tasks.append((c08mod.o2_hash, (prog, qa, 0, qb, 0, True, 'C11')))
    # client-controlled bytes come back: a server quotes the offending statement in its ErrorResponse, in the CLIENT's encoding; on a connection
    # with a statement cache the pooler parses that message.  Whatever the bytes, the reply is relayed and the connection stays in step
    # (otherwise the next client of that connection reads this client's reply) -- the C03 obligation instantiated for this property
    import checks.c03 as c03mod
    for n in (1, 3):
        tasks.append((c03mod.o2_recv_error, (prog, n, 'C11')))
    prog_off = chk.program('off')
    for pr, fl in ((prog, 'on'), (prog_off, 'off')):
        tasks.append((o1_read_message, (pr, -6, 3, 2, fl)))
        tasks.append((o1_read_message, (pr, 4, 8, 2, fl)))
    chk.parallel(_dispatch, tasks)


if __name__ == '__main__':
    run_check('C11', main)
