#!/usr/bin/env python3-vt
"""C10 -- a cancel request reaches only the requester's own running server session (map operations + cancel path)."""
import os, sys, itertools, re
sys.path.insert(0, os.path.dirname(os.path.dirname(os.path.abspath(__file__))))
import z3
from harness.common import run_check, expectation
from checks.serverfam import *
from checks.c03 import srv_expect
from harness.server_state import mk_client
from native import oracle
from checks import hobl


def sym_map(ip, n):
    """ClientServerMap with n entries: symbolic, pairwise distinct keys; symbolic values."""
    m = MapV('hashmap')
    keys, vals = [], []
    for i in range(n):
        k = Agg([ip.fresh(32, 'k%d_pid' % i), ip.fresh(32, 'k%d_key' % i)], 'tuple')
        v = Agg([ip.fresh(32, 'v%d_pid' % i), ip.fresh(32, 'v%d_key' % i), rstring('host%d' % i), ip.fresh(16, 'v%d_port' % i)], 'tuple')
        for pk in keys:
            ip.assume(z3.Not(z3.And(pk.fields[0].z() == k.fields[0].z(), pk.fields[1].z() == k.fields[1].z())))
        keys.append(k)
        vals.append(v)
        m.entries.append([k, Cell(v, 'mapval')])
    return m, keys, vals


def key_is(k, pid, key):
    return z3.And(k.fields[0].z() == pid.z(), k.fields[1].z() == key.z())


def ev(m, x):
    return m.eval(x.z(), True).as_long()


def s32(v):
    return v - (1 << 32) if v >> 31 else v


@expectation('c10_map')
def c10_map(expected):
    def f(res):
        r = res[0]
        if 'panic' in r:
            return True, 'native panic: ' + r['panic']
        got = sorted(json_key(x) for x in r['final']['client_map'])
        want = sorted(json_key(x) for x in expected)
        return got != want, 'native map %r, required %r' % (got, want)
    return f


def json_key(x):
    return tuple(x)


def o1_claim(chk, prog, n):
    name = 'O1-claim-%dentries' % n
    ob = chk.begin(name, 'Server::claim(pid, key) on a cancel map with %d arbitrary other entries: afterwards (pid, key) maps to THIS server\'s '
                   '(process id, secret key, host, port) and no other entry changed' % n, {'entries': n})
    claim = fn(prog, 'Server::claim')
    ip = chk.interp(prog, name)
    install_stats_noops(ip)

    def harness(ip_):
        m, keys, vals = sym_map(ip_, n)
        spid, skey = ip_.fresh(32, 'server_pid'), ip_.fresh(32, 'server_key')
        cpid, ckey = ip_.fresh(32, 'client_pid'), ip_.fresh(32, 'client_key')
        srv = mk_server(ip_, prog, StreamV([], 'server'), process_id=spid, secret_key=skey,
                        client_server_map=Ptr(Cell(Agg([m], 'Lock'), 'csmap')))
        pre = [(k, clone_value(v)) for k, v in zip(keys, vals)]
        ip_.call_function(claim, [Ptr(Cell(srv, 'server')), cpid, ckey])
        ob.nontrivial += 1
        # reference: entries whose key equals (cpid,ckey) are replaced; all others unchanged; exactly one entry for the key
        conds = []
        mine = [e for e in m.entries if decide(ip_, key_is(e[0], cpid, ckey))]
        okk = len(mine) == 1
        if okk:
            v = mine[0][1].val
            conds.append(z3.And(v.fields[0].z() == spid.z(), v.fields[1].z() == skey.z(), v.fields[3].z() == 5432))
            host = bytes(b.v for b in v.fields[2].items)
            if host != b'h':
                okk = False
        others = [e for e in m.entries if e not in mine]
        pre_others = [(k, v) for k, v in pre if not decide(ip_, key_is(k, cpid, ckey))]
        if len(others) != len(pre_others):
            okk = False
        else:
            for e, (k, v) in zip(others, pre_others):
                conds.append(z3.And(e[0].fields[0].z() == k.fields[0].z(), e[0].fields[1].z() == k.fields[1].z(),
                                    e[1].val.fields[0].z() == v.fields[0].z(), e[1].val.fields[1].z() == v.fields[1].z(),
                                    e[1].val.fields[3].z() == v.fields[3].z()))
        mm = ip_.model_for(z3.Not(z3.And(*conds))) if (okk and conds) else (ip_.model_for() if not okk else None)
        if mm is not None:
            pre_json = [[s32(ev(mm, k.fields[0])), s32(ev(mm, k.fields[1])), s32(ev(mm, v.fields[0])), s32(ev(mm, v.fields[1])),
                         bytes(b.v for b in v.fields[2].items).decode(), ev(mm, v.fields[3])] for k, v in pre]
            cp, ck, sp_, sk = s32(ev(mm, cpid)), s32(ev(mm, ckey)), s32(ev(mm, spid)), s32(ev(mm, skey))
            want = [e for e in pre_json if not (e[0] == cp and e[1] == ck)] + [[cp, ck, sp_, sk, '127.0.0.1', 5432]]
            chk.report(ob, 'C10/O1/claim', 'Server::claim leaves the cancel map in a wrong state', {'map': pre_json, 'client': [cp, ck]},
                       {'commands': [{'op': 'server_script', 'pre': {'client_map': pre_json, 'process_id': sp_, 'secret_key': sk},
                                      'inbound_hex': '', 'steps': [{'do': 'claim', 'pid': cp, 'key': ck}]}], 'expect': ['c10_map', want]})
        if not ob.samples:
            ob.samples.append({'entries_after': len(m.entries)})
    ip.explore(harness)
    chk.absorb(ob, ip)
    chk.end(ob)


def o1_reclaim(chk, prog):
    """A server connection changes hands: S serves client P, P moves on to another server S2 (S2.claim(P)), then S is claimed by client Q.
    P's entry must still name S2 -- P may be running a statement there that it wants to cancel."""
    name = 'O1-reclaim'
    ob = chk.begin(name, 'Server::claim three times (all ids and keys symbolic): S.claim(P), S2.claim(P) (P was released from S and now runs on S2), S.claim(Q): '
                   'afterwards P -> S2 (unless Q == P) and Q -> S; whatever S remembers about its previous claimant must not touch an entry that no longer names S',
                   {'claims': 3})
    claim = fn(prog, 'Server::claim')
    ip = chk.interp(prog, name)
    install_stats_noops(ip)

    def harness(ip_):
        m = MapV('hashmap')
        csm = Ptr(Cell(Agg([m], 'Lock'), 'csmap'))
        ids = {k: ip_.fresh(32, k) for k in ('s_pid', 's_key', 's2_pid', 's2_key', 'p_pid', 'p_key', 'q_pid', 'q_key')}
        ip_.assume(z3.Or(ids['s_pid'].v != ids['s2_pid'].v, ids['s_key'].v != ids['s2_key'].v))
        s1 = Ptr(Cell(mk_server(ip_, prog, StreamV([], 'server'), process_id=ids['s_pid'], secret_key=ids['s_key'], client_server_map=csm), 'server'))
        s2 = Ptr(Cell(mk_server(ip_, prog, StreamV([], 'server2'), process_id=ids['s2_pid'], secret_key=ids['s2_key'], client_server_map=csm), 'server2'))
        ip_.call_function(claim, [s1, ids['p_pid'], ids['p_key']])
        ip_.call_function(claim, [s2, ids['p_pid'], ids['p_key']])
        ip_.call_function(claim, [s1, ids['q_pid'], ids['q_key']])
        ob.nontrivial += 1
        same = z3.And(ids['p_pid'].z() == ids['q_pid'].z(), ids['p_key'].z() == ids['q_key'].z())
        # P's entry
        pe = [e for e in m.entries if decide(ip_, key_is(e[0], ids['p_pid'], ids['p_key']))]
        maybe_pe = [e for e in m.entries if ip_.is_sat(key_is(e[0], ids['p_pid'], ids['p_key']))]
        bad = None
        mm = None
        if len(maybe_pe) == 0 or (len(pe) == 0 and ip_.is_sat(z3.Not(same))):
            mm = ip_.model_for(z3.Not(same))
            bad = 'P has no entry any more'
        else:
            for e in maybe_pe:
                v = e[1].val
                c = z3.And(key_is(e[0], ids['p_pid'], ids['p_key']), z3.Not(same), z3.Not(z3.And(v.fields[0].z() == ids['s2_pid'].z(), v.fields[1].z() == ids['s2_key'].z())))
                mm = ip_.model_for(c)
                if mm is not None:
                    bad = 'P\'s entry does not name S2'
                    break
        if bad:
            g = lambda k: s32(ev(mm, ids[k]))
            want = [[g('p_pid'), g('p_key'), g('s2_pid'), g('s2_key'), '127.0.0.2', 5433], [g('q_pid'), g('q_key'), g('s_pid'), g('s_key'), '127.0.0.1', 5432]]
            chk.report(ob, 'C10/O1/reclaim-drops-live-entry', 'after S.claim(P), S2.claim(P), S.claim(Q): %s -- a CancelRequest with P\'s key reaches nothing (or the wrong session)' % bad,
                       {k: g(k) for k in ids},
                       {'commands': [{'op': 'server_script', 'pre': {'client_map': [], 'process_id': g('s_pid'), 'secret_key': g('s_key')}, 'inbound_hex': '',
                                      'steps': [{'do': 'claim', 'pid': g('p_pid'), 'key': g('p_key')},
                                                {'do': 'map_put', 'pid': g('p_pid'), 'key': g('p_key'), 'spid': g('s2_pid'), 'skey': g('s2_key'), 'host': '127.0.0.2', 'port': 5433},
                                                {'do': 'claim', 'pid': g('q_pid'), 'key': g('q_key')}]}], 'expect': ['c10_map', want]})
        if not ob.samples:
            ob.samples.append({'entries_after': len(m.entries)})
    ip.explore(harness)
    chk.absorb(ob, ip)
    chk.end(ob)


def o1_release(chk, prog, n, which):
    name = 'O1-%s-%dentries' % (which, n)
    ob = chk.begin(name, 'Client::%s on a cancel map with %d arbitrary entries (one of which may be the client\'s own): afterwards the client\'s '
                   '(pid, key) is absent and every other entry is unchanged' % (which, n), {'entries': n})
    f = fn(prog, 'Client::release') if which == 'release' else fn(prog, '<Client as Drop>::drop')
    ip = chk.interp(prog, name)
    install_stats_noops(ip)

    def harness(ip_):
        m, keys, vals = sym_map(ip_, n)
        cpid, ckey = ip_.fresh(32, 'client_pid'), ip_.fresh(32, 'client_key')
        over = dict(process_id=cpid, secret_key=ckey, client_server_map=Ptr(Cell(Agg([m], 'Lock'), 'csmap')))
        if which == 'drop':
            over['transaction_mode'] = sym_flag(ip_, 'transaction_mode')
            over['connected_to_server'] = sym_flag(ip_, 'connected_to_server')
        cl = mk_client(ip_, prog, **over)
        pre = list(zip(keys, vals))
        ip_.call_function(f, [Ptr(Cell(cl, 'client'))])
        ob.nontrivial += 1
        remaining = {id(e[0]) for e in m.entries}
        bad = None
        for k, v in pre:
            mine = decide(ip_, key_is(k, cpid, ckey))
            present = id(k) in remaining
            if mine and present:
                bad = 'the client\'s own entry is still in the cancel map'
            if not mine and not present:
                bad = 'another client\'s entry was removed'
        if bad:
            mm = ip_.model_for()
            pj = [[s32(ev(mm, k.fields[0])), s32(ev(mm, k.fields[1])), s32(ev(mm, v.fields[0])), s32(ev(mm, v.fields[1])),
                   bytes(b.v for b in v.fields[2].items).decode(), ev(mm, v.fields[3])] for k, v in pre]
            cp, ck = s32(ev(mm, cpid)), s32(ev(mm, ckey))
            cmd = {'op': 'client_map_op', 'which': which, 'map': pj, 'pid': cp, 'key': ck}
            if which == 'drop':
                cmd['transaction_mode'] = bool(ev(mm, over['transaction_mode']))
                cmd['connected_to_server'] = bool(ev(mm, over['connected_to_server']))
            want = [e for e in pj if not (e[0] == cp and e[1] == ck)]
            chk.report(ob, 'C10/O1/%s' % which, 'Client::%s: %s' % (which, bad), {'map': pj, 'client': [cp, ck]},
                       {'commands': [cmd], 'expect': ['c10_clientop', want, None]})
        if not ob.samples:
            ob.samples.append({'entries_before': n, 'entries_after': len(m.entries)})
    ip.explore(harness)
    chk.absorb(ob, ip)
    chk.end(ob)


@expectation('c10_clientop')
def c10_clientop(want_map, want_cancels):
    def f(res):
        r = res[0]
        if 'panic' in r or 'error' in r:
            return ('panic' in r), 'native: %r' % (r,)
        d = []
        if want_map is not None and sorted(map(tuple, r['map'])) != sorted(map(tuple, want_map)):
            d.append('map after the operation %r, required %r' % (r['map'], want_map))
        if want_cancels is not None and sorted(map(tuple, r['cancels'])) != sorted(map(tuple, want_cancels)):
            d.append('CancelRequests received by the server %r, required %r' % (r['cancels'], want_cancels))
        return bool(d), '; '.join(d) or 'agrees'
    return f


def o2_cancel(chk, prog, n):
    name = 'O2-cancel-%dentries' % n
    ob = chk.begin(name, 'Client::handle in cancel mode (the short prefix of the coroutine) with a cancel map of %d arbitrary entries and an '
                   'arbitrary (pid, key) in the request: exactly one Server::cancel(host, port, pid, key) with the values mapped for THAT key '
                   'when it is known; no server is contacted when it is unknown' % n, {'entries': n})
    handle = fn(prog, 'Client::handle')
    ip = chk.interp(prog, name)
    install_stats_noops(ip)
    calls = []

    def cancel_rec(c, host, port, pid, key):
        c.ip.env.setdefault('cancels', []).append((host, port, pid, key))
        return Opaque('IoFuture', 'cancel', None)
    ip.overrides.append((re.compile(r'^(?:server::)?Server::cancel$'), cancel_rec))

    def poll_hook(ip_, co, ptr):
        if isinstance(co, Opaque) and co.tag == 'cancel':
            return EnumV(BV(64, 0), {'Ready': [EnumV(BV(64, 0), {'Ok': [unit()]}, 'Result')]}, 'Poll')
        raise Inconclusive('poll of %r' % (co,))
    ip.poll_hook = poll_hook

    def harness(ip_):
        m, keys, vals = sym_map(ip_, n)
        cpid, ckey = ip_.fresh(32, 'req_pid'), ip_.fresh(32, 'req_key')
        cl = mk_client(ip_, prog, cancel_mode=BV(1, 1), process_id=cpid, secret_key=ckey,
                       client_server_map=Ptr(Cell(Agg([m], 'Lock'), 'csmap')))
        r = ip_.drive(ip_.call_function(handle, [Ptr(Cell(cl, 'client'))]))
        ob.nontrivial += 1
        cancels = ip_.env.get('cancels', [])
        hit = None
        for k, v in zip(keys, vals):
            if decide(ip_, key_is(k, cpid, ckey)):
                hit = v
        bad = None
        if hit is None and cancels:
            bad = 'a cancel is sent although the key in the request is unknown'
        elif hit is not None and len(cancels) != 1:
            bad = '%d cancels sent for a known key' % len(cancels)
        elif hit is not None:
            host, port, pid, key = cancels[0]
            cond = z3.And(port.z() == hit.fields[3].z(), pid.z() == hit.fields[0].z(), key.z() == hit.fields[1].z())
            if bytes(b.v for b in items(ip_, host)) != bytes(b.v for b in hit.fields[2].items) or ip_.model_for(z3.Not(cond)) is not None:
                bad = 'the cancel targets a session other than the one mapped for the requester\'s key'
        if len(m.entries) != n:
            bad = bad or 'cancel handling modified the map'
        if bad:
            mm = ip_.model_for()
            pj = [[s32(ev(mm, k.fields[0])), s32(ev(mm, k.fields[1])), s32(ev(mm, v.fields[0])), s32(ev(mm, v.fields[1])),
                   bytes(b.v for b in v.fields[2].items).decode(), ev(mm, v.fields[3])] for k, v in zip(keys, vals)]
            cp, ck = s32(ev(mm, cpid)), s32(ev(mm, ckey))
            wantc = [[e[2], e[3]] for e in pj if e[0] == cp and e[1] == ck]
            chk.report(ob, 'C10/O2/cancel', 'cancel request handling: ' + bad, {'map': pj, 'request': [cp, ck]},
                       {'commands': [{'op': 'client_map_op', 'which': 'cancel', 'map': pj, 'pid': cp, 'key': ck}],
                        'expect': ['c10_clientop', None, wantc]})
        if len(ob.samples) < 2:
            ob.samples.append({'known_key': hit is not None, 'cancels': len(cancels)})
    ip.explore(harness)
    chk.absorb(ob, ip)
    chk.end(ob)


@expectation('c10_roundtrip')
def c10_roundtrip(want_cancels):
    def f(res):
        r = res[0]
        if 'panic' in r or 'error' in r:
            return False, 'native: %r' % (r,)
        got = sorted(tuple(x) for x in r['cancels'])
        want = sorted(tuple(x) for x in want_cancels)
        return got != want, 'native: CancelRequests received by the servers %r, required %r' % (got, want)
    return f


def o3_roundtrip(chk, prog, nclaims):
    """Independent of how the cancel map represents its keys: the map is filled ONLY by the code's own Server::claim, and looked up ONLY
    by the code's own cancel path."""
    name = 'O3-roundtrip-%dclaims' % nclaims
    ob = chk.begin(name, '%d servers claim themselves (Server::claim) for clients with SYMBOLIC (pid, key); then Client::handle in cancel mode with '
                   'a SYMBOLIC requested (pid, key): a CancelRequest goes out iff the requested pair equals a claimed pair in BOTH halves, and then '
                   'to exactly that server with that server\'s own (pid, key)' % nclaims, {'claims': nclaims})
    claim = fn(prog, 'Server::claim')
    handle = fn(prog, 'Client::handle')
    ip = chk.interp(prog, name)
    install_stats_noops(ip)

    def cancel_rec(c, host, port, pid, key):
        c.ip.env.setdefault('cancels', []).append((host, port, pid, key))
        return Opaque('IoFuture', 'cancel', None)
    ip.overrides.append((re.compile(r'^(?:server::)?Server::cancel$'), cancel_rec))

    def poll_hook(ip_, co, ptr):
        if isinstance(co, Opaque) and co.tag == 'cancel':
            return EnumV(BV(64, 0), {'Ready': [EnumV(BV(64, 0), {'Ok': [unit()]}, 'Result')]}, 'Poll')
        raise Inconclusive('poll of %r' % (co,))
    ip.poll_hook = poll_hook

    def harness(ip_):
        csp = Ptr(Cell(Agg([MapV('hashmap')], 'Lock'), 'csmap'))
        pairs = []
        for i in range(nclaims):
            cp, ck = ip_.fresh(32, 'claim%d_pid' % i), ip_.fresh(32, 'claim%d_key' % i)
            for (p0, k0, _s) in pairs:
                ip_.assume(z3.Not(z3.And(p0.z() == cp.z(), k0.z() == ck.z())))
            srv = mk_server(ip_, prog, StreamV([], 'server%d' % i), process_id=BV(32, 5000 + i), secret_key=BV(32, 6000 + i), client_server_map=csp)
            ip_.call_function(claim, [Ptr(Cell(srv, 'server%d' % i)), cp, ck])
            pairs.append((cp, ck, i))
        rp, rk = ip_.fresh(32, 'req_pid'), ip_.fresh(32, 'req_key')
        cl = mk_client(ip_, prog, cancel_mode=BV(1, 1), process_id=rp, secret_key=rk, client_server_map=csp)
        ip_.drive(ip_.call_function(handle, [Ptr(Cell(cl, 'client'))]))
        ob.nontrivial += 1
        cancels = ip_.env.get('cancels', [])
        hit = None
        for cp, ck, i in pairs:
            if decide(ip_, z3.And(cp.z() == rp.z(), ck.z() == rk.z())):
                hit = i
        bad = None
        if hit is None and cancels:
            bad = 'a CancelRequest is sent although the requested (pid, key) was never issued'
        elif hit is not None and len(cancels) != 1:
            bad = '%d CancelRequests for an issued key' % len(cancels)
        elif hit is not None:
            host, port, pid, key = cancels[0]
            if ip_.model_for(z3.Not(z3.And(pid.z() == 5000 + hit, key.z() == 6000 + hit))) is not None:
                bad = 'the CancelRequest does not carry the key of the server that claimed itself for the requester'
        if bad:
            mm = ip_.model_for()
            claims = [[s32(ev(mm, cp)), s32(ev(mm, ck))] for cp, ck, _ in pairs]
            req = [s32(ev(mm, rp)), s32(ev(mm, rk))]
            want = [[5000 + i, 6000 + i] for i, c in enumerate(claims) if c == req]
            chk.report(ob, 'C10/O3/roundtrip', bad + ' (claims %r, request %r)' % (claims, req), {'claims': claims, 'request': req},
                       {'commands': [{'op': 'cancel_roundtrip', 'claims': claims, 'request': req}], 'expect': ['c10_roundtrip', want]})
        if len(ob.samples) < 2:
            ob.samples.append({'issued': hit is not None, 'cancels': len(cancels)})
    ip.explore(harness)
    chk.absorb(ob, ip)
    chk.end(ob)


def _dispatch(chk, f, args):
    f(chk, *args)


def main(chk):
    chk.explanation = (
        'Solver-based checking of the cancel-key bookkeeping executed from MIR with SYMBOLIC map contents: Server::claim, Client::release '
        'and <Client as Drop>::drop on a cancel map holding arbitrary other entries (one inductive step per operation, so any history of '
        'claims/releases is covered), and the cancel-mode prefix of Client::handle with Server::cancel replaced by a recorder: a '
        'cancel is issued only for a known key and with exactly the mapped (host, port, pid, key). (O1-reclaim) a server that changes hands -- S.claim(P), S2.claim(P), S.claim(Q), all ids symbolic -- '
        'leaves P mapped to S2: nothing a connection remembers about an earlier claimant may touch an entry that no longer names it.')
    chk.assumptions += [
        'WHEN claim / release happen relative to checkout and transaction end (call sites in Client::handle), stale-key timing and the '
        'throw-away TCP connection of Server::cancel are outside the claim',
        'HashMap modelled as an association list with symbolic-key lookups; parking_lot Mutex single-threaded',
    ]
    prog = chk.program('on')
    tasks = []
    for n in (0, 1, 2):
        tasks.append((o1_claim, (prog, n)))
        tasks.append((o1_release, (prog, n, 'release')))
        tasks.append((o1_release, (prog, n, 'drop')))
        tasks.append((o2_cancel, (prog, n)))
    tasks.append((o1_reclaim, (prog,)))
    tasks.append((o3_roundtrip, (prog, 1)))
    tasks.append((o3_roundtrip, (prog, 2)))
    chk.parallel(_dispatch, tasks)

    # the cancel map along whole sessions (Client::handle executed): the key maps to the held server, and to nothing once it is released / the client is gone
    hobl.handle_obligations(chk, chk.program('on'), {'C10'}, ['simple', 'session', 'extended', 'cuts', 'malformed', 'copy', 'two-clients', 'drops', 'timeouts'])

if __name__ == '__main__':
    run_check('C10', main)
