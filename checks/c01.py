#!/usr/bin/env python3-vt
"""C01 -- a server connection serves one client at a time, for a whole transaction (the pgcat side, one session at a time)."""
import os, sys, re
sys.path.insert(0, os.path.dirname(os.path.dirname(os.path.abspath(__file__))))
from harness.common import run_check
from checks import hobl


def main(chk):
    chk.explanation = (
        'Solver-based checking of the pgcat side of C01: the real Client::handle coroutine is executed from MIR against reference PostgreSQL '
        'backends on families of client sessions (simple and extended protocol, COPY, failing statements, symbolic statement names / kinds / '
        'message codes, backends that report an arbitrary reachable transaction status after every statement, transaction and session pool '
        'mode, one or two servers).  On every path: the session never holds two server connections at once; while the backend that executed '
        'the client\'s last statement is inside a transaction (its own ground truth), the next statement of the client is executed on that same '
        'backend and the pooler does not end the transaction on its own while the client is connected; a connection is handed back for reuse '
        'only when the backend is outside a transaction (or it is discarded); every reply the client receives is the next reply its own '
        'backend produced for its own request, and no result message that was produced for anybody else\'s statement (replies around the 8 KiB relay threshold included).  '
        'Outside the client loop: ConnectionPool::get / run_health_check with solver-chosen health-check outcomes -- a connection whose health check failed or timed out '
        'is marked bad, so a reply that arrives late on it can never be served to the next client.  Exclusive lending between concurrent clients is bb8\'s contract (assumed).')
    chk.assumptions += [
        'bb8 lends a connection to one borrower at a time (library contract); interleavings of several client tasks are not encoded',
        'the reference backend implements the protocol documentation for the statements in the families; Flush-terminated batches are outside the claim (this pgcat version discards Flush)',
    ]
    prog = chk.program('on')
    # outside the client loop: a connection whose health check failed or TIMED OUT at checkout (the reply may still arrive later) must not stay in
    # the pool -- whoever got it next would read that reply as the answer to its own statement (ConnectionPool::get / run_health_check from MIR)
    import checks.c07 as c07
    for roles in ((1,), (0, 1)):
        c07.o3_get(chk, prog, roles, [], only={'failed-healthcheck-not-bad'}, props=('C01',))
    hobl.handle_obligations(chk, prog, {'C01'}, ['simple', 'session', 'extended', 'named', 'cuts', 'status', 'two-backends', 'malformed', 'copy', 'two-clients', 'timeouts', 'drops', 'checkout-failures', 'cache'])


if __name__ == '__main__':
    run_check('C01', main)
