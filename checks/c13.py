#!/usr/bin/env python3-vt
"""C13 -- the SET/SHOW routing commands behave as a small, exact language."""
import os, sys, time, itertools
sys.path.insert(0, os.path.dirname(os.path.dirname(os.path.abspath(__file__))))
import z3
from harness.common import run_check, expectation
from harness import refs
from harness.pgcat_state import *
from harness import cmdref
from mirsym.interp import Panic, Inconclusive, Interp
from mirsym.values import *
from mirsym import rx
from mirsym.models.util import items, deref, conj, val_eq
from native import oracle
from checks import hobl

UREM = z3.Function('urem_uf', z3.BitVecSort(64), z3.BitVecSort(64), z3.BitVecSort(64))
CMD_NAMES = cmdref.CMD_NAMES


def extract_regexes(chk, prog):
    """The regex literals as the code uses them: evaluate `const CUSTOM_SQL_REGEXES` from the MIR."""
    ip = chk.interp(prog, 'extract')
    cands = [f for n, f in prog.consts.items() if n.split('::')[-1] == 'CUSTOM_SQL_REGEXES']
    if len(cands) != 1:
        raise Inconclusive("cannot locate CUSTOM_SQL_REGEXES")
    out = []

    def h(ip_):
        v = ip_.call_function(cands[0], [])
        for p in v.items:
            out.append(bytes(b.v for b in items(ip_, p)).decode())
    ip.explore(h)
    chk.functions[cands[0].name] = cands[0].text_hash
    return out


# ------------------------------------------------------------------------------------------------ O1
def sat_string(s, conds, timeout_ms):
    sol = z3.Solver()
    sol.set('timeout', timeout_ms)
    for c in conds:
        sol.add(c)
    t = time.time()
    r = sol.check()
    dt = time.time() - t
    if r == z3.sat:
        return 'sat', sol.model()[s].as_string() if sol.model()[s] is not None else '', dt
    return ('unsat' if r == z3.unsat else 'unknown'), None, dt


def z3str_to_py(s):
    # z3 escapes non-printables as \u{..}
    import re
    return re.sub(r'\\u\{([0-9a-fA-F]+)\}', lambda m: chr(int(m.group(1), 16)), s)


def replay_commands(query, settings=None, pre=None):
    return [{'op': 'qr_seq', 'settings': settings or {'shards': 3}, 'pre': pre or {},
             'steps': [{'do': 'command', 'query': query}]}]


def o1_language(chk, regexes):
    ob = chk.begin('O1-language', 'for each command i: L_i subset impl_i subset U_i; impl_i pairwise disjoint '
                   '(z3 sequence theory, unbounded length, ASCII alphabet)', {'alphabet': 'ASCII', 'length': 'unbounded'})
    if len(regexes) != 7:
        raise Inconclusive("expected 7 command regexes, found %d" % len(regexes))
    s = z3.String('s')
    ascii_only = z3.InRe(s, z3.Star(z3.Range(chr(1), chr(127))))
    impl = []
    for p in regexes:
        try:
            impl.append(rx.to_re(p))
        except Exception as e:
            raise Inconclusive("regex outside supported subset: %r (%s)" % (p, e))
    L = [rx.to_re(p) for p in cmdref.L]
    U = [rx.to_re(p) for p in cmdref.U]

    def query(name, conds, key, what, expect_fn):
        r, w, dt = sat_string(s, [ascii_only] + conds, chk.timeout_ms)
        ob.stats.queries += 1
        ob.stats.solver_s += dt
        ob.nontrivial += 1
        if r == 'unknown':
            ob.stats.unknown += 1
            chk.note_inconclusive('z3 returned unknown for ' + name)
            return
        if r == 'unsat':
            ob.stats.unsat += 1
            return
        ob.stats.sat += 1
        w = z3str_to_py(w)
        chk.report(ob, key, what % w, {'query': w}, {'commands': replay_commands(w), 'expect': expect_fn(w)})

    for i in range(7):
        eu = lambda w: ['c13_upper', w]
        el = lambda w, i=i: ['c13_lower', w, CMD_NAMES[i]]
        query('impl_%d subset U_%d' % (i, i), [z3.InRe(s, impl[i]), z3.Not(z3.InRe(s, U[i]))],
              'C13/O1/upper/%s' % CMD_NAMES[i], 'pooler treats non-command %%r as %s' % CMD_NAMES[i], eu)
        query('L_%d subset impl_%d' % (i, i), [z3.InRe(s, L[i]), z3.Not(z3.InRe(s, impl[i]))],
              'C13/O1/lower/%s' % CMD_NAMES[i], 'documented %s spelling %%r is not recognised' % CMD_NAMES[i], el)
    for i, j in itertools.combinations(range(7), 2):
        query('impl_%d disjoint impl_%d' % (i, j), [z3.InRe(s, impl[i]), z3.InRe(s, impl[j])],
              'C13/O1/overlap/%s-%s' % (CMD_NAMES[i], CMD_NAMES[j]), 'query %%r matches two command regexes', lambda w: ['c13_overlap', w])
    # vacuity witnesses: every language is non-empty
    for i in range(7):
        r, w, dt = sat_string(s, [ascii_only, z3.InRe(s, impl[i]), z3.InRe(s, L[i])], chk.timeout_ms)
        ob.stats.queries += 1
        ob.stats.solver_s += dt
        if r != 'sat':
            ob.status = 'vacuous'
        else:
            ob.stats.sat += 1
            ob.witnesses.append('%s: %r' % (CMD_NAMES[i], z3str_to_py(w)))
    ob.samples.append({'regexes_from_MIR': regexes})
    chk.end(ob)


# ------------------------------------------------------------------------------------------------ O2
class SymState:
    pass


def build_router(ip, prog, fns, shard_bound, regex_limit=None):
    ip.call_function(fns['setup'], [])
    qr = ip.call_function(fns['new'], [])
    ps = getf(prog, qr, 'QueryRouter', 'pool_settings')
    st = SymState()
    st.shards = ip.fresh(64, 'shards')
    ip.assume(z3.And(z3.UGE(st.shards.v, 1), z3.ULE(st.shards.v, shard_bound)))
    setf(prog, ps, 'PoolSettings', 'shards', st.shards)
    st.default_role = sym_option(ip, sym_enum(ip, 'Role', 'default_role', ('Primary', 'Replica')), 'default_role')
    setf(prog, ps, 'PoolSettings', 'default_role', st.default_role)
    st.regex_limit = regex_limit
    if regex_limit is not None:
        # (the bound of the shard-COMMENT scan -- a per-pool option; the command language must not depend on it)
        setf(prog, ps, 'PoolSettings', 'regex_search_limit', BV(64, regex_limit))
    st.pool_qpe = sym_bool(ip, 'pool_qpe')
    setf(prog, ps, 'PoolSettings', 'query_parser_enabled', st.pool_qpe)
    st.pool_pre = sym_bool(ip, 'pool_pre')
    setf(prog, ps, 'PoolSettings', 'primary_reads_enabled', st.pool_pre)
    sh = ip.fresh(64, 'pre_shard')
    ip.assume(z3.ULT(sh.v, shard_bound))
    st.active_shard = sym_option(ip, sh, 'pre_shard')
    setf(prog, qr, 'QueryRouter', 'active_shard', st.active_shard)
    st.active_role = sym_option(ip, sym_enum(ip, 'Role', 'pre_role', ('Primary', 'Replica')), 'pre_role')
    setf(prog, qr, 'QueryRouter', 'active_role', st.active_role)
    st.qpe = sym_option(ip, sym_bool(ip, 'pre_qpe'), 'pre_qpe')
    setf(prog, qr, 'QueryRouter', 'query_parser_enabled', st.qpe)
    st.pre = sym_option(ip, sym_bool(ip, 'pre_pre'), 'pre_pre')
    setf(prog, qr, 'QueryRouter', 'primary_reads_enabled', st.pre)
    return qr, st


def opt_eq(a, b):
    """z3 Bool: two Option values are equal (discr and, if Some, payload)."""
    da, db = a.discr.z(), b.discr.z()
    pa, pb = a.variants.get('Some'), b.variants.get('Some')
    c = [da == db]
    if pa and pb:
        x, y = pa[0], pb[0]
        if isinstance(x, EnumV):
            x, y = x.discr, y.discr
        c.append(z3.Implies(da == 1, x.z() == y.z()))
    return z3.And(*c)


def opt_is(a, some, payload=None):
    """z3 Bool: Option a is None / Some(payload)."""
    d = a.discr.z()
    if not some:
        return d == 0
    p = a.variants.get('Some', [None])[0]
    if isinstance(p, EnumV):
        p = p.discr
    pv = payload.z() if isinstance(payload, BV) else payload
    if p is None:
        return z3.BoolVal(False)
    return z3.And(d == 1, p.z() == pv)


def model_state(m, st, qbytes):
    """Concrete pre-state / settings / query from a z3 model, in oracle format."""
    def ev(x):
        return m.eval(x.z(), True).as_long()

    def evopt(o, conv=lambda v: v):
        if ev(o.discr) == 0:
            return None
        p = o.variants['Some'][0]
        if isinstance(p, EnumV):
            p = p.discr
        return conv(ev(p))
    settings = {'shards': ev(st.shards), 'default_role': evopt(st.default_role, role_name) or 'any',
                'query_parser_enabled': bool(ev(st.pool_qpe)), 'primary_reads_enabled': bool(ev(st.pool_pre))}
    if getattr(st, 'regex_limit', None) is not None:
        settings['regex_search_limit'] = st.regex_limit
    pre = {}
    v = evopt(st.active_shard)
    if v is not None:
        pre['active_shard'] = v
    v = evopt(st.active_role, role_name)
    if v is not None:
        pre['active_role'] = v
    v = evopt(st.qpe, bool)
    if v is not None:
        pre['qpe_override'] = v
    v = evopt(st.pre, bool)
    if v is not None:
        pre['pre_override'] = v
    q = bytes(ev(b) for b in qbytes).decode('latin1')
    return settings, pre, q


def digits_value(bs, W=80):
    acc = z3.BitVecVal(0, W)
    for b in bs:
        acc = acc * 10 + z3.ZeroExt(W - 8, b.z() - 48)
    return acc


def lower(b):
    z = b.z()
    return z3.If(z3.And(z3.UGE(z, 65), z3.ULE(z, 90)), z + 32, z)


def word_is(bs, w):
    if len(bs) != len(w):
        return z3.BoolVal(False)
    return z3.And(*[lower(b) == ord(ch) for b, ch in zip(bs, w)])


@expectation('c13_differs')
def expect_native_differs(settings, pre, q):
    """Replay predicate: native behaviour differs from the concrete reference state machine."""
    def f(res):
        st = res[0]['steps'][0]
        want = cmdref.step(settings, pre, q)
        return cmdref.differs(want, st)
    return f


@expectation('c13_upper')
def exp_upper(w):
    def f(res):
        st = res[0]['steps'][0]
        handled = st.get('cmd') is not None or 'panic' in st
        return (handled and cmdref.classify(w)[0] is None, 'native: %r; reference says not a command' % (st,))
    return f


@expectation('c13_lower')
def exp_lower(w, name):
    def f(res):
        st = res[0]['steps'][0]
        return (st.get('cmd') is None and 'panic' not in st, 'native: %r; documented spelling of %s' % (st, name))
    return f


@expectation('c13_overlap')
def exp_dis(w):
    def f(res):
        st = res[0]['steps'][0]
        return (st.get('cmd') is None, 'native: %r (two regexes match -> not handled)' % (st,))
    return f


def o2_semantics(chk, prog, n, shard_bound, template=None, prefix='C13/O2', only_cmds=None, regex_limit=None):
    """template: None (all n bytes symbolic) or (prefix, ndigits, suffix): concrete text around symbolic bytes."""
    if template is not None:
        n = len(template[0]) + template[1] + len(template[2])
    fns = {'setup': prog.lookup('QueryRouter::setup')[0], 'new': prog.lookup('QueryRouter::new')[0],
           'tec': prog.lookup('QueryRouter::try_execute_command')[0]}
    if template is None:
        ob = chk.begin('O2-semantics-len%d' % n + ('-limit%d' % regex_limit if regex_limit is not None else ''),
                       'one command from an arbitrary router state, every ASCII query of length %d: recognised iff in the '
                       'language, state update and SHOW value as documented, no panic' % n,
                       {'query_length': n, 'shards': '1..%d' % shard_bound, 'pre_state': 'arbitrary'})
    else:
        ob = chk.begin('O2-numeric-%s%d%s' % (template[0].replace(' ', '_'), template[1], template[2]) + ('-limit%d' % regex_limit if regex_limit is not None else ''),
                       'one command from an arbitrary router state, query = %r + %d arbitrary ASCII bytes + %r: '
                       'recognised iff in the language, documented state update, no panic (numeric arguments of any length)'
                       % (template[0], template[1], template[2]),
                       {'template': list(template), 'shards': '1..%d' % shard_bound, 'pre_state': 'arbitrary'})
    ip = chk.interp(prog, ob.name)
    refU = [rx.Compiled(p) for p in cmdref.U]
    refL = [rx.Compiled(p) for p in cmdref.L]
    seen_cmds = set()

    def hook(ip_, op, a, b, sgn):
        if op == 'Rem' and not sgn and a.w == 64 and not (a.concrete and b.concrete):
            t = bv(64, UREM(a.z(), b.z()))
            ip_.assume(z3.Implies(b.z() != 0, z3.ULT(t.z(), b.z())))
            return t
        return None
    ip.divrem_hook = hook

    def harness(ip_):
        qr, st = build_router(ip_, prog, fns, shard_bound, regex_limit)
        if template is None:
            qb = [ip_.fresh(8, 'q%d' % i) for i in range(n)]
        else:
            qb = [BV(8, ord(ch)) for ch in template[0]] + [ip_.fresh(8, 'q%d' % i) for i in range(template[1])] + \
                 [BV(8, ord(ch)) for ch in template[2]]
        for b in qb:
            if not b.concrete:
                ip_.assume(z3.And(b.v != 0, z3.ULT(b.v, 128)))
        msg = msg_Q(qb)
        bs = [b.v for b in qb]
        panic = None
        try:
            res = ip_.call_function(fns['tec'], [Ptr(Cell(qr, 'qr')), Ptr(Cell(msg, 'msg'))])
        except Panic as p:
            panic = p
        ob.nontrivial += 1
        # reference classification of the query (forks; at most one U_k can hold)
        kref = ip_.first_true([refU[k].is_match(bs) for k in range(7)], 'refU')
        arg = None
        if kref in (0, 1, 3, 5):
            cands = refU[kref].capture1(bs)
            j = ip_.first_true([f for (_, _, f) in cands], 'refarg')
            if j is None:
                raise Inconclusive("reference argument extraction failed")
            arg = qb[cands[j][0]:cands[j][1]]

        def witness(cond, key, what):
            m = ip_.model_for(cond)
            if m is None:
                return False
            settings, pre, q = model_state(m, st, qb)
            chk.report(ob, key, what + ' (query %r)' % q, {'settings': settings, 'pre': pre, 'query': q},
                       {'commands': [{'op': 'qr_seq', 'settings': settings, 'pre': pre, 'steps': [{'do': 'command', 'query': q}]}],
                        'expect': ['c13_differs', settings, pre, q]})
            return True

        if panic is not None:
            # classify the panic by input class
            key = prefix + '/panic/%s' % (CMD_NAMES[kref] if kref is not None else 'non-command')
            if kref == 0:
                # known class: key does not fit i64
                big = z3.UGT(digits_value(arg), z3.BitVecVal((1 << 63) - 1, 80))
                if witness(big, key + '/key-exceeds-i64', 'SET SHARDING KEY with a key above i64::MAX panics'):
                    pass
                witness(z3.Not(big), key + '/other', 'SET SHARDING KEY panics: ' + panic.msg)
            elif kref == 1:
                isdig = z3.And(*[z3.And(z3.UGE(b.z(), 48), z3.ULE(b.z(), 57)) for b in arg])
                big = z3.And(isdig, z3.UGT(digits_value(arg), z3.BitVecVal((1 << 64) - 1, 80)))
                witness(big, key + '/shard-exceeds-usize', 'SET SHARD with a number above usize::MAX panics')
                witness(z3.Not(big), key + '/other', 'SET SHARD panics: ' + panic.msg)
            else:
                witness(True, key, 'try_execute_command panics: ' + panic.msg)
            return 'panic'

        handled = res.discr.v == 1
        qr_shard = getf(prog, qr, 'QueryRouter', 'active_shard')
        qr_role = getf(prog, qr, 'QueryRouter', 'active_role')
        qr_qpe = getf(prog, qr, 'QueryRouter', 'query_parser_enabled')
        qr_pre = getf(prog, qr, 'QueryRouter', 'primary_reads_enabled')
        same = {'shard': opt_eq(qr_shard, st.active_shard), 'role': opt_eq(qr_role, st.active_role),
                'qpe': opt_eq(qr_qpe, st.qpe), 'pre': opt_eq(qr_pre, st.pre)}
        if not handled:
            if kref is not None:
                # allowed only outside the documented core L_k
                witness(refL[kref].is_match(bs), prefix + '/not-handled/%s' % CMD_NAMES[kref],
                        'documented %s command is not handled by the pooler' % CMD_NAMES[kref])
            witness(z3.Not(z3.And(*same.values())), prefix + '/state-changed-by-non-command',
                    'a query that is not handled changes routing state')
            return 'none'
        tup = res.variants['Some'][0]
        cmd = tup.fields[0].discr.v
        value = tup.fields[1]
        seen_cmds.add(cmd)
        if kref is None:
            witness(True, prefix + '/handled-non-command', 'a query outside the command language is handled as %s' % CMD_NAMES[cmd])
            return 'bad'
        if cmd != kref:
            witness(True, prefix + '/wrong-command', '%s command handled as %s' % (CMD_NAMES[kref], CMD_NAMES[cmd]))
            return 'bad'
        exp = dict(same)
        vexp = None
        K = CMD_NAMES[kref]
        if kref == 0:
            key64 = z3.Extract(63, 0, digits_value(arg))
            want = UREM(refs.pg_partition_hash(refs.Z3Ops(), key64), st.shards.z())
            exp['shard'] = opt_is(qr_shard, True, want)
        elif kref == 1:
            isany = word_is(arg, 'any')
            num = z3.Extract(63, 0, digits_value(arg))
            p = qr_shard.variants.get('Some', [BV(64, 0)])[0]
            exp['shard'] = z3.And(qr_shard.discr.z() == 1,
                                  z3.If(isany, z3.ULT(p.z(), st.shards.z()), p.z() == num))
        elif kref == 3:
            dr = st.default_role
            exp['role'] = z3.Or(
                z3.And(word_is(arg, 'primary'), opt_is(qr_role, True, BV(64, 0))),
                z3.And(word_is(arg, 'replica'), opt_is(qr_role, True, BV(64, 1))),
                z3.And(z3.Or(word_is(arg, 'any'), word_is(arg, 'auto')), opt_is(qr_role, False)),
                z3.And(word_is(arg, 'default'), opt_eq(qr_role, dr)))
            exp['qpe'] = z3.Or(
                z3.And(z3.Or(word_is(arg, 'primary'), word_is(arg, 'replica'), word_is(arg, 'any')), opt_is(qr_qpe, True, BV(1, 0))),
                z3.And(word_is(arg, 'auto'), opt_is(qr_qpe, True, BV(1, 1))),
                z3.And(word_is(arg, 'default'), opt_is(qr_qpe, False)))
        elif kref == 5:
            exp['pre'] = z3.Or(
                z3.And(word_is(arg, 'on'), opt_is(qr_pre, True, BV(1, 1))),
                z3.And(word_is(arg, 'off'), opt_is(qr_pre, True, BV(1, 0))),
                z3.And(word_is(arg, 'default'), opt_is(qr_pre, False)))
        for fld, cnd in exp.items():
            witness(z3.Not(cnd), prefix + '/%s/state-%s' % (K, fld), '%s leaves %s in a state other than documented' % (K, fld))
        # SHOW values
        vb = items(ip_, value)
        if kref == 2:
            # "unset" or decimal shard
            sh = st.active_shard
            unset = [BV(8, c) for c in b'unset']
            is_unset = conj([val_eq(ip_, a, b) for a, b in zip(vb, unset)]) if len(vb) == 5 else False
            from mirsym.models.fmt import render_int
            c_none = z3.Implies(sh.discr.z() == 0, is_unset if not isinstance(is_unset, bool) else z3.BoolVal(is_unset))
            dv = digits_value(vb, 80) if all(True for _ in vb) else None
            alld = z3.And(*[z3.And(z3.UGE(b.z(), 48), z3.ULE(b.z(), 57)) for b in vb]) if vb else z3.BoolVal(False)
            c_some = z3.Implies(sh.discr.z() == 1, z3.And(alld, z3.Extract(63, 0, dv) == sh.variants['Some'][0].z()))
            witness(z3.Not(z3.And(c_none, c_some)), prefix + '/ShowShard/value', 'SHOW SHARD does not report the selected shard')
        elif kref == 4:
            def is_s(w):
                return conj([val_eq(ip_, a, BV(8, ord(ch))) for a, ch in zip(vb, w)]) if len(vb) == len(w) else False

            def zb(x):
                return x if not isinstance(x, bool) else z3.BoolVal(x)
            role = st.active_role
            rd = role.discr.z()
            rp = role.variants['Some'][0].discr.z()
            eff_qpe = z3.If(st.qpe.discr.z() == 1, st.qpe.variants['Some'][0].z() == 1, st.pool_qpe.z() == 1)
            want = z3.And(
                z3.Implies(z3.And(rd == 1, rp == 0), zb(is_s('primary'))),
                z3.Implies(z3.And(rd == 1, rp == 1), zb(is_s('replica'))),
                z3.Implies(z3.And(rd == 0, eff_qpe), zb(is_s('auto'))),
                z3.Implies(z3.And(rd == 0, z3.Not(eff_qpe)), zb(is_s('any'))))
            witness(z3.Not(want), prefix + '/ShowServerRole/value', 'SHOW SERVER ROLE does not report the selected role')
        elif kref == 6:
            def is_s(w):
                return conj([val_eq(ip_, a, BV(8, ord(ch))) for a, ch in zip(vb, w)]) if len(vb) == len(w) else False

            def zb(x):
                return x if not isinstance(x, bool) else z3.BoolVal(x)
            eff = z3.If(st.pre.discr.z() == 1, st.pre.variants['Some'][0].z() == 1, st.pool_pre.z() == 1)
            want = z3.And(z3.Implies(eff, zb(is_s('on'))), z3.Implies(z3.Not(eff), zb(is_s('off'))))
            witness(z3.Not(want), prefix + '/ShowPrimaryReads/value', 'SHOW PRIMARY READS does not report the setting')
        if len(ob.samples) < 4:
            m = ip_.model_for()
            settings, pre, q = model_state(m, st, qb)
            ob.samples.append({'query_example': q, 'command': K, 'pre_state': pre, 'settings': settings})
        return 'handled'

    res = ip.explore(harness, max_paths=60000)
    chk.absorb(ob, ip)
    ob.extra['commands_reached'] = sorted(CMD_NAMES[c] for c in seen_cmds)
    chk.end(ob)
    return seen_cmds


def validate_translation(chk, prog):
    """Concrete spellings (the repo's own test spellings plus near misses) through interpreter and native."""
    qs = cmdref.VALIDATION_QUERIES
    native = oracle.run([{'op': 'qr_seq', 'settings': {'shards': 5}, 'pre': {}, 'steps': [{'do': 'command', 'query': q}]} for q in qs])
    fns = {'setup': prog.lookup('QueryRouter::setup')[0], 'new': prog.lookup('QueryRouter::new')[0],
           'tec': prog.lookup('QueryRouter::try_execute_command')[0]}
    bad = 0
    for q, nat in zip(qs, native):
        ip = Interp(prog, havoc=False, name='validate')
        out = {}

        def h(ip_):
            ip_.call_function(fns['setup'], [])
            qr = ip_.call_function(fns['new'], [])
            ps = getf(prog, qr, 'QueryRouter', 'pool_settings')
            setf(prog, ps, 'PoolSettings', 'shards', BV(64, 5))
            try:
                r = ip_.call_function(fns['tec'], [Ptr(Cell(qr, 'qr')), Ptr(Cell(msg_Q([BV(8, b) for b in q.encode()]), 'm'))])
            except Panic as p:
                out['r'] = ('panic', None)
                return
            if r.discr.v == 0:
                out['r'] = (None, None)
            else:
                t = r.variants['Some'][0]
                out['r'] = (CMD_NAMES[t.fields[0].discr.v], bytes(b.v for b in t.fields[1].items).decode())
                sh = getf(prog, qr, 'QueryRouter', 'active_shard')
                out['shard'] = None if sh.discr.v == 0 else sh.variants['Some'][0]
        ip.explore(h)
        st = nat['steps'][0]
        if 'panic' in st:
            got_nat = ('panic', None)
        else:
            got_nat = (st.get('cmd'), st.get('value'))
        mine = out.get('r')
        if mine[0] != got_nat[0] or (mine[0] not in ('panic', None, 'SetShard') and mine[1] != got_nat[1]):
            bad += 1
            chk.validation['notes'].append('query %r: interpreter %r native %r' % (q, mine, got_nat))
        # rx engine vs the regex crate: classification must agree with native for every validation query
    chk.validated(len(qs), bad, 'try_execute_command on %d concrete queries: interpreter vs native' % len(qs) if bad else '')


def main(chk):
    chk.explanation = (
        'Solver-based checking: the seven command regexes are read from the MIR constant of this build and decided as regular '
        'languages by z3 (inclusion in / of the documented language, pairwise disjointness, unbounded length); '
        'QueryRouter::try_execute_command is executed symbolically from MIR for EVERY ASCII query string of each length in the bound '
        'from an ARBITRARY router state (so command histories of any length are covered by one inductive step), and the result '
        'is compared with a reference state machine. Counterexamples are replayed natively.')
    chk.explanation += (' The O2 obligations are repeated with regex_search_limit (the bound of the shard-comment scan, a per-pool option) shorter than the commands: the language '
                        'does not depend on it.')
    chk.assumptions += [
        'ASCII alphabet (non-ASCII Unicode case folding of (?i) is outside the claim)',
        'regex crate semantics as modelled by mirsym/rx.py (validated against the real crate on concrete spellings each run)',
        'O2: pool shard count in 1..bound, pre-state shard below bound; sharding function PgBigintHash; comment-regex routing disabled',
        'replies (handle_custom_protocol in Client::handle) and "never forwarded" are outside the claim',
    ]
    prog = chk.program('on')
    regexes = extract_regexes(chk, prog)
    validate_translation(chk, prog)
    o1_language(chk, regexes)

    lens = cmdref.quick_lengths() if not chk.thorough else list(range(0, 35))
    sb = 1000 if not chk.thorough else 100000
    tasks = [(prog, n, sb) for n in sorted(lens, reverse=True)]
    digs = [1, 2, 18, 19, 20, 21] if not chk.thorough else list(range(1, 24))
    for d in digs:
        tasks.append((prog, 0, sb, ("SET SHARDING KEY TO ", d, "")))
        tasks.append((prog, 0, sb, ("set shard to '", d, "';")))
    # the command language does not depend on regex_search_limit (the bound of the shard-comment scan, a per-pool option): the same obligations with
    # a limit shorter than the commands
    tasks.append((prog, 10, sb, None, 'C13/O2', None, 5))
    tasks.append((prog, 14, sb, None, 'C13/O2', None, 5))
    tasks.append((prog, 0, sb, ("SET SHARD TO ", 3, ""), 'C13/O2', None, 15))
    chk.parallel(o2_semantics, tasks)
    seen = set()
    for o in chk.obligations:
        seen |= set(o.extra.get('commands_reached', []))
    if len(seen) != 7:
        chk.note_inconclusive('vacuity: only commands %r were reached by O2' % sorted(seen))

    hobl.handle_obligations(chk, chk.program('on'), {'C13'}, ['commands'])

if __name__ == '__main__':
    run_check('C13', main)
