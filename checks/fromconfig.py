"""ConnectionPool::from_config executed from MIR (validate_config = false: nothing is connected): shared by
C20 (mirror -> server mapping), C15 (accepted => servable, end to end through the pool construction) and C14
(unchanged pools are reused, removed pools disappear)."""
import os, sys, re
sys.path.insert(0, os.path.dirname(os.path.dirname(os.path.abspath(__file__))))
import z3
from checks.serverfam import *
from checks.c15 import mk_server as mk_srvcfg, mk_shard, rstring as _rs


def mk_mirror(prog, host, port, target):
    names = prog.src.structs['MirrorServerConfig']
    vals = {'host': host, 'port': port, 'mirroring_target_index': target}
    return Agg([vals[n] for n in names], 'MirrorServerConfig', list(names))


def base_config(ip, prog):
    cfg = ip.call_function(prog.lookup('<Config as Default>::default')[0], [])
    gen = getf(prog, cfg, 'Config', 'general')
    setf(prog, gen, 'General', 'validate_config', BV(1, 0))
    return cfg


def mk_pool_cfg(ip, prog, shard_specs, users=('u',), **over):
    """shard_specs: list of (id string, [ServerConfig...], mirrors or None)."""
    pool = ip.call_function(prog.lookup('<Pool as Default>::default')[0], [])
    shards = MapV('btreemap')
    for sid, servers, mirrors in shard_specs:
        sh = mk_shard(ip, prog, servers)
        if mirrors is not None:
            setf(prog, sh, 'Shard', 'mirrors', some(ip, Seq(list(mirrors), 'vec')))
        shards.entries.append([_rs(sid), Cell(sh, 'shard')])
    setf(prog, pool, 'Pool', 'shards', shards)
    um = MapV('btreemap')
    for i, u in enumerate(users):
        user = ip.call_function(prog.lookup('<User as Default>::default')[0], [])
        setf(prog, user, 'User', 'username', _rs(u))
        setf(prog, user, 'User', 'password', some(ip, _rs('pw')))
        um.entries.append([_rs(str(i)), Cell(user, 'user')])
    setf(prog, pool, 'Pool', 'users', um)
    for k, v in over.items():
        setf(prog, pool, 'Pool', k, v)
    return pool


def install(ip, cfg):
    """get_config() returns `cfg` from now on.  (The override list of an interpreter outlives a path: an installation made on an earlier path is
    replaced, not shadowed.)"""
    def h(c):
        return cfg
    h._fc_install = True
    ip.overrides[:] = [o for o in ip.overrides if not getattr(o[1], '_fc_install', False)]
    ip.overrides.append((re.compile(r'^(?:config::)?get_config$'), h))


def pools_static(ip):
    """The HashMap inside the POOLS static (forcing the Lazy)."""
    name = [n for n in ip.prog.statics if n.split('::')[-1] == 'POOLS']
    if len(name) != 1:
        raise Inconclusive('cannot locate the POOLS static')
    p = ip.static_ref(name[0])
    lz = ip.load(p.cell, p.path)
    if lz.fields[0] is None:
        lz.fields[0] = ip.call_value(lz.fields[1], [])
    sw = lz.fields[0]
    return sw


def current_pools(ip):
    sw = pools_static(ip)
    arc = sw.fields[0]
    return ip.load(arc.cell, arc.path)


def run_from_config(ip, prog):
    fc = fn(prog, 'ConnectionPool::from_config')
    csm = Ptr(Cell(Agg([MapV('hashmap')], 'Lock'), 'csmap'))
    return ip.drive(ip.call_function(fc, [csm]))


def pool_entries(ip, prog):
    """[(db, user, ConnectionPool value)] of the POOLS map."""
    m = current_pools(ip)
    out = []
    for k, cell in m.entries:
        db = bytes(b.v for b in getf(prog, k, 'PoolIdentifier', 'db').items).decode()
        us = bytes(b.v for b in getf(prog, k, 'PoolIdentifier', 'user').items).decode()
        out.append((db, us, cell.val))
    return out


def addresses_of(ip, prog, cp):
    a = deref(ip, getf(prog, cp, 'ConnectionPool', 'addresses'))
    return [list(s.items) for s in a.items]
