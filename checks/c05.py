#!/usr/bin/env python3-vt
"""C05 -- writes and transactions go to the primary; explicit role choices are honoured (infer, role commands, role filter)."""
import os, sys, itertools, re, json
sys.path.insert(0, os.path.dirname(os.path.dirname(os.path.abspath(__file__))))
import z3
from harness.common import run_check, expectation
from harness.pgcat_state import *
from mirsym.interp import Panic, Inconclusive
from mirsym.values import *
from mirsym.models.util import items, deref, variant, payload, some, none, unit
from native import oracle
from harness.server_state import rstring
import checks.c13 as c13mod      # registers the shared replay predicates (c13_differs)


# ------------------------------------------------------------------------------------------------ abstract syntax
def S(into=False):
    return {'kind': 'Select', 'into': into}


def Q(body, locks=0, with_=()):
    return {'locks': locks, 'with': list(with_), 'body': body}


def sql_body(b):
    k = b['kind']
    if k == 'Select':
        return 'SELECT * INTO t2 FROM t' if b['into'] else 'SELECT * FROM t'
    if k == 'Query':
        return '(' + sql_query(b['query']) + ')'
    if k == 'SetOperation':
        return sql_body(b['left']) + ' UNION ' + sql_body(b['right'])
    if k == 'Values':
        return 'VALUES (1)'
    if k == 'Insert':
        return 'INSERT INTO t SELECT 1'
    if k == 'Update':
        return 'UPDATE t SET a = 1'
    raise ValueError(k)


def sql_query(q, in_cte=False):
    s = ''
    if q['with']:
        s += 'WITH ' + ', '.join('x%d AS (%s)' % (i, sql_query(c, True)) for i, c in enumerate(q['with'])) + ' '
    s += sql_body(q['body'])
    if in_cte and q['body']['kind'] in ('Insert', 'Update'):
        s += ' RETURNING a'
    if q['locks']:
        s += ' FOR UPDATE'
    return s


def nonplain_query(q):
    """The property's notion of 'anything other than a plain read' on the abstract syntax."""
    return q['locks'] > 0 or any(nonplain_query(c) for c in q['with']) or nonplain_body(q['body'])


def nonplain_body(b):
    k = b['kind']
    if k in ('Insert', 'Update'):
        return True
    if k == 'Select':
        return b['into']
    if k == 'Query':
        return nonplain_query(b['query'])
    if k == 'SetOperation':
        return nonplain_body(b['left']) or nonplain_body(b['right'])
    return False


def enumerate_queries(thorough):
    bodies = [S(), S(True), {'kind': 'Values'}, {'kind': 'Query', 'query': Q(S())}, {'kind': 'Query', 'query': Q(S(), 1)},
              {'kind': 'SetOperation', 'left': S(), 'right': S()}, {'kind': 'Insert'}, {'kind': 'Update'}]
    if thorough:
        bodies += [{'kind': 'Query', 'query': Q(S(True))}, {'kind': 'SetOperation', 'left': S(), 'right': {'kind': 'Query', 'query': Q(S(), 1)}},
                   {'kind': 'Query', 'query': Q({'kind': 'Query', 'query': Q(S(), 1)})}]
    withs = [[], [Q(S())], [Q({'kind': 'Insert'})], [Q({'kind': 'Update'})], [Q(S()), Q({'kind': 'Insert'})],
             [Q(S(), 1)], [Q(S(), 0, [Q({'kind': 'Insert'})])]]      # a CTE that locks rows; a CTE with its own data-modifying CTE
    if thorough:
        withs += [[Q(S()), Q(S(), 1)], [Q(S(), 0, [Q(S(), 1)])], [Q({'kind': 'Query', 'query': Q(S(), 1)})]]
    out = []
    for b in bodies:
        for lk in (0, 1):
            for w in withs:
                out.append(Q(b, lk, w))
    return out


# ------------------------------------------------------------------------------------------------ building the AST in the interpreter
def sq_struct(prog, name, **vals):
    names = prog.src.structs['sqlparser::' + name]
    return Agg([vals.get(n, Opaque(name + '.' + n, 'unused')) for n in names], name, list(names))


def box(v):
    return Ptr(Cell(v, 'box'), ())


def enum_of(prog, tyname, variant_name, fields=()):
    for n, d, f in prog.src.enums['sqlparser::' + tyname]:
        if n == variant_name:
            return EnumV(BV(64, d), {variant_name: list(fields)}, tyname)
    raise Inconclusive('sqlparser enum %s has no variant %s' % (tyname, variant_name))


def build_body(ip, prog, b):
    k = b['kind']
    if k == 'Select':
        sel = sq_struct(prog, 'Select', into=(some(ip, Opaque('SelectInto', 'into')) if b['into'] else none(ip)))
        return enum_of(prog, 'SetExpr', 'Select', [box(sel)])
    if k == 'Query':
        return enum_of(prog, 'SetExpr', 'Query', [box(build_query(ip, prog, b['query']))])
    if k == 'SetOperation':
        return enum_of(prog, 'SetExpr', 'SetOperation', [Opaque('SetOperator', 'op'), Opaque('SetQuantifier', 'q'),
                                                          box(build_body(ip, prog, b['left'])), box(build_body(ip, prog, b['right']))])
    if k == 'Values':
        return enum_of(prog, 'SetExpr', 'Values', [Opaque('Values', 'v')])
    if k in ('Insert', 'Update'):
        return enum_of(prog, 'SetExpr', k, [Opaque('Statement', k)])
    raise Inconclusive(k)


def build_query(ip, prog, q):
    with_ = none(ip)
    if q['with']:
        ctes = [sq_struct(prog, 'Cte', query=box(build_query(ip, prog, c))) for c in q['with']]
        with_ = some(ip, sq_struct(prog, 'With', recursive=BV(1, 0), cte_tables=Seq(ctes, 'vec')))
    return sq_struct(prog, 'Query', body=box(build_body(ip, prog, q['body'])),
                     locks=Seq([Opaque('LockClause', 'lock') for _ in range(q['locks'])], 'vec'))._replace_with(prog, with_)


def _replace_with(self, prog, with_):
    names = prog.src.structs['sqlparser::Query']
    self.fields[names.index('with')] = with_
    return self


Agg._replace_with = _replace_with


@expectation('c05_infer')
def c05_infer(want_role):
    def f(res):
        r = res[0]
        if 'panic' in r:
            return True, 'native panic: ' + r['panic']
        st = r['steps'][0]
        if 'parse_error' in st:
            return False, 'the SQL of the counterexample is not accepted by the parser: %s' % st['parse_error']
        got = st['state']['active_role']
        return (got != want_role, 'native role after parse+infer: %r, required %r' % (got, want_role))
    return f


def role_name_(v):
    return {None: None, 0: 'primary', 1: 'replica'}[v]


def o1_infer(chk, prog, stmts, label, sharding=False):
    """stmts: list of abstract statements: a query dict, or 'other' (any non-Query statement, symbolic kind).
    sharding: automatic_sharding_key is configured; what the shard inference finds in each statement (no key / shard k / an error) is the
    solver's choice -- the ROLE decision must not depend on it (the callers forward the message whatever infer returns)."""
    name = 'O1-infer-' + label + ('-autoshard' if sharding else '')
    descr = [('other' if s == 'other' else sql_query(s)) for s in stmts]
    ob = chk.begin(name, 'QueryRouter::infer on the abstract syntax tree of %r (statement kinds of `other` symbolic over all non-Query '
                   'sqlparser::Statement variants), arbitrary previous role and primary-reads setting: Primary iff some statement is not a plain '
                   'read, else Replica / any according to primary reads; independent of the previous role%s' % (descr,
                   '; automatic_sharding_key configured, the outcome of the shard inference per statement (none / shard k / error, e.g. statements for different shards) chosen by the solver' if sharding else ''),
                   {'statements': descr, 'automatic_sharding': sharding})
    fn_new = prog.lookup('QueryRouter::new')[0]
    infer = prog.lookup('QueryRouter::infer')[0]
    ip = chk.interp(prog, name)
    qidx = [d for n, d, f in prog.src.enums['sqlparser::Statement'] if n == 'Query'][0]
    stidx = [d for n, d, f in prog.src.enums['sqlparser::Statement'] if n == 'StartTransaction'][0]
    nvar = len(prog.src.enums['sqlparser::Statement'])

    if sharding:
        from mirsym.models.util import ok as _ok, err as _err

        def shard_choice(ip2, tag):
            k = ip2.choose(3, tag)
            return None if k == 0 else BV(64, k - 1)

        def on_write(c, slf, q):
            c.ip.env['writes_seen'] = c.ip.env.get('writes_seen', 0) + 1
            if c.ip.choose(2, 'shard_inference_fails') == 1:
                # (reachable e.g. with automatic_sharding_key = "*.id" and an UPDATE that assigns the key column)
                c.ip.env['failed_write'] = c.ip.env['writes_seen']
                return _err(c.ip, c.ip.make_enum('Error', 'QueryRouterParserError', [rstring('x')]))
            s = shard_choice(c.ip, 'write_shard')
            return _ok(c.ip, none(c.ip) if s is None else some(c.ip, s))

        def on_select(c, slf, q):
            s = shard_choice(c.ip, 'select_shard')
            return none(c.ip) if s is None else some(c.ip, s)
        ip.overrides += [(re.compile(r'QueryRouter::infer_shard_on_write$'), on_write), (re.compile(r'QueryRouter::infer_shard$'), on_select)]

    def harness(ip_):
        qr = ip_.call_function(fn_new, [])
        ps = getf(prog, qr, 'QueryRouter', 'pool_settings')
        if sharding:
            setf(prog, ps, 'PoolSettings', 'automatic_sharding_key', some(ip_, rstring('data.id')))
            setf(prog, ps, 'PoolSettings', 'shards', BV(64, 3))
        setf(prog, ps, 'PoolSettings', 'query_parser_read_write_splitting', BV(1, 1))
        setf(prog, ps, 'PoolSettings', 'query_parser_enabled', BV(1, 1))
        pool_pre = sym_bool(ip_, 'pool_primary_reads')
        setf(prog, ps, 'PoolSettings', 'primary_reads_enabled', pool_pre)
        pre_over = sym_option(ip_, sym_bool(ip_, 'pre_override'), 'pre_override')
        setf(prog, qr, 'QueryRouter', 'primary_reads_enabled', pre_over)
        prev = sym_option(ip_, sym_enum(ip_, 'Role', 'prev_role', ('Primary', 'Replica')), 'prev_role')
        setf(prog, qr, 'QueryRouter', 'active_role', prev)
        ast = []
        kinds = []
        for i, s in enumerate(stmts):
            if s == 'other':
                d = ip_.fresh(64, 'stmt%d_kind' % i)
                ip_.assume(z3.And(z3.ULT(d.v, nvar), d.v != qidx))
                kinds.append(d)
                ast.append(EnumV(d, {}, 'Statement'))
            else:
                kinds.append(None)
                ast.append(enum_of(prog, 'Statement', 'Query', [box(build_query(ip_, prog, s))]))
        try:
            r = ip_.call_function(infer, [Ptr(Cell(qr, 'qr')), Ptr(Cell(Seq(ast, 'vec'), 'ast'))])
        except Panic as p:
            raise Inconclusive('infer panic: ' + p.msg)
        ob.nontrivial += 1
        eff = z3.If(pre_over.discr.z() == 1, pre_over.variants['Some'][0].z() == 1, pool_pre.z() == 1)
        nonplain = any(s == 'other' or nonplain_query(s) for s in stmts)
        got = getf(prog, qr, 'QueryRouter', 'active_role')
        if nonplain:
            want = z3.And(got.discr.z() == 1, got.variants.get('Some', [EnumV(BV(64, 9), {})])[0].discr.z() == 0)
        else:
            want = z3.If(eff, got.discr.z() == 0, z3.And(got.discr.z() == 1, got.variants.get('Some', [EnumV(BV(64, 9), {})])[0].discr.z() == 1))
        m = ip_.model_for(z3.Not(want))
        if m is not None:
            def ev(x):
                return m.eval(x.z(), True).as_long()
            sql = '; '.join(('BEGIN' if ev(kinds[i]) == stidx else 'INSERT INTO t VALUES (1)') if s == 'other' else sql_query(s) for i, s in enumerate(stmts))
            settings = {'shards': 1, 'query_parser_enabled': True, 'query_parser_read_write_splitting': True, 'primary_reads_enabled': bool(ev(pool_pre))}
            if sharding:
                # natively: statements that name different sharding-key values, so that the inference really finds two shards
                fw = ip_.env.get('failed_write')
                parts, nw = [], 0
                for i, s in enumerate(stmts):
                    if s == 'other':
                        nw += 1
                        parts.append(('UPDATE data SET id = 9 WHERE id = %d' if nw == fw else 'UPDATE data SET v = 3 WHERE id = %d') % (i + 1))
                    else:
                        parts.append('SELECT * FROM data WHERE id = %d' % (i + 1))
                sql = '; '.join(parts)
                settings.update({'shards': 3, 'automatic_sharding_key': '*.id' if fw else 'data.id'})
            pre = {}
            if ev(prev.discr) == 1:
                pre['active_role'] = role_name_(ev(prev.variants['Some'][0].discr))
            if ev(pre_over.discr) == 1:
                pre['pre_override'] = bool(ev(pre_over.variants['Some'][0]))
            effv = pre.get('pre_override', settings['primary_reads_enabled'])
            want_role = 'primary' if nonplain else (None if effv else 'replica')
            klass = classify(stmts)
            chk.report(ob, 'C05/O1/infer/' + klass, 'the message %r is routed to %s; required %s' %
                       (sql, 'the primary' if not nonplain else 'a replica / any server', {'primary': 'the primary', 'replica': 'a replica', None: 'any server'}[want_role]),
                       {'sql': sql, 'settings': settings, 'pre': pre},
                       {'commands': [{'op': 'qr_seq', 'settings': settings, 'pre': pre, 'steps': [{'do': 'infer', 'query': sql}]}],
                        'expect': ['c05_infer', want_role]})
        if len(ob.samples) < 2:
            ob.samples.append({'sql_shape': descr, 'nonplain': nonplain})
    ip.explore(harness)
    chk.absorb(ob, ip)
    chk.end(ob)


def classify(stmts):
    """Role key of a counterexample: which construct makes the message a non-plain read (or 'plain-read')."""
    def why(q):
        if q['locks']:
            return 'lock'
        if any(nonplain_query(c) for c in q['with']):
            return 'dml-cte'
        b = q['body']
        if b['kind'] in ('Insert', 'Update'):
            return 'dml-body'
        if b['kind'] == 'Select' and b['into']:
            return 'select-into'
        if b['kind'] == 'Query' and nonplain_query(b['query']):
            return 'nested-' + why(b['query'])
        if b['kind'] == 'SetOperation' and nonplain_body(b):
            return 'set-operation'
        return None
    reasons = []
    for s in stmts:
        if s == 'other':
            reasons.append('other-statement')
        else:
            w = why(s)
            if w:
                reasons.append(w)
    if not reasons:
        return 'plain-read'
    multi = '-then-read' if len(stmts) > 1 and (stmts[-1] != 'other' and not nonplain_query(stmts[-1])) else ''
    return reasons[0] + multi


# ------------------------------------------------------------------------------------------------ O3 role filter
def o3_role_eq(chk, prog):
    ob = chk.begin('O3-role-filter', 'both PartialEq impls between Role and Option<Role> over their full domain: a server role matches a requested '
                   'role iff nothing was requested or the roles are equal (a server of the wrong role is never a substitute)', {'domain': 'Role x Option<Role>'})
    f1 = prog.lookup('<Role as PartialEq<Option<Role>>>::eq')
    f2 = prog.lookup('<Option<Role> as PartialEq<Role>>::eq')
    if len(f1) != 1 or len(f2) != 1:
        raise Inconclusive('cannot locate Role/Option<Role> PartialEq impls')
    ip = chk.interp(prog, 'O3-role-filter')

    def harness(ip_):
        role = sym_enum(ip_, 'Role', 'role')
        want = sym_option(ip_, sym_enum(ip_, 'Role', 'want'), 'want')
        r1 = ip_.call_function(f1[0], [Ptr(Cell(role, 'r')), Ptr(Cell(want, 'w'))])
        r2 = ip_.call_function(f2[0], [Ptr(Cell(want, 'w')), Ptr(Cell(role, 'r'))])
        ob.nontrivial += 1
        spec = z3.Or(want.discr.z() == 0, want.variants['Some'][0].discr.z() == role.discr.z())
        for nm, r in (('Role==Option<Role>', r1), ('Option<Role>==Role', r2)):
            m = ip_.model_for(as_cond(r) != spec)
            if m is not None:
                chk.report(ob, 'C05/O3/role-eq/' + nm, 'role filter %s is wrong for role=%s requested=%s' % (
                    nm, m.eval(role.discr.z(), True), m.eval(want.discr.z(), True)), {},
                    {'commands': [{'op': 'role_eq'}], 'expect': ['c05_role_eq']})
    ip.explore(harness)
    chk.absorb(ob, ip)
    chk.end(ob)


@expectation('c05_role_eq')
def c05_role_eq():
    def f(res):
        r = res[0]
        if 'panic' in r:
            return True, r['panic']
        return (not r.get('all_ok', True), 'native truth table: %r' % (r,))
    return f


def validate_shapes(chk, queries):
    """Serval-style validation of the abstract syntax: each enumerated shape must be what the real parser produces for its SQL;
    shapes the parser cannot produce are dropped (outside 'every message the pooler's SQL parser accepts')."""
    res = oracle.run([{'op': 'ast_shape', 'sql': sql_query(q)} for q in queries])
    keep, dropped, bad = [], [], 0
    for q, r in zip(queries, res):
        if 'parse_error' in r:
            dropped.append(sql_query(q))
            continue
        sts = r['statements']
        if len(sts) != 1 or sts[0]['kind'] != 'Query' or sts[0]['query'] != q:
            dropped.append(sql_query(q))
            if len(sts) == 1 and sts[0]['kind'] == 'Query':
                bad += 0
            continue
        keep.append(q)
    chk.validated(len(queries), 0, '')
    chk.validation['notes'].append('%d abstract query shapes confirmed as parser output; %d not producible and dropped' % (len(keep), len(dropped)))
    return keep


def o2_role_commands(chk, prog, n):
    """SET SERVER ROLE TO '<n symbolic bytes>' from an arbitrary router state, against the command reference (shared with C13)."""
    import checks.c13 as c13
    c13.o2_semantics(chk, prog, 0, 1000, ("SET SERVER ROLE TO '", n, "'"), prefix='C05/O2')


def _dispatch(chk, f, args):
    f(chk, *args)


def main(chk):
    chk.explanation = (
        'Solver-based checking of role inference executed from MIR on SYMBOLIC ABSTRACT SYNTAX: QueryRouter::infer and is_mutation_query run '
        'on sqlparser ASTs built field-by-field (real struct/enum layouts read from the pinned sqlparser source): sequences of 1-2 (3 thorough) '
        'statements whose Query shapes are enumerated over locks / CTE bodies / SELECT INTO / nested and set-operation bodies / DML bodies, '
        'each confirmed to be real parser output, and whose non-Query statements have a symbolic kind over all 92 Statement variants; '
        'previous role and primary-reads settings symbolic. Oracle: the property text. Counterexamples are rendered to SQL, parsed by the real '
        'parser and run through the real parse+infer natively. The role filter (both PartialEq impls) is decided over its full domain.')
    chk.explanation += (' (O5-get-shard) ConnectionPool::get with primary_reads_enabled symbolic: a request for a replica is never answered with a primary.')
    chk.assumptions += [
        'SQL -> AST is sqlparser (trusted); every abstract shape used is validated against the real parser on this run',
        'activity-based routing is off; automatic sharding is on in four pair obligations, with the shard inference itself (infer_shard / infer_shard_on_write: which key a statement names) replaced by solver-chosen outcomes',
        'handle-level part: sessions that pick a role with SET SERVER ROLE (which switches the SQL parser off for the session); sessions whose statements are parsed (sqlparser itself) are covered by the infer obligations only',
    ]
    prog = chk.program('on', with_sqlparser=True)
    queries = validate_shapes(chk, enumerate_queries(chk.thorough))
    tasks = [(o3_role_eq, (prog,))]
    for n in (3, 4, 7):
        tasks.append((o2_role_commands, (prog, n)))
    tasks.append((o1_infer, (prog, ['other'], 'other')))
    for i, q in enumerate(queries):
        tasks.append((o1_infer, (prog, [q], 'q%d' % i)))
    plain = Q(S())
    reduced = [plain, Q(S(), 1), Q(S(), 0, [Q({'kind': 'Insert'})]), Q(S(True)), Q({'kind': 'Query', 'query': Q(S(), 1)}),
               Q({'kind': 'Insert'}, 0, [Q(S())]), 'other']
    reduced = [r for r in reduced if r == 'other' or r in queries]
    n = 0
    for a, b in itertools.product(reduced, repeat=2):
        tasks.append((o1_infer, (prog, [a, b], 'pair%d' % n)))
        n += 1
    if chk.thorough:
        for a, b, c in itertools.product(reduced[:5] + ['other'], repeat=3):
            tasks.append((o1_infer, (prog, [a, b, c], 'triple%d' % n)))
            n += 1
    for a, b in ((plain, 'other'), ('other', plain), ('other', 'other'), (plain, plain)):
        tasks.append((o1_infer, (prog, [a, b], 'pair%d' % n, True)))
        n += 1
    chk.parallel(_dispatch, tasks)
    # "after SET SERVER ROLE every following transaction runs on a server of that role until changed": Client::handle executed on sessions
    # that choose a role and then run several transactions (simple and extended), on a pool of a primary and a replica -- also when the pool
    # itself has the parser on and another default_role
    from checks import hobl
    # the last step of every routing decision: the pool hands out a server of the role it was asked for (a replica request is a deliberate choice --
    # default_role, SET SERVER ROLE, a read with primary reads off -- whatever primary_reads_enabled says at pool level)
    import checks.c07 as c07mod
    c07mod.o5_get_shard(chk, chk.program('on'), props=('C05',), only=('get-wrong-role',))
    hobl.handle_obligations(chk, chk.program('on'), {'C05'}, ['commands'])


if __name__ == '__main__':
    run_check('C05', main)
