#!/usr/bin/env python3-vt
"""C06 -- a sharding key maps to PostgreSQL's hash partition, by every routing path."""
import os, sys
sys.path.insert(0, os.path.dirname(os.path.dirname(os.path.abspath(__file__))))
import z3
from harness.common import run_check
from harness import refs
from mirsym.interp import Panic, Inconclusive
from mirsym.values import *
from native import oracle
from checks import hobl
import checks.c13 as c13mod      # registers the shared replay predicates (c13_differs)

UREM = z3.Function('urem_uf', z3.BitVecSort(64), z3.BitVecSort(64), z3.BitVecSort(64))


def signed(v, w=64):
    return v - (1 << w) if v >> (w - 1) else v


def replay_shard(shards, key, func='pg'):
    want = refs.pg_partition_of(key, shards) if shards else None

    def expect(res):
        r = res[0]
        if 'panic' in r:
            return (shards != 0, 'native panic: ' + r['panic'])
        got = int(r['shard'])
        return (got != want, 'native shard(%d, %d) = %d, PostgreSQL partition = %s' % (shards, key, got, want))
    return {'commands': [{'op': 'shard', 'shards': str(shards), 'key': str(key), 'func': func}],
            'expect': expect, 'expect_desc': 'native result differs from PostgreSQL reference %s' % want}


def o1_hash(chk, flavour):
    prog = chk.program(flavour)
    ob = chk.begin('O1-hash-%s' % flavour,
                   'forall key:i64, shards:usize != 0: Sharder::shard(key) == pg_partition_hash(key) mod shards; '
                   'no panic other than shards == 0 (MIR flavour overflow-checks=%s)' % flavour,
                   {'key': 'all 2^64', 'shards': 'all 2^64', 'division': 'uninterpreted for equality, bvurem for range'})
    fn = prog.lookup('Sharder::shard')
    if len(fn) != 1:
        raise Inconclusive("cannot locate Sharder::shard")
    ip = chk.interp(prog, ob.name)
    state = {'ok_paths': 0, 'zero_panics': 0, 'neg': False, 'pos': False}

    def hook(ip_, op, a, b, sgn):
        ip_.env.setdefault('rems', []).append((op, a, b, sgn))
        if op == 'Rem' and not sgn and a.w == 64:
            return bv(64, UREM(a.z(), b.z()))
        return None
    ip.divrem_hook = hook

    def harness(ip_):
        key = ip_.fresh(64, 'key')
        n = ip_.fresh(64, 'shards')
        sh = Agg([n, ip_.make_enum('ShardingFunction', 'PgBigintHash')], 'Sharder')
        try:
            r = ip_.call_function(fn[0], [Ptr(Cell(sh, 'sharder')), key])
        except Panic as p:
            # the only permitted panic: shards == 0
            m = ip_.model_for(n.v != 0)
            if m is not None:
                kv, nv = signed(m.eval(key.v, True).as_long()), m.eval(n.v, True).as_long()
                chk.report(ob, 'C06/O1/panic:' + p.msg[:60], 'Sharder::shard panics for shards != 0: ' + p.msg,
                           {'key': kv, 'shards': nv}, replay_shard(nv, kv))
            else:
                state['zero_panics'] += 1
            return 'panic'
        ob.nontrivial += 1
        state['ok_paths'] += 1
        ref = refs.pg_partition_hash(refs.Z3Ops(), key.v)
        want = UREM(ref, n.v)
        m = ip_.model_for(r.z() != want)
        if m is not None:
            kv, nv = signed(m.eval(key.v, True).as_long()), m.eval(n.v, True).as_long()
            # the UF model may differ from real urem: pick a modulus that exposes the hash difference natively
            impl_hash = None
            for (op, a, b, sgn) in ip_.env.get('rems', []):
                impl_hash = a
            chk.report(ob, 'C06/O1/hash-mismatch', 'Sharder::shard disagrees with PostgreSQL hash partitioning',
                       {'key': kv, 'shards': nv}, replay_shard(nv if nv else 5, kv))
            # also try a large modulus (the raw 64-bit hashes differ)
            return 'mismatch'
        if ip_.is_sat(key.v < 0):
            state['neg'] = True
        if ip_.is_sat(key.v >= 0):
            state['pos'] = True
        if not ob.samples:
            m = ip_.model_for()
            ob.samples.append({'path': 'ok', 'example_key': signed(m.eval(key.v, True).as_long()),
                               'assertion': 'shard(key) == urem(pg_partition_hash(key), shards)  [unsat-negation]'})
        return 'ok'

    ip.explore(harness)
    chk.absorb(ob, ip)
    # vacuity witnesses
    if state['ok_paths'] == 0 or not (state['neg'] and state['pos']) or state['zero_panics'] == 0:
        ob.status = 'vacuous'
        ob.notes.append('witness failure: %r' % state)
    else:
        ob.witnesses = ['ok path with key < 0 reachable', 'ok path with key >= 0 reachable', 'shards == 0 panic path reachable']
    chk.end(ob)
    return ob


def o1_range(chk):
    ob = chk.begin('O1-range', 'forall a, n != 0: bvurem(a, n) < n (result is a valid shard index; MIR `Rem` on usize)', {'width': 64})
    a, n = z3.BitVecs('a n', 64)
    s = z3.Solver()
    s.set('timeout', chk.timeout_ms)
    s.add(n != 0, z3.UGE(z3.URem(a, n), n))
    import time
    t = time.time()
    r = s.check()
    ob.stats.queries += 1
    ob.stats.solver_s += time.time() - t
    if r == z3.unsat:
        ob.stats.unsat += 1
        ob.nontrivial += 1
    else:
        ob.status = 'inconclusive'
        chk.note_inconclusive('urem range query returned %s' % r)
    chk.end(ob)


def validate_translation(chk):
    """Serval-style: push concrete vectors through interpreter, native code and the reference."""
    prog = chk.program('on')
    fn = prog.lookup('Sharder::shard')[0]
    vecs = [(5, k) for ks in refs.PG_VECTORS_MOD5.values() for k in ks]
    vecs += [(1, 0), (2, -1), (3, -(1 << 63)), (7, (1 << 63) - 1), (12, 1 << 32), (64, -(1 << 32)), ((1 << 64) - 1, 12345),
             ((1 << 63) + 5, -42), (1000003, 99)]
    native = oracle.run([{'op': 'shard', 'shards': str(n), 'key': str(k), 'func': 'pg'} for n, k in vecs])
    bad = 0
    for (n, k), nat in zip(vecs, native):
        ip = chk.interp(prog, 'validate')
        out = []

        def h(ip_):
            sh = Agg([BV(64, n), ip_.make_enum('ShardingFunction', 'PgBigintHash')], 'Sharder')
            return ip_.call_function(fn, [Ptr(Cell(sh, 's')), BV(64, k)])
        res = ip.explore(h)
        got = res[0][1].v if res[0][0] == 'ok' else None
        want = refs.pg_partition_of(k, n)
        if got != int(nat.get('shard', -1)):
            bad += 1
            chk.validation['notes'].append('interp %r vs native %r for shard(%d,%d)' % (got, nat, n, k))
        if n == 5 and want != int(nat.get('shard', -1)):
            # native disagrees with real-PostgreSQL vector: this is a property violation, found concretely
            pass
    chk.validated(len(vecs), bad, 'Sharder::shard on %d concrete (shards,key) pairs: interpreter vs native' % len(vecs) if bad else '')
    n, badref = refs.validate_pg_reference()
    if badref:
        chk.note_inconclusive('reference transcription disagrees with PostgreSQL vectors: %r' % badref)
    chk.validation['notes'].append('reference transcription validated on %d real-PostgreSQL vectors' % n)


# ------------------------------------------------------------------------------------------------ O3
from harness.pgcat_state import setf, getf, opt_none, opt_some, msg_Q
from harness.common import expectation
import itertools


def be(n, width):
    return [BV(8, b) for b in (n & ((1 << (8 * width)) - 1)).to_bytes(width, 'big')]


def bind_message(fmt_codes, params, result_formats=()):
    """PostgreSQL Bind message (protocol docs): 'B' int32 len, portal\\0, statement\\0, int16 nfmt, int16[nfmt],
    int16 nparams, (int32 len, bytes)*, int16 nres, int16[nres].  params: list of (length:int, [BV8...])."""
    body = [BV(8, 0), BV(8, 0)]
    body += be(len(fmt_codes), 2)
    for f in fmt_codes:
        body += be(f, 2)
    body += be(len(params), 2)
    for ln, data in params:
        body += be(ln, 4)
        body += list(data)
    body += be(len(result_formats), 2)
    for f in result_formats:
        body += be(f, 2)
    return Seq([BV(8, ord('B'))] + be(len(body) + 4, 4) + body, 'bytesmut')


SHARD_UF = z3.Function('shard_uf', z3.BitVecSort(64), z3.BitVecSort(64), z3.BitVecSort(64), z3.BitVecSort(64))


@expectation('c06_bind')
def expect_bind(shards, placeholders, msg_hex, keys):
    """Native replay under both sharding functions: the shard selected by the Bind must be the shard
    Sharder::shard gives for the bound key (keys = reference decoding of the key parameters)."""
    def f(res):
        # res: [bind pg, bind sha1, shard(pg,key_i)..., shard(sha1,key_i)...]
        out = []
        n = len(keys)
        for j, func in enumerate(('pg', 'sha1')):
            st = res[j]
            if 'panic' in st:
                return True, 'native panic (%s): %s' % (func, st['panic'])
            want = set(r.get('shard') for r in res[2 + j * n: 2 + (j + 1) * n])
            want = want.pop() if len(want) == 1 else None
            got = st.get('active_shard')
            if want is not None and got != want:
                return True, 'sharding_function=%s: native active_shard=%r after Bind, Sharder::shard(bound key %r)=%r' % (func, got, keys, want)
            out.append('%s: %r==%r' % (func, got, want))
        return False, 'agrees (' + '; '.join(out) + ')'
    return f


def o3_bind(chk, prog, nparams, fmts, kinds, placeholders):
    """kinds[i] in {'b2','b4','b8','t1','t2','t3','t18'}; fmts: () | (f,) | (f1..fn) format codes (0 text / 1 binary)."""
    name = 'O3-bind-p%d-f%s-%s-ph%s' % (nparams, ''.join(map(str, fmts)) or 'none', '_'.join(kinds), ''.join(map(str, placeholders)))
    ob = chk.begin(name, 'infer_shard_from_bind: Bind with %d parameter(s) %s, format codes %r, key placeholders %r: the shard selected is '
                   'Sharder::shard(bound key) for BOTH sharding functions (shard function uninterpreted here; O1 pins it to PostgreSQL); '
                   'all byte contents symbolic' % (nparams, kinds, fmts, placeholders),
                   {'params': nparams, 'kinds': list(kinds), 'formats': list(fmts), 'placeholders': list(placeholders), 'shards': '1..1000'})
    fn_new = prog.lookup('QueryRouter::new')[0]
    fn_bind = prog.lookup('QueryRouter::infer_shard_from_bind')[0]
    ip = chk.interp(prog, name)
    import re as _re

    def shard_model(c, sharder, key):
        ip_ = c.ip
        sh = ip_.load(sharder.cell, sharder.path)
        n, func = sh.fields[0], sh.fields[1].discr
        t = bv(64, SHARD_UF(func.z(), key.z(), n.z()))
        ip_.assume(z3.ULT(t.z(), n.z()))
        ip_.env.setdefault('shard_calls', []).append(key)
        return t
    ip.overrides.append((_re.compile(r'^(?:sharding::)?Sharder::shard$'), shard_model))

    def effective_format(i):
        if len(fmts) == 0:
            return 0
        if len(fmts) == 1:
            return fmts[0]
        return fmts[i]

    def harness(ip_):
        qr = ip_.call_function(fn_new, [])
        ps = getf(prog, qr, 'QueryRouter', 'pool_settings')
        shards = ip_.fresh(64, 'shards')
        ip_.assume(z3.And(z3.UGE(shards.v, 1), z3.ULE(shards.v, 1000)))
        setf(prog, ps, 'PoolSettings', 'shards', shards)
        func = ip_.fresh(64, 'func')
        ip_.assume(z3.ULE(func.v, 1))
        setf(prog, ps, 'PoolSettings', 'sharding_function', EnumV(func, {}, 'ShardingFunction'))
        setf(prog, ps, 'PoolSettings', 'query_parser_read_write_splitting', BV(1, 1))
        setf(prog, qr, 'QueryRouter', 'placeholders', Seq([BV(16, p) for p in placeholders], 'vec'))
        pre = ip_.fresh(64, 'pre_shard')
        setf(prog, qr, 'QueryRouter', 'active_shard', opt_some(pre))
        params = []
        values = []
        for i, k in enumerate(kinds):
            n = int(k[1:])
            data = [ip_.fresh(8, 'p%d_%d' % (i, j)) for j in range(n)]
            if k[0] == 'b':
                raw = z3.Concat(*[d.v for d in data]) if n > 1 else data[0].v
                values.append(z3.SignExt(64 - 8 * n, raw) if n < 8 else raw)
            else:
                # text: optional '-' then digits (stated bound: well-formed decimal text)
                neg = data[0].v == ord('-') if n > 1 else z3.BoolVal(False)
                for j, d in enumerate(data):
                    isd = z3.And(z3.UGE(d.v, 48), z3.ULE(d.v, 57))
                    ip_.assume(z3.Or(isd, d.v == ord('-')) if (j == 0 and n > 1) else isd)
                acc = z3.BitVecVal(0, 64)
                for j, d in enumerate(data):
                    dig = z3.ZeroExt(56, d.v - 48)
                    acc = z3.If(neg, acc, dig) if j == 0 else acc * 10 + dig
                values.append(z3.If(neg, -acc, acc))
            params.append((n, data))
        msg = bind_message(list(fmts), params)

        def msg_hex(m):
            return bytes(m.eval(b.z(), True).as_long() for b in msg.items).hex()

        def report(m, key, what):
            nsh = m.eval(shards.z(), True).as_long()
            hx = msg_hex(m)
            keys = [signed(m.eval(v, True).as_long()) for i, v in enumerate(values) if (i + 1) in placeholders]
            cmds = []
            for func_name in ('pg', 'sha1'):
                cmds.append({'op': 'qr_bind', 'settings': {'shards': nsh, 'query_parser_read_write_splitting': True,
                                                           'sharding_function': func_name},
                             'placeholders': list(placeholders), 'hex': hx})
            for func_name in ('pg', 'sha1'):
                for kv in keys:
                    cmds.append({'op': 'shard', 'shards': str(nsh), 'key': str(kv), 'func': func_name})
            chk.report(ob, key, what, {'shards': nsh, 'bind_hex': hx, 'placeholders': list(placeholders), 'bound_keys': keys},
                       {'commands': cmds, 'expect': ['c06_bind', nsh, list(placeholders), hx, keys]})

        try:
            r = ip_.call_function(fn_bind, [Ptr(Cell(qr, 'qr')), Ptr(Cell(msg, 'bind'))])
        except Panic as p:
            report(ip_.model_for(), 'C06/O3/bind-panic/' + '_'.join(kinds), 'infer_shard_from_bind panics on a well-formed Bind: ' + p.msg)
            return 'panic'
        ob.nontrivial += 1
        key_shards = []
        for i in range(nparams):
            if (i + 1) in placeholders:
                f = effective_format(i)
                if (f == 1) != (kinds[i][0] == 'b'):
                    return 'skip-mismatched-format'      # binary bytes sent as text or vice versa: outside the claim
                key_shards.append(SHARD_UF(func.z(), values[i], shards.z()))
        act = getf(prog, qr, 'QueryRouter', 'active_shard')
        got = act.variants['Some'][0]
        if len(key_shards) == 1:
            cond = z3.And(act.discr.z() == 1, got.z() == key_shards[0])
        else:
            same = z3.And(*[k == key_shards[0] for k in key_shards[1:]])
            cond = z3.If(same, z3.And(act.discr.z() == 1, got.z() == key_shards[0]), z3.And(act.discr.z() == 1, got.z() == pre.z()))
        m = ip_.model_for(z3.Not(cond))
        if m is not None:
            report(m, 'C06/O3/bind-shard/ph%s-of-%d' % (''.join(map(str, placeholders)), nparams),
                   'a key bound as parameter %r of %d (%s) does not select Sharder::shard(key)' % (placeholders, nparams, '/'.join(kinds)))
        if not ob.samples:
            ob.samples.append({'bind_hex': msg_hex(ip_.model_for()), 'placeholders': list(placeholders)})
        return 'ok'

    ip.explore(harness)
    chk.absorb(ob, ip)
    chk.end(ob)


def o3_set_sharding_key(chk, prog, d, quote):
    import checks.c13 as c13
    c13.o2_semantics(chk, prog, 0, 1000, ("SET SHARDING KEY TO " + quote, d, quote), prefix='C06/O3')


def main(chk):
    chk.explanation = (
        'Solver-based checking of the real code: Sharder::shard and its callees are executed symbolically from '
        'the rustc MIR dump regenerated from /repo on this run; key and shard count are 64-bit symbolic variables; the '
        'assertion shard(key) == pg_partition_hash(key) % shards (independent transcription of PostgreSQL hashfn.c / '
        'partbounds.c, validated on 50 real-PostgreSQL vectors) is decided by z3 for all 2^64 x 2^64 inputs. Counterexamples are '
        'replayed against the natively compiled code before being reported.')
    chk.explanation += (' (O5-get-shard) ConnectionPool::get on two shards, requested shard and role the solver\'s choice: whatever is tried or handed out belongs to the requested shard.')
    chk.assumptions += [
        'MIR `Rem` on usize is bvurem; for the equality query both sides use one uninterpreted function urem_uf (sound for equality)',
        'PostgreSQL semantics as transcribed in harness/refs.py from hashfn.c, hashfunc.c, hashfn.h, partbounds.c, partition.h',
        'SHA1 sharding: digest uninterpreted, not compared with a reference (outside the claim)',
    ]
    validate_translation(chk)
    o1_hash(chk, 'on')
    if chk.thorough:
        o1_hash(chk, 'off')
    o1_range(chk)
    prog = chk.program('on')
    tasks = []
    digs = [1, 3, 10, 18] if not chk.thorough else list(range(1, 20))
    for d in digs:
        tasks.append((o3_set_sharding_key, (prog, d, "'")))
    if chk.thorough:
        for d in digs:
            tasks.append((o3_set_sharding_key, (prog, d, "")))
    # Bind shapes
    shapes = []
    for k in ('b2', 'b4', 'b8'):
        shapes.append((1, (1,), (k,), (1,)))
    for k in ('t1', 't2', 't4', 't18'):
        shapes.append((1, (), (k,), (1,)))
        shapes.append((1, (0,), (k,), (1,)))
    shapes.append((2, (1, 1), ('b4', 'b8'), (1,)))
    shapes.append((2, (1, 1), ('b4', 'b8'), (2,)))
    shapes.append((2, (0, 1), ('t2', 'b8'), (2,)))
    shapes.append((2, (1,), ('b8', 'b8'), (1, 2)))
    shapes.append((2, (), ('t2', 't3'), (2,)))
    if chk.thorough:
        shapes.append((2, (1, 0), ('b2', 't18'), (2,)))
        shapes.append((2, (0,), ('t3', 't3'), (1, 2)))
        shapes.append((3, (1,), ('b4', 'b4', 'b8'), (3,)))
    for sh in shapes:
        tasks.append((o3_bind, (prog,) + sh))
    chk.parallel(_dispatch, tasks)
    # ... and shard k's slot really holds shard k's servers: ConnectionPool::from_config (real coroutine) on shard tables whose string order
    # differs from their numeric order ("+1" sorts before "0"), the C15 build obligation instantiated for this property
    import checks.c15 as c15
    for ids in (['0', '+1'], ['0', '1', '02']):
        c15.o3_build(chk, prog, ids, 'any', prop='C06')
    # the selected shard is the one statements run on, an out-of-range SET SHARD is refused, the selection persists (Client::handle executed)
    # the last step of every routing path: the pool hands out a server of the shard it was asked for, also when that shard has no server of the requested role
    import checks.c07 as c07mod
    c07mod.o5_get_shard(chk, chk.program('on'), props=('C06',), only=('get-leaves-shard',))
    hobl.handle_obligations(chk, chk.program('on'), {'C06'}, ['commands'])


def _dispatch(chk, fn, args):
    fn(chk, *args)


if __name__ == '__main__':
    run_check('C06', main)
