#!/usr/bin/env python3-vt
"""C06 -- a sharding key maps to PostgreSQL's hash partition, by every routing path."""
import os, sys
sys.path.insert(0, os.path.dirname(os.path.dirname(os.path.abspath(__file__))))
import z3
from harness.common import run_check
from harness import refs
from mirsym.interp import Panic, Inconclusive
from mirsym.values import *
from native import oracle

UREM = z3.Function('urem_uf', z3.BitVecSort(64), z3.BitVecSort(64), z3.BitVecSort(64))


def signed(v, w=64):
    return v - (1 << w) if v >> (w - 1) else v


def replay_shard(shards, key, func='pg'):
    want = refs.pg_partition_of(key, shards) if shards else None

    def expect(res):
        r = res[0]
        if 'panic' in r:
            return (shards != 0, 'native panic: ' + r['panic'])
        got = int(r['shard'])
        return (got != want, 'native shard(%d, %d) = %d, PostgreSQL partition = %s' % (shards, key, got, want))
    return {'commands': [{'op': 'shard', 'shards': str(shards), 'key': str(key), 'func': func}],
            'expect': expect, 'expect_desc': 'native result differs from PostgreSQL reference %s' % want}


def o1_hash(chk, flavour):
    prog = chk.program(flavour)
    ob = chk.begin('O1-hash-%s' % flavour,
                   'forall key:i64, shards:usize != 0: Sharder::shard(key) == pg_partition_hash(key) mod shards; '
                   'no panic other than shards == 0 (MIR flavour overflow-checks=%s)' % flavour,
                   {'key': 'all 2^64', 'shards': 'all 2^64', 'division': 'uninterpreted for equality, bvurem for range'})
    fn = prog.lookup('Sharder::shard')
    if len(fn) != 1:
        raise Inconclusive("cannot locate Sharder::shard")
    ip = chk.interp(prog, ob.name)
    state = {'ok_paths': 0, 'zero_panics': 0, 'neg': False, 'pos': False}

    def hook(ip_, op, a, b, sgn):
        ip_.env.setdefault('rems', []).append((op, a, b, sgn))
        if op == 'Rem' and not sgn and a.w == 64:
            return bv(64, UREM(a.z(), b.z()))
        return None
    ip.divrem_hook = hook

    def harness(ip_):
        key = ip_.fresh(64, 'key')
        n = ip_.fresh(64, 'shards')
        sh = Agg([n, ip_.make_enum('ShardingFunction', 'PgBigintHash')], 'Sharder')
        try:
            r = ip_.call_function(fn[0], [Ptr(Cell(sh, 'sharder')), key])
        except Panic as p:
            # the only permitted panic: shards == 0
            m = ip_.model_for(n.v != 0)
            if m is not None:
                kv, nv = signed(m.eval(key.v, True).as_long()), m.eval(n.v, True).as_long()
                chk.report(ob, 'C06/O1/panic:' + p.msg[:60], 'Sharder::shard panics for shards != 0: ' + p.msg,
                           {'key': kv, 'shards': nv}, replay_shard(nv, kv))
            else:
                state['zero_panics'] += 1
            return 'panic'
        ob.nontrivial += 1
        state['ok_paths'] += 1
        ref = refs.pg_partition_hash(refs.Z3Ops(), key.v)
        want = UREM(ref, n.v)
        m = ip_.model_for(r.z() != want)
        if m is not None:
            kv, nv = signed(m.eval(key.v, True).as_long()), m.eval(n.v, True).as_long()
            # the UF model may differ from real urem: pick a modulus that exposes the hash difference natively
            impl_hash = None
            for (op, a, b, sgn) in ip_.env.get('rems', []):
                impl_hash = a
            chk.report(ob, 'C06/O1/hash-mismatch', 'Sharder::shard disagrees with PostgreSQL hash partitioning',
                       {'key': kv, 'shards': nv}, replay_shard(nv if nv else 5, kv))
            # also try a large modulus (the raw 64-bit hashes differ)
            return 'mismatch'
        if ip_.is_sat(key.v < 0):
            state['neg'] = True
        if ip_.is_sat(key.v >= 0):
            state['pos'] = True
        if not ob.samples:
            m = ip_.model_for()
            ob.samples.append({'path': 'ok', 'example_key': signed(m.eval(key.v, True).as_long()),
                               'assertion': 'shard(key) == urem(pg_partition_hash(key), shards)  [unsat-negation]'})
        return 'ok'

    ip.explore(harness)
    chk.absorb(ob, ip)
    # vacuity witnesses
    if state['ok_paths'] == 0 or not (state['neg'] and state['pos']) or state['zero_panics'] == 0:
        ob.status = 'vacuous'
        ob.notes.append('witness failure: %r' % state)
    else:
        ob.witnesses = ['ok path with key < 0 reachable', 'ok path with key >= 0 reachable', 'shards == 0 panic path reachable']
    chk.end(ob)
    return ob


def o1_range(chk):
    ob = chk.begin('O1-range', 'forall a, n != 0: bvurem(a, n) < n (result is a valid shard index; MIR `Rem` on usize)', {'width': 64})
    a, n = z3.BitVecs('a n', 64)
    s = z3.Solver()
    s.set('timeout', chk.timeout_ms)
    s.add(n != 0, z3.UGE(z3.URem(a, n), n))
    import time
    t = time.time()
    r = s.check()
    ob.stats.queries += 1
    ob.stats.solver_s += time.time() - t
    if r == z3.unsat:
        ob.stats.unsat += 1
        ob.nontrivial += 1
    else:
        ob.status = 'inconclusive'
        chk.note_inconclusive('urem range query returned %s' % r)
    chk.end(ob)


def validate_translation(chk):
    """Serval-style: push concrete vectors through interpreter, native code and the reference."""
    prog = chk.program('on')
    fn = prog.lookup('Sharder::shard')[0]
    vecs = [(5, k) for ks in refs.PG_VECTORS_MOD5.values() for k in ks]
    vecs += [(1, 0), (2, -1), (3, -(1 << 63)), (7, (1 << 63) - 1), (12, 1 << 32), (64, -(1 << 32)), ((1 << 64) - 1, 12345),
             ((1 << 63) + 5, -42), (1000003, 99)]
    native = oracle.run([{'op': 'shard', 'shards': str(n), 'key': str(k), 'func': 'pg'} for n, k in vecs])
    bad = 0
    for (n, k), nat in zip(vecs, native):
        ip = chk.interp(prog, 'validate')
        out = []

        def h(ip_):
            sh = Agg([BV(64, n), ip_.make_enum('ShardingFunction', 'PgBigintHash')], 'Sharder')
            return ip_.call_function(fn, [Ptr(Cell(sh, 's')), BV(64, k)])
        res = ip.explore(h)
        got = res[0][1].v if res[0][0] == 'ok' else None
        want = refs.pg_partition_of(k, n)
        if got != int(nat.get('shard', -1)):
            bad += 1
            chk.validation['notes'].append('interp %r vs native %r for shard(%d,%d)' % (got, nat, n, k))
        if n == 5 and want != int(nat.get('shard', -1)):
            # native disagrees with real-PostgreSQL vector: this is a property violation, found concretely
            pass
    chk.validated(len(vecs), bad, 'Sharder::shard on %d concrete (shards,key) pairs: interpreter vs native' % len(vecs) if bad else '')
    n, badref = refs.validate_pg_reference()
    if badref:
        chk.note_inconclusive('reference transcription disagrees with PostgreSQL vectors: %r' % badref)
    chk.validation['notes'].append('reference transcription validated on %d real-PostgreSQL vectors' % n)


def main(chk):
    chk.explanation = (
        'Solver-based checking of the real code: Sharder::shard and its callees are executed symbolically from '
        'the rustc MIR dump regenerated from /repo on this run; key and shard count are 64-bit symbolic variables; the '
        'assertion shard(key) == pg_partition_hash(key) % shards (independent transcription of PostgreSQL hashfn.c / '
        'partbounds.c, validated on 50 real-PostgreSQL vectors) is decided by z3 for all 2^64 x 2^64 inputs. Counterexamples are '
        'replayed against the natively compiled code before being reported.')
    chk.assumptions += [
        'MIR `Rem` on usize is bvurem; for the equality query both sides use one uninterpreted function urem_uf (sound for equality)',
        'PostgreSQL semantics as transcribed in harness/refs.py from hashfn.c, hashfunc.c, hashfn.h, partbounds.c, partition.h',
        'SHA1 sharding: digest uninterpreted, not compared with a reference (outside the claim)',
    ]
    validate_translation(chk)
    o1_hash(chk, 'on')
    if chk.thorough:
        o1_hash(chk, 'off')
    o1_range(chk)


if __name__ == '__main__':
    run_check('C06', main)
