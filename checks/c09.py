#!/usr/bin/env python3-vt
"""C09 -- no access without valid credentials (Client::startup)."""
import os, sys, itertools, re
sys.path.insert(0, os.path.dirname(os.path.dirname(os.path.abspath(__file__))))
import z3
from harness.common import run_check, expectation
from checks.serverfam import *
from checks.c07 import mk_pool, mk_addr
from checks import fromconfig as FC
from mirsym.models.misc import digest_bytes
from mirsym.models.util import ok, err
from native import oracle

AUTH_OK = [ord('R'), 0, 0, 0, 8, 0, 0, 0, 0]


def hex32(bs):
    out = []
    for b in bs:
        for nib in (z3.LShR(b.z(), 4), b.z() & 15):
            out.append(bv(8, z3.If(z3.ULT(nib, 10), nib + 48, nib + 87)))
    return out


def md5_answer(user, password, salt):
    """PostgreSQL protocol: concat('md5', md5(concat(md5(concat(password, username)), salt))), NUL-terminated."""
    inner = digest_bytes('md5', [BV(8, b) for b in password.encode()] + [BV(8, b) for b in user.encode()], 16)
    outer = digest_bytes('md5', hex32(inner) + list(salt), 16)
    return [BV(8, b) for b in b'md5'] + hex32(outer) + [BV(8, 0)]


def md5_second_pass_answer(hash_bytes, salt):
    """auth_query: the stored secret is already md5(password || user) in hex; the answer is 'md5' || hex(md5(that || salt))."""
    outer = digest_bytes('md5', [BV(8, b) for b in hash_bytes] + list(salt), 16)
    return [BV(8, b) for b in b'md5'] + hex32(outer) + [BV(8, 0)]


H_CACHED = b'c0' * 16
H_FETCHED = b'f1' * 16


def startup_bytes(user, db):
    b = b'user\0' + user.encode() + b'\0'
    if db is not None:
        b += b'database\0' + db.encode() + b'\0'
    b += b'\0'
    return Seq([BV(8, x) for x in b], 'bytesmut')


def contains(out, pat):
    n = len(pat)
    for i in range(len(out) - n + 1):
        if all(o.concrete and o.v == p for o, p in zip(out[i:i + n], pat)):
            return True
    return False


@expectation('c09_login')
def c09_login(want_admitted):
    def f(res):
        r = res[0]
        if 'panic' in r or 'error' in r:
            return ('panic' in r), 'native: %r' % (r,)
        return (r['admitted'] != want_admitted, 'native startup: admitted=%s (%s); credentials valid: %s' % (r['admitted'], r.get('detail'), want_admitted))
    return f


def o1_startup(chk, prog, user, db, resp_len, pool_kind, admin_only):
    """pool_kind: 'none' | 'trust' | 'md5' (cleartext password configured) ; db 'pgcat' = admin database."""
    name = 'O1-startup-%s@%s-resp%d-%s%s' % (user, db, resp_len, pool_kind, '-adminonly' if admin_only else '')
    ob = chk.begin(name, 'Client::startup (real coroutine) for user %r / database %r, pool %s, admin_only=%s, password message with symbolic code and %d '
                   'symbolic response bytes: AuthenticationOk is written and a Client returned only if the pool exists (or it is the admin '
                   'database with the admin user), the pooler is not shutting down for non-admins, and (trust, or the response equals the MD5 '
                   'answer for THIS connection\'s salt and the configured secret); otherwise no AuthenticationOk' % (user, db, pool_kind, admin_only, resp_len),
                   {'user': user, 'database': db, 'response_bytes': resp_len, 'pool': pool_kind, 'admin_only': admin_only})
    st = fn(prog, 'Client::startup')
    ip = chk.interp(prog, name)
    install_stats_noops(ip)
    admin_db = db in ('pgcat', 'pgbouncer')

    def harness(ip_):
        cfg = FC.base_config(ip_, prog)
        gen = getf(prog, cfg, 'Config', 'general')
        setf(prog, gen, 'General', 'admin_username', rstring('admin'))
        setf(prog, gen, 'General', 'admin_password', rstring('adminpw'))
        a_auth = ip_.fresh(64, 'admin_auth_type')
        ip_.assume(z3.ULE(a_auth.v, 1))
        setf(prog, gen, 'General', 'admin_auth_type', EnumV(a_auth, {}, 'AuthType'))
        FC.install(ip_, cfg)
        pool = None
        if pool_kind != 'none':
            pool, ps = mk_pool(ip_, prog, [[mk_addr(ip_, prog, 0, 1)]], [MapV('hashmap')])
            usr = getf(prog, ps, 'PoolSettings', 'user')
            setf(prog, usr, 'User', 'username', rstring(user))
            setf(prog, usr, 'User', 'password', some(ip_, rstring('secret')))
            setf(prog, usr, 'User', 'auth_type', ip_.make_enum('AuthType', 'Trust' if pool_kind == 'trust' else 'MD5'))
            if pool_kind.startswith('authquery'):
                # no cleartext password: the secret is the MD5 hash obtained through auth_query -- cached in the pool (pool built while
                # PostgreSQL was reachable) or still missing (fetched during this login); a refetch may succeed (with whatever hash the
                # server holds NOW) or fail: solver's choice
                setf(prog, usr, 'User', 'password', none(ip_))
                cached = pool_kind == 'authquery-cached'
                setf(prog, pool, 'ConnectionPool', 'auth_hash', Ptr(Cell(Agg([some(ip_, rstring(H_CACHED.decode())) if cached else none(ip_)], 'Lock'), 'auth_hash')))
                ip_.overrides.append((re.compile(r'Config::is_auth_query_configured$'), lambda c, *a: BV(1, 1)))
                fetches = ip_.env.setdefault('fetches', [])

                def refetch(c, p):
                    return Opaque('HookFuture', 'refetch')
                ip_.overrides.append((re.compile(r'^(?:auth_passthrough::)?refetch_auth_hash$'), refetch))

                def poll_hook(ip2, co, ptr):
                    if isinstance(co, Opaque) and co.ty == 'HookFuture' and co.tag == 'refetch':
                        okk = ip2.choose(2, 'refetch_ok') == 1
                        fetches.append(okk)
                        r_ = ok(ip2, rstring(H_FETCHED.decode())) if okk else err(ip2, ip2.make_enum('Error', 'ClientBadStartup'))
                        return EnumV(BV(64, 0), {'Ready': [r_]}, 'Poll')
                    raise Inconclusive('poll of %r' % (co,))
                ip_.poll_hook = poll_hook

        def get_pool(c, dbp, up):
            dbs = bytes(b.v for b in items(c.ip, dbp)).decode()
            us = bytes(b.v for b in items(c.ip, up)).decode()
            c.ip.env.setdefault('get_pool', []).append((dbs, us))
            if pool is not None and dbs == db and us == user:
                return some(c.ip, pool)
            return none(c.ip)
        ip_.overrides.append((re.compile(r'^(?:pool::)?get_pool$'), get_pool))
        code = ip_.fresh(8, 'pw_code')
        resp = [ip_.fresh(8, 'resp%d' % i) for i in range(resp_len)]
        inbound = [code] + wire.be(resp_len + 4, 4) + resp
        rd = StreamV(inbound, 'client_read')
        wr = StreamV([], 'client_write')
        csm = Ptr(Cell(Agg([MapV('hashmap')], 'Lock'), 'csmap'))
        shutdown_rx = Opaque('Receiver', 'shutdown')
        # (a receiver made by resubscribe() sees only what is sent after the call)
        ip_.overrides.append((re.compile(r'Receiver::<\(\)>::resubscribe$'), lambda c, p: Opaque('Receiver', 'resubscribed')))
        try:
            r = ip_.drive(ip_.call_function(st, [rd, wr, Opaque('SocketAddr', 'addr'), startup_bytes(user, db), csm,
                                                 shutdown_rx, BV(1, int(admin_only))]))
        except Panic as p:
            raise Inconclusive('Client::startup panic: ' + p.msg)
        ob.nontrivial += 1
        res = variant(ip_, r, 'Result')
        out = list(wr.out)
        sent_ok = contains(out, AUTH_OK)
        # salt actually issued on this connection: 'R' 0 0 0 12 0 0 0 5 <salt>
        salt = None
        for i in range(len(out) - 12):
            if all(o.concrete for o in out[i:i + 9]) and [o.v for o in out[i:i + 9]] == [ord('R'), 0, 0, 0, 12, 0, 0, 0, 5]:
                salt = out[i + 9:i + 13]
        # ---- reference: may this client be admitted?
        if admin_db:
            trust = decide(ip_, a_auth.v == 0)
            exists = True
            secret_user, secret_pw = 'admin', 'adminpw'
            who_ok = True            # identity is proven by the hash over the ADMIN user name
        else:
            exists = pool_kind != 'none'
            trust = pool_kind == 'trust'
            secret_user, secret_pw = user, 'secret'
            who_ok = True
        allowed_shutdown = admin_db or not admin_only
        if exists and allowed_shutdown and not trust and pool_kind.startswith('authquery'):
            # the answer must be the MD5 answer over a hash the pooler legitimately holds: the cached one, or one a refetch returned
            cred = False
            if salt is not None:
                hs = ([H_CACHED] if pool_kind == 'authquery-cached' else []) + ([H_FETCHED] if any(ip_.env.get('fetches', [])) else [])
                for h_ in hs:
                    ref = md5_second_pass_answer(h_, salt)
                    if len(ref) == len(resp) and decide(ip_, z3.And(code.z() == ord('p'), *[a.z() == b.z() for a, b in zip(resp, ref)])):
                        cred = True
        elif exists and allowed_shutdown and not trust:
            if salt is None:
                cred = False
            else:
                ref = md5_answer(secret_user, secret_pw, salt)
                cred = (len(ref) == len(resp)) and decide(ip_, z3.And(code.z() == ord('p'), *[a.z() == b.z() for a, b in zip(resp, ref)]))
        else:
            cred = trust
        may = exists and allowed_shutdown and (trust or cred)
        admitted = (res == 'Ok')

        def rep(key, what):
            m = ip_.model_for()
            # concrete scenario for the native replay: the witness response is turned into one of the canonical attacks
            attack = 'correct' if may else ('empty' if resp_len == 0 else ('prefix' if resp_len < 36 else 'wrong'))
            if admin_db and not may and resp_len == 36:
                attack = 'admin_pw_other_user'
            chk.report(ob, key, what, {'user': user, 'database': db, 'pool': pool_kind, 'admin_only': admin_only, 'response_len': resp_len, 'attack': attack},
                       {'commands': [{'op': 'startup_login', 'user': user, 'database': db, 'pool': pool_kind, 'admin_only': admin_only, 'attack': attack,
                                      'resp_len': resp_len}], 'expect': ['c09_login', may]})
        if admitted and chk.pid == 'C17':
            # the subscription main() took when it accepted the socket is the one the session listens on: the broadcast is sent ONCE, and may be
            # sent while this client is still logging in
            got = getf(prog, payload(r, 'Ok')[0], 'Client', 'shutdown')
            if got is not shutdown_rx:
                chk.report(ob, 'C17/O1/shutdown-subscription-replaced', 'Client::startup returns a client that does not listen on the shutdown subscription it was given (%r): a '
                           'SIGINT that arrives while the client is logging in is never seen by its session -- it is admitted (admin_only was false when it connected) and never '
                           'disconnected' % (got,), {'user': user, 'database': db, 'pool': pool_kind},
                           {'commands': [{'op': 'startup_login', 'user': user, 'database': db, 'pool': pool_kind, 'admin_only': False, 'attack': 'correct', 'resp_len': 36,
                                          'shutdown_during_challenge': True}], 'expect': ['c17_resub']})
        if admitted and not may:
            why = 'no such pool' if not exists else ('the pooler is shutting down' if not allowed_shutdown else 'the password response is not the MD5 answer for the salt issued on this connection')
            rep('C09/O1/admitted-without-credentials/%s' % ('admin' if admin_db else pool_kind), 'client %s@%s is admitted although %s (response of %d bytes)' % (user, db, why, resp_len))
        if sent_ok != admitted:
            rep('C09/O1/auth-ok-mismatch', 'AuthenticationOk %s although startup %s' % ('sent' if sent_ok else 'not sent', 'succeeded' if admitted else 'failed'))
        if may and not admitted and not pool_kind.startswith('authquery'):
            rep('C09/O1/valid-credentials-refused', 'client %s@%s presents valid credentials but is refused' % (user, db))
        if len(ob.samples) < 2:
            ob.samples.append({'admitted': admitted, 'may': may, 'bytes_to_client': len(out)})
    ip.explore(harness, max_paths=60000)
    chk.absorb(ob, ip)
    chk.end(ob)


def _dispatch(chk, f, args):
    f(chk, *args)


def main(chk):
    chk.explanation = (
        'Solver-based checking of authentication executed from MIR: the real Client::startup coroutine (parse_startup, md5_challenge, '
        'md5_hash_password / md5_hash_second_pass, the password-message reads, error replies, auth_ok) runs for configured / unconfigured '
        '(database, user) pairs, trust and MD5 pools, the admin database, admin_only mode, with the password message code and every '
        'response byte symbolic for response lengths 0, 3, 35, 36, 37; MD5 is an uninterpreted function and the salt a fresh symbol. '
        'Admission must imply: pool exists (or admin), not shutting down (non-admin), and trust or response == the protocol\'s MD5 answer '
        'over the configured secret and the salt issued on this connection.  The secret is per (database, user): the pools ConnectionPool::from_config builds for two users of one '
        'section do not share their auth_hash cell (O2-rebuild, auth_query configured).')
    chk.assumptions += [
        'MD5 is an uninterpreted function (collisions outside the claim); salt unpredictability, TLS and the auth_query network exchange are outside the claim',
        'cleartext-password pools, the admin database, and auth_query pools (secret = an MD5 hash cached in the pool or fetched during the login; the refetch itself -- a query on a server -- is a stub that succeeds with some hash or fails, by the solver\'s choice)',
        'std String / Option / BTreeMap equality and hashing are structural; DefaultHasher maps different write sequences to different values (collisions outside the claim)',
    ]
    prog = chk.program('on')
    tasks = []
    lens = (0, 3, 35, 36, 37)
    for ln in lens:
        tasks.append((o1_startup, (prog, 'u', 'db', ln, 'md5', False)))
        tasks.append((o1_startup, (prog, 'admin', 'pgcat', ln, 'none', False)))
        tasks.append((o1_startup, (prog, 'mallory', 'pgcat', ln, 'none', False)))
    tasks.append((o1_startup, (prog, 'u', 'db', 36, 'none', False)))
    tasks.append((o1_startup, (prog, 'u', 'db', 0, 'trust', False)))
    tasks.append((o1_startup, (prog, 'u', 'db', 36, 'md5', True)))
    tasks.append((o1_startup, (prog, 'u', 'db', 0, 'trust', True)))
    tasks.append((o1_startup, (prog, 'admin', 'pgbouncer', 36, 'none', True)))
    tasks.append((o1_startup, (prog, 'u', None, 36, 'none', False)))
    for ln in (0, 36):
        tasks.append((o1_startup, (prog, 'u', 'db', ln, 'authquery-cached', False)))
        tasks.append((o1_startup, (prog, 'u', 'db', ln, 'authquery-fetch', False)))
    chk.parallel(_dispatch, tasks)
    # "the configured secret" is the one in the file in force: a reload that changes a user's password / auth_type / name must replace the
    # pool the old values were baked into -- which it does iff the User definition's identity (PartialEq for the reload gate, Hash for pool
    # reuse) depends on those fields (the C14 identity obligation, instantiated for config::User)
    import checks.c14 as c14
    c14.o3_identity(chk, prog, ['User'], report_as='C09')
    # the secret a login is checked against is per (database, user): two users of one section never share the auth_hash cell
    c14.o2_rebuild(chk, prog, 'two-users', props=('C09',))


if __name__ == '__main__':
    run_check('C09', main)
