#!/usr/bin/env python3-vt
"""C03 -- queries and replies are relayed complete, in order and unmodified (framing, reply path, request path)."""
import os, sys, itertools
sys.path.insert(0, os.path.dirname(os.path.dirname(os.path.abspath(__file__))))
import z3
from harness.common import run_check, expectation
from checks.serverfam import *
from native import oracle
from checks import hobl


@expectation('srv_expect')
def srv_expect(expected):
    """Native replay: run the same script against the compiled Server; reproduced iff it deviates from the reference."""
    def f(res):
        r = res[0]
        if 'panic' in r:
            return True, 'native panic: ' + r['panic']
        diffs = []
        for i, exp in enumerate(expected.get('steps', [])):
            got = r['steps'][i]
            for k, v in exp.items():
                g = got.get(k)
                if k == 'err':
                    if (g is not None) != bool(v):
                        diffs.append('step %d: error expected=%s, native=%r' % (i, v, g))
                elif g != v:
                    diffs.append('step %d %s: reference %r, native %r' % (i, k, v, g))
        for k, v in expected.get('final', {}).items():
            if r['final'].get(k) != v:
                diffs.append('final %s: reference %r, native %r' % (k, v, r['final'].get(k)))
        if 'written_hex' in expected and r.get('written_hex') != expected['written_hex']:
            diffs.append('bytes written to the server: reference %s, native %s' % (expected['written_hex'], r.get('written_hex')))
        return (bool(diffs), '; '.join(diffs) if diffs else 'native agrees with the reference')
    return f


# ------------------------------------------------------------------------------------------------ O1 framing
def o1_framing(chk, prog, lo, hi, avail, flavour='on'):
    name = 'O1-framing-len%d..%d-avail%d-%s' % (lo, hi, avail, flavour)
    ob = chk.begin(name, 'read_message: code and every body byte symbolic, length field symbolic in [%d,%d], %d body bytes available: '
                   'returns Ok(m) iff the whole message is available, m = exactly those 1+len bytes verbatim, stream advanced by exactly '
                   'that much; never a partial message' % (lo, hi, avail), {'len': [lo, hi], 'available_body_bytes': avail, 'mir_flavour': flavour})
    rm = fn(prog, 'messages::read_message')
    ip = chk.interp(prog, name)

    def harness(ip_):
        code = ip_.fresh(8, 'code')
        ln = ip_.fresh(32, 'len')
        ip_.assume(z3.And(ln.v >= lo, ln.v <= hi))
        body = [ip_.fresh(8, 'b%d' % i) for i in range(avail)]
        stream_bytes = [code] + wire.be_sym(ln, 4) + body
        st = StreamV(stream_bytes, 'peer')
        try:
            fut = ip_.call_function(rm, [Ptr(Cell(st, 'stream'))])
            r = ip_.drive(fut)
        except Panic as p:
            m = ip_.model_for()
            chk.report(ob, 'C03/O1/panic', 'read_message panics on length %d: %s' % (signed32(m.eval(ln.v, True).as_long()), p.msg),
                       {'stream_hex': bytes(m.eval(b.z(), True).as_long() for b in stream_bytes).hex()},
                       {'commands': [{'op': 'read_message', 'hex': bytes(m.eval(b.z(), True).as_long() for b in stream_bytes).hex()}],
                        'expect': ['c03_framing', None]})
            return
        ob.nontrivial += 1
        okv = variant(ip_, r, 'Result') == 'Ok'
        # the length is concrete on this path only if the code forked on it; get a definite value
        need = None
        for k in range(lo, hi + 1):
            if ip_.branch(ln.v == k, 'len'):
                need = k
                break
        want_ok = need >= 4 and (need - 4) <= avail
        want = stream_bytes[:1 + need] if want_ok else None

        def rep(m, key, what):
            hx = bytes(m.eval(b.z(), True).as_long() for b in stream_bytes).hex()
            wh = bytes(m.eval(b.z(), True).as_long() for b in want).hex() if want is not None else None
            chk.report(ob, key, what + ' (declared length %d, %d body bytes on the wire)' % (need, avail), {'stream_hex': hx},
                       {'commands': [{'op': 'read_message', 'hex': hx}], 'expect': ['c03_framing', wh]})
        if okv != want_ok:
            rep(ip_.model_for(), 'C03/O1/' + ('partial-message-accepted' if okv else 'complete-message-rejected'),
                'read_message returns %s' % ('Ok for an incomplete/ill-framed message' if okv else 'Err for a complete message'))
            return
        if okv:
            out = items(ip_, payload(r, 'Ok')[0])
            cond = z3.And(*[a.z() == b.z() for a, b in zip(out, want)]) if len(out) == len(want) else z3.BoolVal(False)
            m = ip_.model_for(z3.Not(cond))
            if m is not None:
                rep(m, 'C03/O1/bytes-differ', 'read_message returns bytes that differ from the wire')
            if st.pos != 1 + need:
                rep(ip_.model_for(), 'C03/O1/stream-position', 'read_message consumed %d bytes for a %d-byte message' % (st.pos, 1 + need))
        if len(ob.samples) < 2:
            m = ip_.model_for()
            ob.samples.append({'stream_hex': bytes(m.eval(b.z(), True).as_long() for b in stream_bytes).hex(), 'ok': okv})
    ip.explore(harness)
    chk.absorb(ob, ip)
    chk.end(ob)


def signed32(v):
    return v - (1 << 32) if v >> 31 else v


@expectation('c03_framing')
def c03_framing(want_hex):
    def f(res):
        r = res[0]
        if 'panic' in r:
            return True, 'native panic: ' + r['panic']
        got = r.get('ok')
        return (got != want_hex, 'native read_message -> %r, reference %r' % (r, want_hex))
    return f


# ------------------------------------------------------------------------------------------------ O2 reply path
def o2_recv_error(chk, prog, text_len, prop='C03'):
    """An ErrorResponse is relayed like any other message -- also on a connection with a statement cache, where the pooler LOOKS INTO it, and also
    when its text is not UTF-8 (a server with another client_encoding and localised messages)."""
    name = 'O2-recv-error-text%d' % text_len
    ob = chk.begin(name, 'Server::recv on a connection WITH a prepared-statement cache (the pooler parses ErrorResponses there) receiving ErrorResponse(S "ERROR", '
                   'C "22012", M <%d symbolic bytes: ASCII or bytes that are never valid UTF-8>) then ReadyForQuery: Ok, and the bytes handed to the client are '
                   'exactly the two messages' % text_len, {'message_text_bytes': text_len, 'statement_cache': True})
    recv = fn(prog, 'Server::recv')
    ip = chk.interp(prog, name)
    install_stats_noops(ip)
    ip.lossy_invalid = True

    def harness(ip_):
        text = []
        for i in range(text_len):
            b = ip_.fresh(8, 'txt%d' % i)
            ip_.assume(z3.And(b.v != 0, z3.Or(z3.ULT(b.v, 128), b.v == 0xC0, b.v == 0xC1, z3.UGE(b.v, 0xF5))))
            text.append(b)
        body = [BV(8, x) for x in b'SERROR\0C22012\0M'] + text + [BV(8, 0), BV(8, 0)]
        msgs = [Msg(BV(8, ord('E')), body), Msg(BV(8, ord('Z')), [BV(8, ord('I'))])]
        stream = [b for m in msgs for b in m.bytes]
        st = StreamV(list(stream), 'server')
        srv, pre, prebuf = mk_symbolic_server(ip_, prog, st, 0, concrete_flags={})
        setf(prog, srv, 'Server', 'prepared_statement_cache', some(ip_, lru([], 4)))
        try:
            r = ip_.drive(ip_.call_function(recv, [Ptr(Cell(srv, 'server')), none(ip_)]))
        except Panic as p:
            r = None
        ob.nontrivial += 1
        okk = r is not None and variant(ip_, r, 'Result') == 'Ok'
        bad = None
        if not okk:
            bad = 'Server::recv fails (%s) on an ErrorResponse the server sent: the client gets a pooler-made error instead of the server\'s message and ReadyForQuery' % ('panic' if r is None else 'Err')
        else:
            out = items(ip_, payload(r, 'Ok')[0])
            if len(out) != len(stream) or ip_.model_for(z3.Not(z3.And(*[a.z() == b.z() for a, b in zip(out, stream)]))) is not None:
                bad = 'the bytes handed to the client differ from the ErrorResponse + ReadyForQuery the server sent'
        if bad:
            m = ip_.model_for()
            hx = bytes(m.eval(b.z(), True).as_long() for b in stream).hex()
            chk.report(ob, prop + '/O2/error-response-not-relayed', bad, {'stream_hex': hx},
                       {'commands': [{'op': 'server_script', 'pre': {}, 'cache': 4, 'inbound_hex': hx, 'steps': [{'do': 'recv'}]}], 'expect': ['srv_expect', {'steps': [{'err': False, 'hex': hx}]}]})
        if len(ob.samples) < 2:
            ob.samples.append({'ok': okk})
    ip.explore(harness)
    chk.absorb(ob, ip)
    chk.end(ob)


def o2_recv(chk, prog, shape, buffer_len, loop, cflags=None):
    name = 'O2-recv%s-%s-buf%d' % ('-loop' if loop else '', '_'.join(map(str, shape)), buffer_len)
    ob = chk.begin(name, 'Server::recv%s on a reply stream of %d messages (body lengths %r; codes and bodies symbolic), %d bytes already '
                   'buffered, arbitrary connection flags: bytes handed to the client = the server stream up to the flush point, whole '
                   'messages, in order, unmodified; data_available / in_transaction / copy / bad as the protocol dictates'
                   % (' driven until !data_available' if loop else '', len(shape), list(shape), buffer_len),
                   {'messages': len(shape), 'body_lengths': list(shape), 'prebuffered': buffer_len, 'loop': loop})
    recv = fn(prog, 'Server::recv')
    ip = chk.interp(prog, name)
    install_stats_noops(ip)

    def harness(ip_):
        msgs = sym_messages(ip_, shape)
        st = StreamV([b for m in msgs for b in m.bytes], 'server')
        srv, pre, prebuf = mk_symbolic_server(ip_, prog, st, buffer_len, concrete_flags=cflags)
        sp = Ptr(Cell(srv, 'server'))
        ref = RefState(None, None, None, False, None, None, buffer_len)
        relayed = []
        calls = []
        consumed = 0
        res = None
        try:
            while True:
                fut = ip_.call_function(recv, [sp, none(ip_)])
                r = ip_.drive(fut)
                res = variant(ip_, r, 'Result')
                if res == 'Ok':
                    out = items(ip_, payload(r, 'Ok')[0])
                    relayed.extend(out)
                    calls.append(len(out))
                else:
                    calls.append(None)
                    break
                if not loop or not flag_val(ip_, sfield(prog, srv, 'data_available')) or len(calls) > len(shape) + 1:
                    break
        except Panic as p:
            m = ip_.model_for()
            chk.report(ob, 'C03/O2/panic', 'Server::recv panics on a well-formed reply stream: ' + p.msg,
                       {'pre': pre_json(m, pre, prebuf), 'stream_hex': stream_hex(m, msgs)},
                       {'commands': [{'op': 'server_script', 'pre': pre_json(m, pre, prebuf), 'inbound_hex': stream_hex(m, msgs),
                                      'steps': [{'do': 'recv_loop' if loop else 'recv'}]}], 'expect': ['srv_expect', {'steps': [{'err': False}]}]})
            return
        ob.nontrivial += 1
        # ---- reference, evaluated on this path
        ref.in_tx = flag_val(ip_, pre['in_transaction'])
        ref.data_avail = flag_val(ip_, pre['data_available'])
        ref.copy = flag_val(ip_, pre['in_copy_mode'])
        ref.cl_set = flag_val(ip_, pre['needs_cleanup_set'])
        ref.cl_prep = flag_val(ip_, pre['needs_cleanup_prepare'])
        pos = 0
        ref_res = None
        ref_relayed = list(prebuf)
        ncalls = 0
        while True:
            ref_res, n = ref_recv(ip_, ref, msgs, pos)
            ncalls += 1
            if ref_res == 'ok':
                for m_ in msgs[pos:pos + n]:
                    ref_relayed.extend(m_.bytes)
                ref.buflen = 0
            pos += n
            if ref_res != 'ok' or not loop or not ref.data_avail or ncalls > len(shape) + 1:
                break
        flags = server_flags(ip_, prog, srv)
        got = {k: flag_val(ip_, v) for k, v in flags.items()}
        want = {'in_transaction': ref.in_tx, 'data_available': ref.data_avail, 'in_copy_mode': ref.copy, 'bad': ref.bad,
                'needs_cleanup_set': ref.cl_set, 'needs_cleanup_prepare': ref.cl_prep}

        def rep(m, key, what):
            pj = pre_json(m, pre, prebuf)
            sh = stream_hex(m, msgs)
            exp_steps = [{'err': ref_res != 'ok'}]
            if ref_res == 'ok':
                exp_steps[0]['relayed' if loop else 'ok'] = bytes(m.eval(b.z(), True).as_long() for b in ref_relayed).hex()
            chk.report(ob, key, what, {'pre': pj, 'stream_hex': sh},
                       {'commands': [{'op': 'server_script', 'pre': pj, 'inbound_hex': sh, 'steps': [{'do': 'recv_loop' if loop else 'recv'}]}],
                        'expect': ['srv_expect', {'steps': exp_steps, 'final': want}]})
        klasses = ''.join(m_.klass(ip_) for m_ in msgs)
        if (res == 'Ok') != (ref_res == 'ok'):
            rep(ip_.model_for(), 'C03/O2/result/' + klasses[:pos], 'Server::recv returns %s where the protocol requires %s (reply %s)' % (res, ref_res, klasses))
            return
        if res == 'Ok':
            m = ip_.model_for(z3.Not(seq_equal(relayed, ref_relayed)))
            if m is not None:
                rep(m, 'C03/O2/relayed-bytes', 'bytes handed to the client differ from the server stream up to the flush point '
                    '(%d bytes relayed, %d expected; reply %s)' % (len(relayed), len(ref_relayed), klasses))
            if len(items(ip_, sfield(prog, srv, 'buffer'))) != 0:
                rep(ip_.model_for(), 'C03/O2/buffer-not-cleared', 'Server.buffer is not empty after recv returned')
        for k in ('data_available', 'in_transaction', 'in_copy_mode', 'bad'):
            if got[k] != want[k] and not (res != 'Ok' and k != 'bad'):
                rep(ip_.model_for(), 'C03/O2/flag-%s' % k, 'after recv %s=%s but the protocol state is %s (reply %s)' % (k, got[k], want[k], klasses))
        if len(ob.samples) < 3:
            m = ip_.model_for()
            ob.samples.append({'reply_classes': klasses, 'stream_hex': stream_hex(m, msgs)[:80], 'result': res, 'calls': calls})
    ip.explore(harness, max_paths=60000)
    chk.absorb(ob, ip)
    chk.end(ob)


# ------------------------------------------------------------------------------------------------ O3 request path
def o3_send(chk, prog, n):
    name = 'O3-send-%dbytes' % n
    ob = chk.begin(name, 'Server::send: the %d message bytes (symbolic) reach the server socket verbatim and flushed; a write failure marks '
                   'the connection bad and is reported' % n, {'bytes': n, 'write_faults': 'any point'})
    send = fn(prog, 'Server::send')
    ip = chk.interp(prog, name)
    install_stats_noops(ip)

    def harness(ip_):
        data = [ip_.fresh(8, 'd%d' % i) for i in range(n)]
        st = StreamV([], 'server', fail_writes=True)
        srv, pre, prebuf = mk_symbolic_server(ip_, prog, st, 0)
        fut = ip_.call_function(send, [Ptr(Cell(srv, 'server')), Ptr(Cell(Seq(list(data), 'bytesmut'), 'msg'))])
        r = ip_.drive(fut)
        res = variant(ip_, r, 'Result')
        ob.nontrivial += 1
        bad = flag_val(ip_, sfield(prog, srv, 'bad'))

        def rep(key, what):
            m = ip_.model_for()
            hx = bytes(m.eval(b.z(), True).as_long() for b in data).hex()
            chk.report(ob, key, what, {'message_hex': hx},
                       {'commands': [{'op': 'server_script', 'pre': pre_json(m, pre), 'inbound_hex': '', 'steps': [{'do': 'send', 'hex': hx}]}],
                        'expect': ['srv_expect', {'steps': [{'err': False}], 'written_hex': hx, 'final': {'bad': False}}]})
        if st.failed:
            if res != 'Err' or not bad:
                rep('C03/O3/write-failure-unreported', 'a failed write to the server is not reported / does not mark the connection bad')
        else:
            cond = z3.And(*[a.z() == b.z() for a, b in zip(st.out, data)]) if len(st.out) == len(data) else z3.BoolVal(False)
            if res != 'Ok' or bad or ip_.model_for(z3.Not(cond)) is not None or st.flushed != len(st.out):
                rep('C03/O3/request-bytes', 'bytes written to the server differ from the request (or are not flushed)')
        if not ob.samples:
            ob.samples.append({'bytes': n, 'write_failed': st.failed, 'result': res})
    ip.explore(harness)
    chk.absorb(ob, ip)
    chk.end(ob)


def validate_translation(chk, prog):
    """Concrete reply streams through interpreter and native Server."""
    import struct

    def msg(code, body):
        return code + struct.pack('>i', len(body) + 4) + body
    streams = [
        msg(b'T', b'\x00\x00') + msg(b'D', b'\x00\x01\x00\x00\x00\x011') + msg(b'C', b'SELECT 1\x00') + msg(b'Z', b'I'),
        msg(b'C', b'SET\x00') + msg(b'Z', b'T'),
        msg(b'E', b'SERROR\x00\x00') + msg(b'Z', b'E'),
        msg(b'G', b'\x00\x00\x00') + msg(b'Z', b'I'),
        msg(b'H', b'\x00\x00\x00') + msg(b'd', b'abc') + msg(b'c', b'') + msg(b'C', b'COPY 1\x00') + msg(b'Z', b'I'),
        msg(b'D', b'\x00') + msg(b'Z', b'X'),
        msg(b'N', b'x\x00') + msg(b'1', b'') + msg(b'2', b''),
    ]
    native = oracle.run([{'op': 'server_script', 'pre': {}, 'inbound_hex': s.hex(), 'steps': [{'do': 'recv_loop'}]} for s in streams])
    recv = fn(prog, 'Server::recv')
    bad = 0
    for s, nat in zip(streams, native):
        ip = chk.interp(prog, 'validate')
        install_stats_noops(ip)
        out = {}

        def h(ip_):
            st = StreamV([BV(8, b) for b in s], 'server')
            srv = mk_server(ip_, prog, st)
            sp = Ptr(Cell(srv, 'server'))
            rel = b''
            err = False
            n = 0
            while True:
                r = ip_.drive(ip_.call_function(recv, [sp, none(ip_)]))
                n += 1
                if variant(ip_, r, 'Result') != 'Ok':
                    err = True
                    break
                rel += bytes(b.v for b in items(ip_, payload(r, 'Ok')[0]))
                if not sfield(prog, srv, 'data_available').v or n > 16:
                    break
            out.update(relayed=rel.hex(), err=err, flags={k: bool(v.v) for k, v in server_flags(ip_, prog, srv).items()})
        ip.explore(h)
        nst = nat['steps'][0]
        nflags = {k: nat['final'][k] for k in out['flags']}
        if out['relayed'] != nst['relayed'] or out['err'] != (nst['err'] is not None) or out['flags'] != nflags:
            bad += 1
            chk.validation['notes'].append('stream %s: interp %r native %r %r' % (s.hex(), out, nst, nflags))
    chk.validated(len(streams), bad, 'Server::recv loop on %d concrete reply streams: interpreter vs native' % len(streams) if bad else '')


def _dispatch(chk, f, args):
    f(chk, *args)


def main(chk):
    chk.explanation = (
        'Solver-based checking of the relay kernels executed from MIR: messages::read_message over a symbolic stream (code, length '
        'field in small ranges on both sides of the 4-byte boundary, body contents symbolic, every truncation point); Server::recv (the '
        'real coroutine incl. read_message) over reply streams of k messages with symbolic codes and bodies, from arbitrary connection '
        'flags and buffer fill levels on both sides of the 8196-byte flush threshold, alone and driven in the client loop until '
        '!data_available; Server::send with write faults at any point. Every path is compared with a reference written from the '
        'protocol documentation; counterexamples are replayed against the compiled Server over a loopback socket.  Outside the client loop: a health check that timed out '
        '(its reply still to come) takes its connection out of the pool (ConnectionPool::get from MIR) -- otherwise every later reply on it is relayed one request late.')
    chk.assumptions += [
        'Tokio read_u8/read_i32/read_exact/write_all/flush contracts (all-or-error, in order); TCP segmentation and BufStream internals trusted',
        'server sends well-formed messages (ReadyForQuery has a status byte); ParameterStatus handling is C12',
        'declared lengths above the shape bound (allocation of up to 2 GiB) and negative server-sent lengths are outside the claim',
        'extended-protocol batch assembly, COPY sub-loop and the client socket write in Client::handle are outside the claim',
    ]
    prog = chk.program('on')
    validate_translation(chk, prog)
    T = chk.thorough
    tasks = []
    K = 3 if not T else 6
    for avail in range(0, K + 2):
        tasks.append((o1_framing, (prog, 4, 4 + K, avail)))
    tasks.append((o1_framing, (prog, 0, 3, 2)))
    tasks.append((o1_framing, (prog, 0, 3, 0)))
    shapes2 = list(itertools.product((0, 1, 4), repeat=2))
    for sh in shapes2:
        tasks.append((o2_recv, (prog, sh, 0, False)))
    for sh in ([(1, 1, 1), (0, 4, 1), (1, 0, 1)] if not T else list(itertools.product((0, 1, 4), repeat=3))):
        tasks.append((o2_recv, (prog, sh, 0, True, {})))
    # flush threshold: a DataRow / CopyData of total size 5+bl lands exactly on / around 8196
    for bl in (1, 4):
        for delta in (-1, 0, 1):
            tasks.append((o2_recv, (prog, (bl, 1), FLUSH_LIMIT - (5 + bl) + delta, True, {'data_available': False})))
    tasks.append((o2_recv, (prog, (8, 1), 0, True, {'in_transaction': True})))
    for n in (1, 3) + ((6,) if chk.thorough else ()):
        tasks.append((o2_recv_error, (prog, n)))
    if T:
        tasks.append((o2_recv, (prog, (1, 1, 1, 1), 0, True, {})))
        tasks.append((o2_recv, (prog, (4, 4, 1), FLUSH_LIMIT - 9, True, {})))
    for n in (0, 1, 5) + ((16,) if T else ()):
        tasks.append((o3_send, (prog, n)))
    tasks.sort(key=lambda t: -(len(t[1][1]) if t[0] is o2_recv else 0))
    chk.parallel(_dispatch, tasks)
    # outside the client loop: a health check whose reply is still to come (it timed out) must take its connection out of the pool, or every later
    # reply on that connection is relayed one request late (ConnectionPool::get / run_health_check from MIR, instantiated for this property)
    import checks.c07 as c07
    for roles in ((1,), (0, 1)):
        c07.o3_get(chk, prog, roles, [], only={'failed-healthcheck-not-bad'}, props=('C03',))

    hobl.handle_obligations(chk, prog, {'C03'}, ['simple', 'session', 'extended', 'named', 'malformed', 'cuts', 'plugins', 'two-backends', 'pause', 'copy', 'commands', 'two-clients', 'timeouts', 'drops', 'checkout-failures'])

if __name__ == '__main__':
    run_check('C03', main)
