#!/usr/bin/env python3-vt
"""C08 -- prepared-statement caching is invisible to clients (codecs, cache keys, caches)."""
import os, sys, itertools
sys.path.insert(0, os.path.dirname(os.path.dirname(os.path.abspath(__file__))))
import z3
from harness.common import run_check, expectation
from harness.pgcat_state import *
from harness import wire
from mirsym.interp import Panic, Inconclusive
from mirsym.values import *
from mirsym.models.util import items, deref, conj, val_eq, variant, payload
from native import oracle
from checks import hobl


def sym_bytes(ip, n, hint, nonzero=True):
    out = []
    for i in range(n):
        b = ip.fresh(8, '%s%d' % (hint, i))
        if getattr(ip, 'lossy_invalid', False):
            # text in another client_encoding: besides ASCII, bytes that are never valid UTF-8
            ip.assume(z3.And(b.v != 0, z3.Or(z3.ULT(b.v, 128), b.v == 0xC0, b.v == 0xC1, z3.UGE(b.v, 0xF5))))
        else:
            ip.assume(z3.And(b.v != 0, z3.ULT(b.v, 128)) if nonzero else z3.ULT(b.v, 128))
        out.append(b)
    return out


def bytes_eq(a, b):
    if len(a) != len(b):
        return z3.BoolVal(False)
    cs = [x.z() == y.z() for x, y in zip(a, b)]
    return z3.And(*cs) if cs else z3.BoolVal(True)


def result_variant(ip, r):
    return variant(ip, r, 'Result')


def mstr(m, bs):
    return bytes(m.eval(b.z(), True).as_long() for b in bs).decode('latin1')


@expectation('c08_hex_differs')
def expect_hex_differs(want_hex):
    def f(res):
        r = res[0]
        if 'panic' in r:
            return True, 'native panic: ' + r['panic']
        got = r.get('hex')
        return (got != want_hex, 'native output %r, wire-format reference %r (%s)' % (got, want_hex, {k: v for k, v in r.items() if k != 'hex'}))
    return f


@expectation('c08_hash_collision')
def expect_hash_collision():
    def f(res):
        r = res[0]
        if 'panic' in r:
            return True, 'native panic: ' + r['panic']
        return (r['ha'] == r['hb'] and not r['same_statement'],
                'get_hash: %s vs %s, same statement: %s' % (r['ha'], r['hb'], r['same_statement']))
    return f


# ------------------------------------------------------------------------------------------------ O1 codecs
def o1_parse(chk, prog, nl, ql, nt, newl, nonutf8=False):
    name = 'O1-parse-n%d-q%d-t%d-new%d%s' % (nl, ql, nt, newl, '-nonutf8' if nonutf8 else '')
    ob = chk.begin(name, 'Parse decode -> rename -> encode: output = original with only the statement name and length field changed '
                   '(name %d bytes, query %d bytes, %d parameter types, new name %d bytes; contents symbolic%s)' % (nl, ql, nt, newl,
                   ', the QUERY TEXT may contain bytes that are not UTF-8 -- text in another client_encoding' if nonutf8 else ''),
                   {'name_len': nl, 'query_len': ql, 'param_types': nt, 'new_name_len': newl, 'non_utf8_text': nonutf8})
    dec = [f for f in prog.lookup('<Parse as TryFrom<&BytesMut>>::try_from')]
    enc = [f for f in prog.lookup('<BytesMut as TryFrom<Parse>>::try_from')]
    getn = prog.lookup('Parse::get_name')
    if len(dec) != 1 or len(enc) != 1 or len(getn) != 1:
        raise Inconclusive("cannot locate Parse codecs")
    ip = chk.interp(prog, name)

    def harness(ip_):
        ip_.lossy_invalid = False
        nm = sym_bytes(ip_, nl, 'name')
        ip_.lossy_invalid = nonutf8
        q = sym_bytes(ip_, ql, 'query')
        ip_.lossy_invalid = False
        tys = [ip_.fresh(32, 'ty%d' % i) for i in range(nt)]
        new = sym_bytes(ip_, newl, 'new')
        ip_.lossy_invalid = nonutf8
        msg = wire.parse_msg(nm, q, tys)
        want = wire.parse_msg(new, q, tys)

        def rep(m, key, what):
            hx = wire.to_hex(m, msg)
            chk.report(ob, key, what, {'message_hex': hx, 'new_name': mstr(m, new)},
                       {'commands': [{'op': 'parse_roundtrip', 'hex': hx, 'new_name': mstr(m, new)}],
                        'expect': ['c08_hex_differs', wire.to_hex(m, want)]})
        buf = Ptr(Cell(Seq(msg, 'bytesmut'), 'msg'))
        try:
            gn = ip_.call_function(getn[0], [buf])
            r = ip_.call_function(dec[0], [buf])
            if result_variant(ip_, r) != 'Ok' or result_variant(ip_, gn) != 'Ok':
                rep(ip_.model_for(), 'C08/O1/parse/decode-error', 'well-formed Parse is rejected by the decoder')
                return
            p = payload(r, 'Ok')[0]
            m = ip_.model_for(z3.Not(bytes_eq(items(ip_, payload(gn, 'Ok')[0]), nm)))
            if m is not None:
                rep(m, 'C08/O1/parse/get_name', 'Parse::get_name does not return the statement name')
            setf(prog, p, 'Parse', 'name', Seq(list(new), 'string'))
            e = ip_.call_function(enc[0], [p])
        except Panic as pn:
            rep(ip_.model_for(), 'C08/O1/parse/panic', 'Parse codec panics on a well-formed message: ' + pn.msg)
            return
        ob.nontrivial += 1
        if result_variant(ip_, e) != 'Ok':
            rep(ip_.model_for(), 'C08/O1/parse/encode-error', 'renamed Parse cannot be re-encoded')
            return
        out = items(ip_, payload(e, 'Ok')[0])
        m = ip_.model_for(z3.Not(bytes_eq(out, want)))
        if m is not None:
            key, what = 'C08/O1/parse/roundtrip', 'rewritten Parse differs from the original in more than name and length'
            if nonutf8:
                # is the ONLY difference that bytes of the query text which are not UTF-8 were replaced by U+FFFD (lossy decoding)?
                lq = []
                for b in q:
                    lq += [b] if decide(ip_, z3.ULT(b.z(), 128)) else [BV(8, 0xEF), BV(8, 0xBF), BV(8, 0xBD)]
                if len(lq) != len(q) and ip_.model_for(z3.Not(bytes_eq(out, wire.parse_msg(new, lq, tys)))) is None:
                    key += '/non-utf8-text-replaced'
                    what = ('the query text of a cached Parse is re-encoded from its lossy UTF-8 decoding: bytes that are not UTF-8 (text in another '
                            'client_encoding) reach the server as U+FFFD -- the rewritten Parse differs from the original in more than name and length')
            rep(m, key, what)
        if not ob.samples:
            m2 = ip_.model_for()
            ob.samples.append({'message_hex': wire.to_hex(m2, msg), 'rewritten_hex': wire.to_hex(m2, want)})
    ip.explore(harness)
    chk.absorb(ob, ip)
    chk.end(ob)


def o1_bind(chk, prog, pl, sl, nf, plens, nr, newl):
    name = 'O1-bind-p%d-s%d-f%d-v%s-r%d-new%d' % (pl, sl, nf, '_'.join(map(str, plens)) or 'none', nr, newl)
    ob = chk.begin(name, 'Bind::rename / Bind::get_name: output = original with only the statement name and length field changed '
                   '(portal %d, statement %d bytes, %d format codes, parameter lengths %r, %d result codes; contents symbolic)'
                   % (pl, sl, nf, plens, nr), {'portal_len': pl, 'stmt_len': sl, 'formats': nf, 'param_lens': list(plens), 'result_formats': nr})
    ren = prog.lookup('Bind::rename')
    getn = prog.lookup('Bind::get_name')
    if len(ren) != 1 or len(getn) != 1:
        raise Inconclusive("cannot locate Bind::rename/get_name")
    ip = chk.interp(prog, name)

    def harness(ip_):
        portal = sym_bytes(ip_, pl, 'portal')
        st = sym_bytes(ip_, sl, 'stmt')
        fm = [ip_.fresh(16, 'fmt%d' % i) for i in range(nf)]
        params = [(ln, sym_bytes(ip_, max(ln, 0), 'pv%d_' % i, nonzero=False)) for i, ln in enumerate(plens)]
        rf = [ip_.fresh(16, 'rfmt%d' % i) for i in range(nr)]
        new = sym_bytes(ip_, newl, 'new')
        msg = wire.bind_msg(portal, st, fm, params, rf)
        want = wire.bind_msg(portal, new, fm, params, rf)

        def rep(m, key, what):
            hx = wire.to_hex(m, msg)
            chk.report(ob, key, what, {'message_hex': hx, 'new_name': mstr(m, new)},
                       {'commands': [{'op': 'bind_rename', 'hex': hx, 'new_name': mstr(m, new)}],
                        'expect': ['c08_hex_differs', wire.to_hex(m, want)]})
        try:
            gn = ip_.call_function(getn[0], [Ptr(Cell(Seq(list(msg), 'bytesmut'), 'msg'))])
            r = ip_.call_function(ren[0], [Seq(list(msg), 'bytesmut'), Ptr(Cell(Seq(list(new), 'str'), 'new'))])
        except Panic as pn:
            rep(ip_.model_for(), 'C08/O1/bind/panic', 'Bind::rename panics on a well-formed message: ' + pn.msg)
            return
        ob.nontrivial += 1
        if result_variant(ip_, r) != 'Ok' or result_variant(ip_, gn) != 'Ok':
            rep(ip_.model_for(), 'C08/O1/bind/error', 'well-formed Bind is rejected')
            return
        m = ip_.model_for(z3.Not(bytes_eq(items(ip_, payload(gn, 'Ok')[0]), st)))
        if m is not None:
            rep(m, 'C08/O1/bind/get_name', 'Bind::get_name does not return the statement name')
        out = items(ip_, payload(r, 'Ok')[0])
        m = ip_.model_for(z3.Not(bytes_eq(out, want)))
        if m is not None:
            rep(m, 'C08/O1/bind/rename', 'renamed Bind differs from the original in more than name and length')
        if not ob.samples:
            m2 = ip_.model_for()
            ob.samples.append({'message_hex': wire.to_hex(m2, msg), 'renamed_hex': wire.to_hex(m2, want)})
    ip.explore(harness)
    chk.absorb(ob, ip)
    chk.end(ob)


def o1_describe_close(chk, prog, kind, nl, newl):
    name = 'O1-%s-n%d-new%d' % (kind, nl, newl)
    ob = chk.begin(name, '%s decode -> (rename) -> encode: only name and length change (name %d bytes, new name %d; target symbolic)'
                   % (kind, nl, newl), {'name_len': nl, 'new_name_len': newl})
    T = 'Describe' if kind == 'describe' else 'Close'
    dec = prog.lookup('<%s as TryFrom<&BytesMut>>::try_from' % T)
    enc = prog.lookup('<BytesMut as TryFrom<%s>>::try_from' % T)
    if len(dec) != 1 or len(enc) != 1:
        raise Inconclusive("cannot locate %s codecs" % T)
    ip = chk.interp(prog, name)

    def harness(ip_):
        tgt = ip_.fresh(8, 'target')
        ip_.assume(z3.Or(tgt.v == ord('S'), tgt.v == ord('P')))
        nm = sym_bytes(ip_, nl, 'name')
        new = sym_bytes(ip_, newl, 'new') if kind == 'describe' else nm
        mk = wire.describe_msg if kind == 'describe' else wire.close_msg
        msg = mk(tgt, nm)
        want = mk(tgt, new)

        def rep(m, key, what):
            hx = wire.to_hex(m, msg)
            cmd = {'op': kind + '_roundtrip', 'hex': hx}
            if kind == 'describe':
                cmd['new_name'] = mstr(m, new)
            chk.report(ob, key, what, {'message_hex': hx}, {'commands': [cmd], 'expect': ['c08_hex_differs', wire.to_hex(m, want)]})
        try:
            r = ip_.call_function(dec[0], [Ptr(Cell(Seq(msg, 'bytesmut'), 'msg'))])
            if result_variant(ip_, r) != 'Ok':
                rep(ip_.model_for(), 'C08/O1/%s/decode-error' % kind, 'well-formed %s is rejected' % T)
                return
            d = payload(r, 'Ok')[0]
            fname = 'statement_name' if kind == 'describe' else 'name'
            m = ip_.model_for(z3.Not(bytes_eq(items(ip_, getf(prog, d, T, fname)), nm)))
            if m is not None:
                rep(m, 'C08/O1/%s/name' % kind, '%s decoder returns a wrong name' % T)
            if kind == 'describe':
                setf(prog, d, T, fname, Seq(list(new), 'string'))
            e = ip_.call_function(enc[0], [d])
        except Panic as pn:
            rep(ip_.model_for(), 'C08/O1/%s/panic' % kind, '%s codec panics on a well-formed message: %s' % (T, pn.msg))
            return
        ob.nontrivial += 1
        if result_variant(ip_, e) != 'Ok':
            rep(ip_.model_for(), 'C08/O1/%s/encode-error' % kind, '%s cannot be re-encoded' % T)
            return
        out = items(ip_, payload(e, 'Ok')[0])
        m = ip_.model_for(z3.Not(bytes_eq(out, want)))
        if m is not None:
            rep(m, 'C08/O1/%s/roundtrip' % kind, 're-encoded %s differs in more than name and length' % T)
        if not ob.samples:
            ob.samples.append({'message_hex': wire.to_hex(ip_.model_for(), msg)})
    ip.explore(harness)
    chk.absorb(ob, ip)
    chk.end(ob)


# ------------------------------------------------------------------------------------------------ O2 cache key
def o2_hash(chk, prog, qa, ta, qb, tb, malformed=False, report_as='C08'):
    name = 'O2-hash-q%dt%d-vs-q%dt%d%s' % (qa, ta, qb, tb, '-malformed' if malformed else '')
    ob = chk.begin(name, 'Parse::get_hash keys are injective up to the hasher: two statements (query %d bytes / %d types vs %d / %d, '
                   'contents symbolic, type oids 0..9999%s) with equal hasher input are the same statement' % (qa, ta, qb, tb,
                   '; the parameter COUNT field of each is an arbitrary non-positive i16 -- what a hostile client can make Parse::try_from accept with no types following' if malformed else ''),
                   {'a': [qa, ta], 'b': [qb, tb], 'type_oid_range': '0..9999', 'malformed_count_field': malformed})
    gh = prog.lookup('Parse::get_hash')
    dec = prog.lookup('<Parse as TryFrom<&BytesMut>>::try_from')
    if len(gh) != 1 or len(dec) != 1:
        raise Inconclusive("cannot locate Parse::get_hash")
    ip = chk.interp(prog, name)

    def harness(ip_):
        sides = []
        for tag, ql, nt in (('a', qa, ta), ('b', qb, tb)):
            q = sym_bytes(ip_, ql, 'q' + tag)
            tys = [ip_.fresh(32, 'ty%s%d' % (tag, i)) for i in range(nt)]
            for t in tys:
                ip_.assume(z3.ULE(t.v, 9999))
            msg = wire.parse_msg([], q, tys)
            np = None
            if malformed:
                # the count field (after the empty name and the query) is whatever the client likes, as long as the decoder accepts the
                # message: zero or negative with no types following
                off = 5 + 1 + len(q) + 1
                np = ip_.fresh(16, 'np' + tag)
                ip_.assume(z3.Or(np.v == 0, z3.UGE(np.v, 0x8000)))
                msg = msg[:off] + [bv(8, z3.Extract(15, 8, np.v)), bv(8, z3.Extract(7, 0, np.v))] + msg[off + 2:]
            r = ip_.call_function(dec[0], [Ptr(Cell(Seq(msg, 'bytesmut'), 'msg'))])
            if result_variant(ip_, r) != 'Ok':
                return
            p = payload(r, 'Ok')[0]
            ip_.env['hash_inputs'] = []
            h = ip_.call_function(gh[0], [Ptr(Cell(p, 'parse'))])
            inp = ip_.env['hash_inputs'][-1]
            sides.append((q, tys, msg, inp, h, np))
        ob.nontrivial += 1
        (q1, t1, m1, i1, h1, np1), (q2, t2, m2, i2, h2, np2) = sides
        if len(i1) != len(i2):
            return          # different hasher input lengths: distinct inputs (hash collisions of SipHash are outside the claim)
        same_stmt = z3.And(bytes_eq(q1, q2), z3.BoolVal(len(t1) == len(t2)),
                           *[x.z() == y.z() for x, y in zip(t1, t2)]) if len(t1) == len(t2) else z3.BoolVal(False)
        if malformed:
            same_stmt = z3.And(same_stmt, np1.v == np2.v)
        m = ip_.model_for(z3.And(bytes_eq(i1, i2), z3.Not(same_stmt)))
        if m is not None:
            a_hex, b_hex = wire.to_hex(m, m1), wire.to_hex(m, m2)
            chk.report(ob, '%s/O2/hash-key-collision%s' % (report_as, '/malformed-count' if malformed else ''),
                       ('two different statements share a pool cache key (hence a server-side statement): query %r types %r vs query %r types %r'
                        if not malformed else 'a Parse with a malformed parameter count shares the key of the pool-wide statement cache with a different (valid) statement: whoever '
                        'registers first decides what every other client of the pool gets for that key: query %r types %r vs query %r types %r')
                       % (mstr(m, q1), [m.eval(t.z(), True).as_long() for t in t1], mstr(m, q2), [m.eval(t.z(), True).as_long() for t in t2]),
                       {'a_hex': a_hex, 'b_hex': b_hex},
                       {'commands': [{'op': 'parse_hash', 'a': a_hex, 'b': b_hex}], 'expect': ['c08_hash_collision']})
        if not ob.samples:
            mm = ip_.model_for()
            ob.samples.append({'a': wire.to_hex(mm, m1), 'b': wire.to_hex(mm, m2), 'hasher_input_len': len(i1)})
    ip.explore(harness)
    chk.absorb(ob, ip)
    chk.end(ob)


# ------------------------------------------------------------------------------------------------ O3 server-side LRU
from checks.serverfam import (decide, fn, install_stats_noops, mk_server, lru, sfield, StreamV, Msg, flag_val, some as _some, none as _none,
                              rstring, server_flags)
from checks.c03 import srv_expect     # registers 'srv_expect'

NAMES = ['s1', 's2', 's3']


class RefCache:
    """Reference LRU of statement names believed to exist on one server connection (least recent first)."""

    def __init__(self, cap, names):
        self.cap, self.names = cap, list(names)

    def has(self, n):
        if n in self.names:
            self.names.remove(n)
            self.names.append(n)      # using a statement makes it the most recently used
            return True
        return False

    def add(self, n):
        """returns the evicted name or None"""
        if n in self.names:
            self.names.remove(n)
            self.names.append(n)
            return None
        ev = None
        if len(self.names) >= self.cap:
            ev = self.names.pop(0)
        self.names.append(n)
        return ev

    def remove(self, n):
        if n in self.names:
            self.names.remove(n)


def parse_bytes(name, query=b'SELECT 1'):
    import struct
    body = name.encode() + b'\0' + query + b'\0' + struct.pack('>h', 0)
    return b'P' + struct.pack('>i', len(body) + 4) + body


def close_bytes(name):
    import struct
    body = b'S' + name.encode() + b'\0'
    return b'C' + struct.pack('>i', len(body) + 4) + body


SYNC = b'S\x00\x00\x00\x04'
ERR_BODY = b'SERROR\0C42601\0Msyntax error\0\0'


def cache_names(ip, prog, srv):
    c = sfield(prog, srv, 'prepared_statement_cache')
    m = c.variants['Some'][0]
    return [bytes(b.v for b in k.items).decode() for k, _ in m.entries]


def queue_names(ip, prog, srv):
    return [bytes(b.v for b in x.items).decode() for x in sfield(prog, srv, 'registering_prepared_statement').items]


def o3_register(chk, prog, cap, pre_names, pre_steps):
    """pre_steps: list of names first checked with has_prepared_statement (as earlier Binds of the same batch do)."""
    name = 'O3-register-cap%d-[%s]-after-has[%s]' % (cap, ','.join(pre_names), ','.join(pre_steps))
    ob = chk.begin(name, 'Server::register_prepared_statement on a connection whose statement cache (capacity %d) holds %r, after '
                   'has_prepared_statement(%r): statement name (s1|s2|s3), should_send and the server answer (ParseComplete | '
                   'ErrorResponse) chosen by the solver: bytes sent = [Parse][Close(evicted)]Sync as required, the least recently USED '
                   'statement is the one evicted, a failed Parse is not remembered' % (cap, pre_names, pre_steps),
                   {'capacity': cap, 'cache': list(pre_names), 'used_before': list(pre_steps)})
    reg = fn(prog, 'Server::register_prepared_statement')
    has = fn(prog, 'Server::has_prepared_statement')
    dec = prog.lookup('<Parse as TryFrom<&BytesMut>>::try_from')[0]
    ip = chk.interp(prog, name)
    install_stats_noops(ip)

    def harness(ip_):
        which = ip_.choose(3, 'name')
        send = bool(ip_.choose(2, 'send'))
        answer_ok = bool(ip_.choose(2, 'answer'))
        nm = NAMES[which]
        ref = RefCache(cap, pre_names)
        for h in pre_steps:
            ref.has(h)
        # reference outcome
        written = b''
        present = ref.has(nm)
        evicted = None
        want_err = False
        if not present:
            if send:
                written += parse_bytes(nm)
            evicted = ref.add(nm)
            if evicted is not None:
                written += close_bytes(evicted)
            if written:
                written += SYNC
            if send and not answer_ok:
                ref.remove(nm)
                want_err = True
        # scripted server answers for what the reference says is sent
        reply = b''
        if not present and written:
            if send:
                reply += (b'1\x00\x00\x00\x04' if answer_ok else b'E' + (len(ERR_BODY) + 4).to_bytes(4, 'big') + ERR_BODY)
            if evicted is not None and (answer_ok or not send):
                reply += b'3\x00\x00\x00\x04'
            reply += b'Z\x00\x00\x00\x05I'
        st = StreamV([BV(8, b) for b in reply], 'server')
        srv = mk_server(ip_, prog, st, prepared_statement_cache=_some(ip_, lru(pre_names, cap)))
        sp = Ptr(Cell(srv, 'server'))
        pr = ip_.call_function(dec, [Ptr(Cell(Seq([BV(8, b) for b in parse_bytes(nm)], 'bytesmut'), 'pm'))])
        parse = payload(pr, 'Ok')[0]
        steps = [{'do': 'has_ps', 'name': h} for h in pre_steps] + [{'do': 'register_ps', 'parse_hex': parse_bytes(nm).hex(), 'send': send}]
        try:
            for h in pre_steps:
                ip_.call_function(has, [sp, Ptr(Cell(Seq([BV(8, b) for b in h.encode()], 'str'), 'n'))])
            r = ip_.drive(ip_.call_function(reg, [sp, Ptr(Cell(parse, 'parse')), BV(1, int(send))]))
        except Panic as p:
            raise Inconclusive('register_prepared_statement panic: ' + p.msg)
        ob.nontrivial += 1
        res = variant(ip_, r, 'Result')
        got_written = bytes(b.v for b in st.out)
        got_cache = cache_names(ip_, prog, srv)
        problems = []
        if got_written != written:
            problems.append(('bytes-sent', 'bytes sent to the server %r, required %r' % (got_written, written)))
        if (res == 'Err') != want_err:
            problems.append(('result', 'returns %s, required %s' % (res, 'Err' if want_err else 'Ok')))
        if sorted(got_cache) != sorted(ref.names):
            problems.append(('cache-contents', 'statements believed to be on the server %r, required %r' % (sorted(got_cache), sorted(ref.names))))
        elif got_cache != ref.names:
            problems.append(('cache-recency', 'recency order %r, required %r' % (got_cache, ref.names)))
        for k, what in problems:
            chk.report(ob, 'C08/O3/register/' + k, 'register_prepared_statement(%s, send=%s, server %s) with cache %r (capacity %d) after using %r: %s'
                       % (nm, send, 'accepts' if answer_ok else 'rejects', pre_names, cap, pre_steps, what),
                       {'cache': list(pre_names), 'capacity': cap, 'used_before': list(pre_steps), 'name': nm, 'send': send, 'server_accepts': answer_ok},
                       {'commands': [{'op': 'server_script', 'pre': {'ps_cache': {'cap': cap, 'names': list(pre_names)}},
                                      'inbound_hex': reply.hex(), 'steps': steps}],
                        'expect': ['srv_expect', {'steps': [{}] * len(pre_steps) + [{'err': want_err}], 'written_hex': written.hex(),
                                                  'final': {'ps_cache': list(reversed(ref.names))}}]})
        if len(ob.samples) < 3:
            ob.samples.append({'name': nm, 'send': send, 'server_accepts': answer_ok, 'sent': got_written.hex(), 'cache_after': got_cache})
    ip.explore(harness)
    chk.absorb(ob, ip)
    chk.end(ob)


def o3_replies(chk, prog, queue, codes):
    name = 'O3-replies-queue[%s]-%s' % (','.join(queue), ''.join(codes))
    ob = chk.begin(name, 'Server::recv with statements %r awaiting their ParseComplete and the reply %s+Z: each ParseComplete retires the '
                   'OLDEST pending statement, an ErrorResponse retires AND forgets every statement still pending (the failed one and those the server skips until Sync)' % (queue, ''.join(codes)),
                   {'pending': list(queue), 'reply': list(codes)})
    recv = fn(prog, 'Server::recv')
    ip = chk.interp(prog, name)
    install_stats_noops(ip)

    def harness(ip_):
        reply = b''
        refq = list(queue)
        refc = RefCache(4, queue)
        for c in codes:
            if c == '1':
                reply += b'1\x00\x00\x00\x04'
                if refq:
                    refq.pop(0)
            elif c == 'E':
                reply += b'E' + (len(ERR_BODY) + 4).to_bytes(4, 'big') + ERR_BODY
                # replies come in the order of the requests and after an error the server skips everything up to Sync: every statement still
                # pending is either the one that failed or one the server will never look at -- none of them exists on the server
                while refq:
                    refc.remove(refq.pop(0))
            else:
                reply += b'2\x00\x00\x00\x04'
        reply += b'Z\x00\x00\x00\x05I'
        st = StreamV([BV(8, b) for b in reply], 'server')
        srv = mk_server(ip_, prog, st, prepared_statement_cache=_some(ip_, lru(queue, 4)),
                        registering_prepared_statement=Seq([rstring(q) for q in queue], 'vecdeque'))
        try:
            ip_.drive(ip_.call_function(recv, [Ptr(Cell(srv, 'server')), _none(ip_)]))
        except Panic as p:
            raise Inconclusive('recv panic: ' + p.msg)
        ob.nontrivial += 1
        gq, gc = queue_names(ip_, prog, srv), cache_names(ip_, prog, srv)
        if gq != refq or sorted(gc) != sorted(refc.names):
            chk.report(ob, 'C08/O3/replies/%s' % ''.join(codes),
                       'after the reply %s with %r pending: pending %r (required %r), remembered %r (required %r)'
                       % (''.join(codes), queue, gq, refq, sorted(gc), sorted(refc.names)), {'pending': list(queue), 'reply': ''.join(codes)},
                       {'commands': [{'op': 'server_script', 'pre': {'ps_cache': {'cap': 4, 'names': list(queue)}, 'registering': list(queue)},
                                      'inbound_hex': reply.hex(), 'steps': [{'do': 'recv'}]}],
                        'expect': ['c08_replies', refq, sorted(refc.names)]})
        if not ob.samples:
            ob.samples.append({'pending_after': gq, 'remembered_after': gc})
    ip.explore(harness)
    chk.absorb(ob, ip)
    chk.end(ob)


@expectation('c08_replies')
def c08_replies(refq, refnames):
    def f(res):
        r = res[0]
        if 'panic' in r:
            return True, 'native panic: ' + r['panic']
        gq, gc = r['final']['registering'], sorted(r['final']['ps_cache'] or [])
        return (gq != refq or gc != refnames, 'native pending %r remembered %r; required %r / %r' % (gq, gc, refq, refnames))
    return f


def validate_translation(chk, prog):
    """The repo's own Bind vector (test_prepared_statements) and hand-made messages: interpreter vs native."""
    import struct
    def P(name, q, tys):
        body = name + b'\0' + q + b'\0' + struct.pack('>h', len(tys)) + b''.join(struct.pack('>i', t) for t in tys)
        return b'P' + struct.pack('>i', len(body) + 4) + body
    cases = [P(b'', b'SELECT 1', []), P(b's1', b'SELECT $1', [23]), P(b'abc', b'', [0, 1043])]
    native = oracle.run([{'op': 'parse_roundtrip', 'hex': c.hex(), 'new_name': 'PGCAT_7'} for c in cases])
    dec = prog.lookup('<Parse as TryFrom<&BytesMut>>::try_from')[0]
    enc = prog.lookup('<BytesMut as TryFrom<Parse>>::try_from')[0]
    bad = 0
    for c, nat in zip(cases, native):
        ip = chk.interp(prog, 'validate')
        out = {}

        def h(ip_):
            r = ip_.call_function(dec, [Ptr(Cell(Seq([BV(8, b) for b in c], 'bytesmut'), 'm'))])
            p = payload(r, 'Ok')[0]
            setf(prog, p, 'Parse', 'name', Seq([BV(8, b) for b in b'PGCAT_7'], 'string'))
            e = ip_.call_function(enc, [p])
            out['hex'] = bytes(b.v for b in items(ip_, payload(e, 'Ok')[0])).hex()
        ip.explore(h)
        if out.get('hex') != nat.get('hex'):
            bad += 1
            chk.validation['notes'].append('parse %s: interp %r native %r' % (c.hex(), out.get('hex'), nat))
    chk.validated(len(cases), bad, 'Parse codec on %d concrete messages: interpreter vs native' % len(cases) if bad else '')


def _dispatch(chk, fn, args):
    fn(chk, *args)


def main(chk):
    chk.explanation = (
        'Solver-based checking of the prepared-statement codecs and cache keys executed from MIR: for every well-formed '
        'Parse/Bind/Describe/Close message within the shape bounds (all byte contents, oids and format codes symbolic) the re-encoded '
        'message equals the original except for statement name and length field (wire formats transcribed from the protocol docs); '
        'Parse::get_hash is checked for injectivity of its hasher input (two symbolic statements with equal hasher input must be the '
        'same statement). Counterexamples are replayed through the compiled codecs.')
    chk.explanation += (' At check-in the connection\'s cache is emptied exactly when DEALLOCATE ALL is sent (checkin_cleanup from MIR); a connection is started with the configured cache capacity (connect hook from MIR).')
    chk.assumptions += [
        'names are ASCII without NUL; query text is ASCII, or (one obligation) ASCII plus bytes that can never occur in UTF-8 (0xC0, 0xC1, 0xF5..0xFF); valid multi-byte sequences are not exercised',
        'SipHash collisions on distinct inputs are outside the claim; only collisions of the hasher INPUT are searched',
        'ordering of synthesised replies, ensure_prepared_statement_is_on_server call sites and cross-client races live in Client::handle: outside',
    ]
    prog = chk.program('on')
    validate_translation(chk, prog)
    T = chk.thorough
    tasks = []
    for nl, ql, nt in itertools.product((0, 1, 2), (0, 1, 2) if not T else (0, 1, 2, 4), (0, 1, 2)):
        tasks.append((o1_parse, (prog, nl, ql, nt, 2 if not T else 3)))
    # ... and with query text in another client_encoding (bytes that are not UTF-8)
    tasks.append((o1_parse, (prog, 1, 3, 0, 2, True)))
    bind_shapes = [(0, 0, 0, (), 0), (0, 1, 1, (1,), 1), (1, 2, 0, (-1,), 0), (0, 2, 2, (2, 0), 1), (1, 1, 1, (-1, 2), 0), (0, 0, 1, (0,), 2)]
    if T:
        bind_shapes += [(2, 3, 2, (4, -1, 1), 2), (0, 1, 0, (8,), 0)]
    for sh in bind_shapes:
        tasks.append((o1_bind, (prog,) + sh + (2,)))
    for nl in (0, 1, 2):
        tasks.append((o1_describe_close, (prog, 'describe', nl, 2)))
        tasks.append((o1_describe_close, (prog, 'close', nl, 0)))
    qmax = 2 if not T else 3
    for qa, ta, qb, tb in itertools.product(range(0, qmax + 1), (0, 1, 2), range(0, qmax + 1), (0, 1, 2)):
        if (qa, ta) <= (qb, tb):
            tasks.append((o2_hash, (prog, qa, ta, qb, tb)))
    for cap, pre in ((1, []), (1, ['s1']), (2, []), (2, ['s1']), (2, ['s1', 's2']), (2, ['s2', 's1'])):
        tasks.append((o3_register, (prog, cap, pre, [])))
    tasks.append((o3_register, (prog, 2, ['s1', 's2'], ['s1'])))
    tasks.append((o3_register, (prog, 2, ['s1', 's2'], ['s2', 's1'])))
    for q, codes in ((['s1'], ['1']), (['s1'], ['E']), (['s1', 's2'], ['1', 'E']), (['s1', 's2'], ['E', '1']), (['s1', 's2'], ['1', '1']),
                     (['s1', 's2'], ['2', 'E']), ([], ['1']), (['s1', 's2', 's3'], ['1', 'E', '1'])):
        tasks.append((o3_replies, (prog, q, codes)))
    chk.parallel(_dispatch, tasks)

    # whole sessions with statement caching on (Client::handle executed): every Execute runs the text the client prepared under that name,
    # a valid program never sees 'prepared statement does not exist'
    # the connection's statement cache is emptied exactly when the server is told to drop its statements (checkin_cleanup from MIR; the C02 obligation
    # instantiated for this property)
    import checks.c02 as c02mod
    for nrep in (4, 2):
        c02mod.o1_checkin(chk, chk.program('on'), nrep, True, prop='C08', only=('statement-cache',))
    # the capacity of a connection's statement cache is the configured one (bb8's connect hook from MIR; the C18 obligation instantiated here)
    import checks.c18 as c18mod
    try:
        c18mod.o4_connect(chk, chk.program('on'), props=('C08',))
    except Inconclusive as e:
        chk.note_inconclusive('O4-connect: %s' % e)
    hobl.handle_obligations(chk, chk.program('on'), {'C08'}, ['cache', 'named', 'two-clients'])

if __name__ == '__main__':
    run_check('C08', main)
