"""The accept / signal / drain loop of src/main.rs -- the coroutine `main` hands to `Runtime::block_on` -- executed from the MIR of the
binary target.  Everything it calls in the library is an environment hook here (those functions have obligations of their own); what is
decided is the loop itself: which flag a new client task is started with, when the shutdown broadcast is sent, when the loop exits.

The environment delivers a bounded sequence of EVENTS, one whenever the loop has gone quiet (every select! branch Pending):
SIGINT, SIGTERM, SIGHUP, a client connecting, a connected client's login being counted (+1 on the drain channel), a counted client leaving
(-1), accept() failing, shutdown_timeout passing.  The sequence is the solver's choice (ip.choose), as is the branch select! polls first."""
import re
import z3
from checks.serverfam import *
from mirsym.models.util import ok, err, some, none, unit
from mirsym.models.io import poll_pending, poll_ready
from mirsym.values import Closure
from mirsym.interp import Infeasible

EVENTS = ('int', 'term', 'hup', 'client', 'counted', 'left', 'accept_err', 'timeout')


def scripts(n, thorough):
    """Event sequences of length <= n that make sense: a client is counted after it connected, leaves after it was counted, the timeout passes
    after a SIGINT."""
    out = []

    def rec(seq, pending_login, counted, ints):
        out.append(tuple(seq))
        if len(seq) == n:
            return
        for e in EVENTS:
            if e == 'counted' and pending_login == 0:
                continue
            if e == 'left' and counted == 0:
                continue
            if e == 'timeout' and (ints == 0 or 'timeout' in seq):
                continue
            if e == 'term' and 'term' in seq:
                continue
            if not thorough and e in ('accept_err',) and len(seq) > 1:
                continue
            rec(seq + [e], pending_login + (e == 'client') - (e == 'counted'), counted + (e == 'counted') - (e == 'left'), ints + (e == 'int'))
    rec([], 0, 0, 0)
    return out


def run_script(chk, ob, bprog, script, props, report):
    """One exploration: the loop under `script`; select! polling order is explored."""
    body = bprog.funcs.get('main::{closure#1}')
    if body is None:
        raise Inconclusive('cannot locate the coroutine main() runs')
    name = 'main-loop-' + '-'.join(script)
    ip = chk.interp(bprog, name)
    install_stats_noops(ip)
    base = list(ip.overrides)

    def harness(ip_):
        ip_.overrides[:] = base
        S = {'sig': {'int': 0, 'term': 0, 'hup': 0}, 'accept': [], 'drain': [], 'exit': 0, 'delivered': [], 'spawned': [], 'broadcasts': 0,
             'subs': 0, 'reloads': 0, 'clients': [], 'timer': None, 'elapsed': 0, 'ticks': {}, 'int_handled_at': None, 'sum': 0,
             'zero_after_int': False, 'exit_sent': [], 'periods': []}
        timeout_ms = ip_.fresh(64, 'shutdown_timeout')
        log_conns = ip_.fresh(1, 'log_client_connections')

        # ---- the captured configuration
        gnames = bprog.src.structs['General']
        gvals = {n: Opaque('General.' + n, 'cfg') for n in gnames}
        gvals['enable_prometheus_exporter'] = none(ip_)
        gvals['autoreload'] = none(ip_)
        gvals['host'] = rstring('127.0.0.1')
        gvals['port'] = BV(16, 6432)
        gvals['shutdown_timeout'] = timeout_ms
        gvals['log_client_connections'] = log_conns
        gvals['tls_certificate'] = none(ip_)
        gvals['log_client_disconnections'] = ip_.fresh(1, 'log_client_disconnections')
        general = Agg([gvals[n] for n in gnames], 'General', list(gnames))
        cnames = bprog.src.structs['Config']
        cvals = {n: Opaque('Config.' + n, 'cfg') for n in cnames}
        cvals['general'] = general
        config = Agg([cvals[n] for n in cnames], 'Config', list(cnames))

        def fut(tag, *data):
            return Opaque('HookFuture', tag, data)

        def ready_fut(v):
            return Opaque('HookFuture', 'ready', (v,))

        def spawn(c, f_):
            S['spawned'].append(f_)
            fnn = f_.fn.name if isinstance(f_, Closure) and f_.fn is not None else ''
            span = f_.tag if isinstance(f_, Closure) else ''
            ups = dict(zip(f_.names, f_.upvars)) if isinstance(f_, Closure) else {}
            if 'drain_tx' in ups and 'exit_tx' not in ups:
                # a client task: what it was given at the moment it was spawned
                rec = {'admin_only': ups.get('admin_only'), 'shutdown_rx': ups.get('shutdown_rx'), 'after_int': S['int_handled_at'] is not None,
                       'entry_args': None}
                S['clients'].append(rec)
                S['cur_client'] = rec
                ip_.drive(f_, max_polls=4)
            elif 'exit_tx' in ups:
                S['timer'] = Cell(f_, 'timer_task')
                S['timer_done'] = False
                poll_timer()
            return Opaque('JoinHandle', 'task')

        def poll_timer():
            if S['timer'] is None or S.get('timer_done'):
                return
            r = ip_.poll(Ptr(S['timer'], ()))
            if r.discr.concrete and r.discr.v == 0:
                S['timer_done'] = True

        def entrypoint(c, *a):
            rec = S.get('cur_client')
            if rec is not None:
                rec['entry_args'] = a
            return ready_fut(ok(ip_, unit()))

        def sig(c, kind):
            return ok(ip_, Opaque('Signal', kind.tag if isinstance(kind, Opaque) else str(kind)))

        def sig_recv(c, p):
            s_ = deref(ip_, p) if isinstance(p, Ptr) else p
            return fut('sig', s_.tag)

        def chan_i32(c, cap):
            return Agg([Opaque('Sender', 'drain_tx'), Opaque('Receiver', 'drain_rx')], 'tuple')

        def chan_unit(c, cap):
            return Agg([Opaque('Sender', 'exit_tx'), Opaque('Receiver', 'exit_rx')], 'tuple')

        def bchan(c, cap):
            return Agg([Opaque('BSender', 'shutdown_tx'), Opaque('BReceiver', 'first')], 'tuple')

        def bsend(c, p, v):
            S['broadcasts'] += 1
            S['broadcast_subs'] = S['subs']
            return ok(ip_, BV(64, S['subs']))

        def bsub(c, p):
            S['subs'] += 1
            return Opaque('BReceiver', 'sub%d' % S['subs'])

        def send_i32(c, p, v):
            return fut('send_drain', v)

        def send_unit(c, p, v):
            return fut('send_exit')

        def reload(c, *a):
            S['reloads'] += 1
            return ready_fut(ok(ip_, BV(1, 0)))

        def interval(c, d):
            S['periods'].append(d)
            k = len(S['ticks'])
            S['ticks'][k] = 0
            return Opaque('Interval', 'iv%d' % k)

        def tick(c, p):
            iv = deref(ip_, p) if isinstance(p, Ptr) else p
            return fut('tick', int(iv.tag[2:]))

        def select_start(c, n):
            # the branch select! polls first matters only when more than one of them can complete
            ready = sum(1 for v in S['sig'].values() if v) + bool(S['accept']) + bool(S['exit']) + bool(S['drain'])
            return BV(32, c.ip.choose(6, 'select_start') if ready > 1 else 0)

        ip_.overrides[:0] = [
            (re.compile(r'^tokio::(?:task::)?spawn::<'), spawn),
            (re.compile(r'client_entrypoint(?:::<.*)?$'), entrypoint),
            (re.compile(r'^tokio::signal::unix::signal$'), sig),
            (re.compile(r'SignalKind::(terminate|interrupt|hangup)$'), lambda c: Opaque('SignalKind', {'terminate': 'term', 'interrupt': 'int', 'hangup': 'hup'}[c.callee.rsplit('::', 1)[-1]])),
            (re.compile(r'^(?:tokio::signal::unix::)?Signal::recv$'), sig_recv),
            (re.compile(r'^tokio::sync::mpsc::channel::<i32>$'), chan_i32),
            (re.compile(r'^tokio::sync::mpsc::channel::<\(\)>$'), chan_unit),
            (re.compile(r'^tokio::sync::broadcast::channel::<\(\)>$'), bchan),
            (re.compile(r'^tokio::sync::broadcast::Sender::<\(\)>::send$'), bsend),
            (re.compile(r'^tokio::sync::broadcast::Sender::<\(\)>::subscribe$'), bsub),
            (re.compile(r'^tokio::sync::mpsc::Sender::<i32>::send$'), send_i32),
            (re.compile(r'^tokio::sync::mpsc::Sender::<\(\)>::send$'), send_unit),
            (re.compile(r'^<tokio::sync::mpsc::Sender<.*> as Clone>::clone$'), lambda c, p: deref(ip_, p) if isinstance(p, Ptr) else p),
            (re.compile(r'^tokio::sync::mpsc::Receiver::<i32>::recv$'), lambda c, p: fut('drain')),
            (re.compile(r'^tokio::sync::mpsc::Receiver::<\(\)>::recv$'), lambda c, p: fut('exit')),
            (re.compile(r'^tokio::net::TcpListener::bind::<'), lambda c, a: ready_fut(ok(ip_, Opaque('TcpListener', 'listener')))),
            (re.compile(r'^tokio::net::TcpListener::accept$'), lambda c, p: fut('accept')),
            (re.compile(r'^(?:pgcat::config::)?reload_config$'), reload),
            (re.compile(r'^(?:pgcat::config::)?get_config$'), lambda c: config),
            (re.compile(r'Config::show$'), lambda c, *a: unit()),
            (re.compile(r'^(?:pgcat::messages::)?configure_socket$'), lambda c, *a: unit()),
            (re.compile(r'CachedResolver::from_config$'), lambda c: ready_fut(ok(ip_, unit()))),
            (re.compile(r'ConnectionPool::from_config$'), lambda c, m_: ready_fut(ok(ip_, unit()))),
            (re.compile(r'^ArcSwapAny::<.*>::store$'), lambda c, *a: unit()),
            (re.compile(r'^<Reporter as (?:std::default::)?Default>::default$'), lambda c: Opaque('Reporter', 'r')),
            (re.compile(r'^<Collector as (?:std::default::)?Default>::default$'), lambda c: Opaque('Collector', 'c')),
            (re.compile(r'^(?:tokio::time::)?interval$'), interval),
            (re.compile(r'^(?:tokio::time::)?Interval::tick$'), tick),
            (re.compile(r'^(?:std::time::)?Duration::from_millis$'), lambda c, ms: Opaque('Duration', 'ms', (ms,))),
            (re.compile(r'^chrono::.*::now$|naive_utc$'), lambda c, *a: Opaque('Time', 't')),
            (re.compile(r'^<NaiveDateTime as (?:std::ops::)?Sub>::sub$'), lambda c, a, b: Opaque('Duration', 'session')),
            (re.compile(r'format_duration$'), lambda c, d: rstring('0d 00:00:00.000')),
            (re.compile(r'^std::process::exit$'), lambda c, code: (_ for _ in ()).throw(Panic('process::exit'))),
            (re.compile(r'^tokio::macros::support::thread_rng_n$'), select_start),
            (re.compile(r'^tokio::future::poll_fn::poll_fn::<'), lambda c, f_: Opaque('PollFn', 'pollfn', f_)),
            (re.compile(r'^<tokio::future::poll_fn::PollFn<.*> as (?:futures::|std::future::)?Future>::poll$'),
             lambda c, pin, cx: c.ip.call_value(c.ip.load(pin.fields[0].cell, pin.fields[0].path).data, [cx])),
        ]
        ip_.lazy_hook = lambda ip3, p, c: Ptr(Cell(Opaque('ArcSwap', 'REPORTER'), 'lazy'))
        ip_.env.setdefault('statics', {})['REPORTER'] = Cell(Opaque('Lazy', 'REPORTER'), 'static:REPORTER')

        def deliver(what, v=None):
            S['delivered'].append((what, v))

        def poll_hook(ip2, co, ptr):
            if not (isinstance(co, Opaque) and co.ty == 'HookFuture'):
                raise Inconclusive('poll of %r' % (co,))
            t = co.tag
            if t == 'ready':
                return poll_ready(ip2, co.data[0])
            if t == 'sig':
                k = co.data[0]
                if S['sig'][k] > 0:
                    S['sig'][k] -= 1
                    deliver(k)
                    if k == 'int' and S['int_handled_at'] is None:
                        S['int_handled_at'] = len(S['delivered'])
                        if S['sum'] == 0:
                            S['zero_after_int'] = True
                    return poll_ready(ip2, some(ip2, unit()))
                return poll_pending(ip2)
            if t == 'accept':
                if S['accept']:
                    a = S['accept'].pop(0)
                    deliver('accept', a)
                    if a == 'err':
                        return poll_ready(ip2, err(ip2, Opaque('io::Error', 'accept')))
                    return poll_ready(ip2, ok(ip2, Agg([Opaque('TcpStream', 'sock'), Opaque('SocketAddr', 'peer')], 'tuple')))
                return poll_pending(ip2)
            if t == 'drain':
                if S['drain']:
                    v = S['drain'].pop(0)
                    deliver('drain', v)
                    vv = v.v if v.concrete else None
                    if vv is None:
                        raise Inconclusive('symbolic drain value')
                    S['sum'] += vv - (1 << 32 if vv >= 1 << 31 else 0)
                    if S['int_handled_at'] is not None and S['sum'] == 0:
                        S['zero_after_int'] = True
                    return poll_ready(ip2, some(ip2, v))
                return poll_pending(ip2)
            if t == 'exit':
                if S['exit'] > 0:
                    S['exit'] -= 1
                    deliver('exit')
                    return poll_ready(ip2, some(ip2, unit()))
                return poll_pending(ip2)
            if t == 'send_drain':
                S['drain'].append(co.data[0])
                return poll_ready(ip2, ok(ip2, unit()))
            if t == 'send_exit':
                S['exit'] += 1
                S['exit_sent'].append({'elapsed': S['elapsed'], 'sum': S['sum'], 'by_timer': S.get('in_timer', False)})
                return poll_ready(ip2, ok(ip2, unit()))
            if t == 'tick':
                k = co.data[0]
                n = S['ticks'][k]
                # the first tick of an interval completes at once, the n-th after n-1 periods
                if n <= S['elapsed']:
                    S['ticks'][k] = n + 1
                    return poll_ready(ip2, Opaque('Instant', 'tick'))
                return poll_pending(ip2)
            raise Inconclusive('poll of hook future ' + t)
        ip_.poll_hook = poll_hook

        co = Closure('{async block@src/main.rs}', [config], ['config'], body, True)
        cell = Cell(co, 'main_future')
        exited = False
        pending_logins = []          # clients that connected and are not counted yet: [rec]
        step = 0
        events = list(script)
        try:
            for _ in range(8 * (len(script) + 3)):
                r = ip_.poll(Ptr(cell, ()))
                if r.discr.concrete and r.discr.v == 0:
                    exited = True
                    break
                # the loop is waiting; is anything still deliverable?  (a value may sit in a channel whose branch was not polled this round)
                if S['drain'] or S['exit'] or S['accept'] or any(S['sig'].values()):
                    continue
                if not events:
                    break
                e = events.pop(0)
                step += 1
                if e in ('int', 'term', 'hup'):
                    S['sig'][e] += 1
                elif e == 'client':
                    S['accept'].append('ok')
                elif e == 'accept_err':
                    S['accept'].append('err')
                elif e == 'counted':
                    # the login of a client that connected earlier completes: +1, unless it was started with admin_only (then it is
                    # refused and never counted -- client_entrypoint's contract, C17/O2)
                    rec = next((c_ for c_ in S['clients'] if not c_.get('counted') and not c_.get('refused')), None)
                    if rec is None:
                        raise Infeasible('no client to count')
                    ao = rec['admin_only']
                    if isinstance(ao, BV) and ao.concrete and ao.v == 1:
                        rec['refused'] = True
                    else:
                        rec['counted'] = True
                        S['drain'].append(BV(32, 1))
                elif e == 'left':
                    rec = next((c_ for c_ in S['clients'] if c_.get('counted') and not c_.get('left')), None)
                    if rec is None:
                        continue
                    rec['left'] = True
                    S['drain'].append(BV(32, 0xffffffff))
                elif e == 'timeout':
                    S['elapsed'] = 1
                    S['in_timer'] = True
                    poll_timer()
                    S['in_timer'] = False
        except Panic as p:
            if p.msg == 'process::exit':
                exited = True
            else:
                raise Inconclusive('main loop panic: ' + p.msg)
        ob.nontrivial += 1
        undelivered = [e for e in events]
        seen = [d[0] for d in S['delivered']]
        got_int = 'int' in seen
        got_term = 'term' in seen
        timeout_fired = 'timeout' in script and not ('timeout' in undelivered)
        connected = sum(1 for c_ in S['clients'] if c_.get('counted') and not c_.get('left'))
        ctx = 'events %s; delivered to the loop %s; exited=%s; counted clients still connected=%d' % (
            list(script), [d[0] if d[1] is None else '%s(%s)' % (d[0], d[1].v - (1 << 32 if d[1].v >= 1 << 31 else 0) if isinstance(d[1], BV) else d[1]) for d in S['delivered']], exited, connected)
        if exited and undelivered and not (got_term or got_int):
            report('exit-without-cause', 'the accept loop ends although neither SIGINT nor SIGTERM was delivered: ' + ctx, script)
        if not exited:
            if got_term:
                report('sigterm-ignored', 'SIGTERM does not end the accept loop: ' + ctx, script)
            elif got_int and timeout_fired:
                report('timeout-ignored', 'shutdown_timeout has passed since SIGINT and the loop is still running: ' + ctx, script)
            elif got_int and connected == 0 and not undelivered:
                report('drained-not-exiting', 'SIGINT was delivered and every counted client has left, but the loop keeps running (it would wait for shutdown_timeout): ' + ctx, script)
        else:
            if not got_term:
                if not got_int:
                    report('exit-without-cause', 'the accept loop ends although neither SIGINT nor SIGTERM was delivered: ' + ctx, script)
                elif not timeout_fired and not S['zero_after_int']:
                    report('exit-with-clients', 'after SIGINT the loop ends while counted clients are still connected and shutdown_timeout has not passed: ' + ctx, script)
        # what client tasks are started with
        for i, c_ in enumerate(S['clients']):
            ao = c_['admin_only']
            want = 1 if c_['after_int'] else 0
            if not isinstance(ao, BV) or not ao.concrete:
                report('admin-only-flag', 'client task %d is started with an admin_only flag that is not a plain boolean of the loop: %r; %s' % (i, ao, ctx), script)
            elif ao.v != want:
                report('admin-only-flag', 'client task %d, accepted %s SIGINT was handled, is started with admin_only=%s; %s' % (i, 'after' if want else 'before', bool(ao.v), ctx), script)
            rx = c_['shutdown_rx']
            if not (isinstance(rx, Opaque) and rx.ty == 'BReceiver' and rx.tag.startswith('sub')):
                report('no-subscription', 'client task %d is started without its own subscription to the shutdown broadcast; %s' % (i, ctx), script)
            a = c_['entry_args']
            if a is None:
                report('entrypoint-not-called', 'client task %d does not run client_entrypoint; %s' % (i, ctx), script)
            else:
                if not any(x is ao for x in a) and not any(isinstance(x, BV) and x.w == 1 and x.concrete and isinstance(ao, BV) and ao.concrete and x.v == ao.v for x in a[4:5]):
                    report('admin-only-flag', 'client task %d does not pass its admin_only flag to client_entrypoint; %s' % (i, ctx), script)
                if not any(x is rx for x in a):
                    report('no-subscription', 'client task %d does not pass its shutdown subscription to client_entrypoint; %s' % (i, ctx), script)
        if got_int:
            if S['broadcasts'] < 1:
                report('no-broadcast', 'SIGINT is handled without telling the client tasks (no shutdown broadcast); ' + ctx, script)
            elif S.get('broadcast_subs', 0) < sum(1 for c_ in S['clients'] if not c_['after_int']):
                report('no-broadcast', 'the shutdown broadcast is sent before every running client task had subscribed; ' + ctx, script)
            for d in S['periods'][:1]:
                ms = d.data[0] if isinstance(d, Opaque) and d.ty == 'Duration' else None
                if ms is None or not isinstance(ms, BV) or ip_.is_sat(ms.z() != timeout_ms.z()):
                    report('timeout-period', 'the shutdown timer does not run for general.shutdown_timeout milliseconds (%r); %s' % (ms, ctx), script)
        elif S['broadcasts']:
            report('broadcast-without-sigint', 'the shutdown broadcast is sent without a SIGINT; ' + ctx, script)
        hups = seen.count('hup')
        if S['reloads'] != hups:
            report('sighup-reload', 'SIGHUP delivered %d time(s), reload_config called %d time(s); %s' % (hups, S['reloads'], ctx), script)
        if len(ob.samples) < 3:
            ob.samples.append({'events': list(script), 'delivered': seen, 'exited': exited})
    ip.explore(harness, max_paths=600)
    chk.absorb(ob, ip)
