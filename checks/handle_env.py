"""Environment for executing the real `Client::handle` coroutine from MIR.

 * a scripted client socket (every byte the client sends, and the point at which it disconnects);
 * a pool whose bb8 checkouts hand out `Server` objects bound to *reactive reference backends* (`MockPg`): a
   PostgreSQL-protocol reference written from the protocol documentation that answers whatever pgcat actually
   writes to it and keeps the ground truth (transaction status, COPY mode, unread replies, session state);
 * recorders for what bb8 would do whenever a connection guard is dropped (the real `ServerPool::has_broken`
   decides) and for every checkout.

The oracle (`judge`) is evaluated along each explored path; it is phrased over the ground truth of the reference
backends and the bytes on the two sockets, never over pgcat's own bookkeeping.
"""
import os, sys, re, struct
sys.path.insert(0, os.path.dirname(os.path.dirname(os.path.abspath(__file__))))
import z3
from checks.serverfam import *
from checks.c07 import mk_pool, mk_addr
from harness.server_state import mk_client

FROZEN = 1 << 40
PARAM_DEFAULTS = {'client_encoding': b'UTF8', 'DateStyle': b'ISO, MDY', 'TimeZone': b'Etc/UTC', 'standard_conforming_strings': b'on',
                  'application_name': b'pgcat'}
PARAM_CANON = {k.lower(): k for k in PARAM_DEFAULTS}
SET_RX = re.compile(r"^SET\s+(?:SESSION\s+)?([A-Za-z_]+)\s*(?:TO|=)\s*(?:'((?:[^']|'')*)'|([^\s;']+)|E'((?:[^'\\]|''|\\.)*)')$", re.I)


def set_value(mm):
    """The value a matched SET assigns: a plain literal ('' -> '), a bare word, or an E'' literal ('' -> ', backslash + c -> c)."""
    if mm.group(2) is not None:
        return mm.group(2).replace("''", "'")
    if mm.group(3) is not None:
        return mm.group(3)
    return re.sub(r"\\(.)", r"\1", mm.group(4).replace("''", "'"), flags=re.S)


# ----------------------------------------------------------------------------------------------- wire helpers
def msg(code, body=b''):
    if isinstance(code, str):
        code = code.encode()
    return code + struct.pack('>i', len(body) + 4) + body


def Q(sql):
    return msg(b'Q', sql.encode() + b'\0')


def P(name, sql, nparams=0):
    return msg(b'P', name.encode() + b'\0' + sql.encode() + b'\0' + struct.pack('>h', nparams) + b'\0\0\0\0' * nparams)


def B(portal, stmt, params=()):
    b = portal.encode() + b'\0' + stmt.encode() + b'\0' + struct.pack('>h', 0) + struct.pack('>h', len(params))
    for p in params:
        b += struct.pack('>i', len(p)) + p
    return msg(b'B', b + struct.pack('>h', 0))


def D(kind, name):
    return msg(b'D', kind.encode() + name.encode() + b'\0')


def E(portal='', rows=0):
    return msg(b'E', portal.encode() + b'\0' + struct.pack('>i', rows))


def C(kind, name):
    return msg(b'C', kind.encode() + name.encode() + b'\0')


S = msg(b'S')
H = msg(b'H')
X = msg(b'X')


def split_messages(bs, what):
    """Split a byte list (BV items) into protocol messages; framing must be concrete."""
    out = []
    i = 0
    while i < len(bs):
        if i + 5 > len(bs):
            return out, bs[i:]
        hdr = bs[i:i + 5]
        if not all(b.concrete for b in hdr):
            raise Inconclusive('symbolic framing in ' + what)
        ln = int.from_bytes(bytes(b.v for b in hdr[1:5]), 'big', signed=True)
        if ln < 4:
            raise Inconclusive('malformed frame in %s (length %d)' % (what, ln))
        if i + 1 + ln > len(bs):
            return out, bs[i:]
        out.append(bs[i:i + 1 + ln])
        i += 1 + ln
    return out, []


def conc(bs):
    return bytes(b.v for b in bs) if all(b.concrete for b in bs) else None


def show(bs):
    return ''.join(chr(b.v) if b.concrete and 32 <= b.v < 127 else ('?' if not b.concrete else '\\x%02x' % b.v) for b in bs)


# ----------------------------------------------------------------------------------------------- reference backend
class MockPg:
    """Reference PostgreSQL backend for one server connection.  Reads what pgcat wrote, produces the replies the
    protocol documentation prescribes and keeps the ground truth the properties are phrased over."""

    def __init__(self, ip, idx, sym_status=False):
        self.ip = ip
        self.idx = idx
        self.sym_status = sym_status
        self.status = BV(8, ord('I'))       # transaction status the backend reports in ReadyForQuery
        self.copy_in = False
        self.after_copy = []
        self.consumed = 0                    # bytes of stream.out already interpreted
        self.requests = []                   # [{'bytes': [...], 'replies': [[msg]...]}]
        self.pending = []                    # replies of extended-protocol messages not yet flushed
        self.ignore_till_sync = False
        self.unsynced = False                # extended messages received since the last Sync
        self.dirty_set = False               # SET outside what RESET ALL / DISCARD ALL undid
        self.role_set = False
        self.sql_prepared = False            # SQL-level PREPARE not yet deallocated
        self.named = []                      # z3 conditions: "a named protocol statement exists"
        self.named_names = []
        self.closed = False
        self.died = False
        self.tables_created = False      # CREATE TABLE seen: statements over `notyet` are accepted from then on
        self.last_delivered = None
        self.slow = False                    # the statement being answered is one the backend is slow on (pg_sleep)
        self.params = dict(PARAM_DEFAULTS)   # the reported (GUC_REPORT) session parameters pgcat tracks
        self.stmts = {}                      # extended protocol: statement name -> SQL text (None when not concrete)
        self.portals = {}                    # portal name -> statement name
        self.nreq = 0
        self.reply_log = []                  # (request index, message bytes) in generation order

    # -- status helpers
    def st_is(self, ch):
        return decide(self.ip, self.status.z() == ord(ch))

    def set_status(self, ch):
        self.status = BV(8, ord(ch))

    def attach(self, stream, env_ref):
        self.stream = stream
        self.env_ref = env_ref          # [HandleEnv] once constructed
        stream.refill = lambda ip, st, n: self.pump()
        stream.on_write = lambda ip, st, data: self.pump()

    def pump(self):
        """Interpret everything pgcat has written so far."""
        out = self.stream.out
        msgs, rest = split_messages(out[self.consumed:], 'bytes written to backend %d' % self.idx)
        for m in msgs:
            self.consumed += len(m)
            self.on_message(m)

    def emit(self, req, code, body=b''):
        m = [BV(8, b) for b in msg(code, body)] if isinstance(body, (bytes, bytearray)) else \
            [BV(8, ord(code))] + [BV(8, b) for b in struct.pack('>i', len(body) + 4)] + list(body)
        req['replies'].append(m)
        self.reply_log.append((req['n'], m))
        return m

    def deliver(self, ms):
        for m in ms:
            self.stream.inbound.extend(m)
            self.cur['delivered'].append(m)
            self.last_delivered = m
        self.cur['status_after'] = self.status

    def ready(self, req):
        return self.emit(req, 'Z', [self.status])

    def row_tag(self, req, sql):
        """8-byte DataRow value: backend index, request number, and two hex digits of a hash of the statement text executed."""
        import hashlib
        h = hashlib.sha256(sql).digest()[0] if sql is not None else 0
        return b'b%dr%03d%02x' % (self.idx % 10, req['n'] % 1000, h)

    def on_message(self, m):
        code = chr(m[0].v)
        env = self.env_ref[0] if self.env_ref else None
        req = {'n': self.nreq, 'bytes': m, 'replies': [], 'delivered': [], 'code': code, 'params_before': dict(self.params),
               'session': (self.env_ref[0].session if self.env_ref else 0),
               'g': env.tick() if env else self.nreq,
               'client_pos': env.client_stream.pos if env else 0, 'client_done': env.client_done() if env else False}
        self.cur = req
        self.nreq += 1
        cm_ = conc(m)
        self.slow = bool(cm_ and b'pg_sleep' in cm_)
        self.requests.append(req)
        body = m[5:]
        if self.closed:
            return
        if self.copy_in:
            if code == 'd':
                return
            if code == 'c':
                self.copy_in = False
                rest, self.after_copy = self.after_copy, []
                if rest:
                    # the COPY was one statement of a multi-statement Query: the rest of that message runs now
                    self.deliver(self.run_statements(req, rest, [self.emit(req, 'C', b'COPY 1\0')]))
                else:
                    self.deliver([self.emit(req, 'C', b'COPY 1\0'), self.ready(req)])
                return
            if code == 'f':
                self.copy_in = False
                if not self.st_is('I'):
                    self.set_status('E')
                self.deliver([self.emit(req, 'E', b'SERROR\0C57014\0MCOPY failed\0\0'), self.ready(req)])
                return
            if code in 'HS':
                return        # protocol: Flush and Sync are ignored during COPY IN
            # protocol: any other message type during COPY IN is an error that aborts the copy: ErrorResponse, the rest of the
            # COPY's Query message is discarded, ReadyForQuery; the offending message itself is consumed by that error
            self.copy_in = False
            if not self.st_is('I'):
                self.set_status('E')
            self.deliver([self.emit(req, 'E', b'SERROR\0C08P01\0Munexpected message type during COPY from stdin\0\0'), self.ready(req)])
            return
        if code in 'dcf':
            return        # protocol: CopyData / CopyDone / CopyFail outside COPY IN are dropped by the backend
        if code == 'Q':
            self.deliver(self.simple_query(req, body))
        elif code in 'PBDECH':
            self.unsynced = True
            if self.ignore_till_sync:
                return
            if code == 'P':
                nm = body[0]
                self.named.append(nm.z() != 0)
                self.named_names.append(show(body[:8]))
                name, sql = self.cstrings(body, 2)
                if sql is not None and b'notyet' in sql.lower() and not self.tables_created:
                    # a statement over a relation that does not exist (yet): the server rejects the Parse itself
                    self.pending.append(self.emit(req, 'E', b'SERROR\0C42P01\0Mrelation "notyet" does not exist\0\0'))
                    if not self.st_is('I'):
                        self.set_status('E')
                    self.ignore_till_sync = True
                    return
                if name is not None:
                    self.stmts[name] = sql
                self.pending.append(self.emit(req, '1'))
            elif code == 'B':
                portal, stmt = self.cstrings(body, 2)
                if stmt is not None and stmt not in self.stmts:
                    self.pending.append(self.emit(req, 'E', b'SERROR\0C26000\0Mprepared statement does not exist\0\0'))
                    self.ignore_till_sync = True
                    return
                if portal is not None:
                    self.portals[portal] = stmt
                self.pending.append(self.emit(req, '2'))
            elif code == 'D':
                kind = body[0]
                name, = self.cstrings(body[1:], 1)
                if kind.concrete and kind.v == ord('S') and name is not None and name not in self.stmts:
                    self.pending.append(self.emit(req, 'E', b'SERROR\0C26000\0Mprepared statement does not exist\0\0'))
                    self.ignore_till_sync = True
                    return
                self.pending.append(self.emit(req, 'n'))
            elif code == 'E':
                portal, = self.cstrings(body, 1)
                sql = self.stmts.get(self.portals.get(portal)) if portal is not None else None
                self.execute_extended(req, sql)
            elif code == 'C':
                kind = body[0]
                name, = self.cstrings(body[1:], 1)
                if kind.concrete and kind.v == ord('S') and name is not None:
                    self.stmts.pop(name, None)
                self.pending.append(self.emit(req, '3'))
            elif code == 'H':
                self.deliver(self.pending)
                self.pending = []
        elif code == 'S':
            self.ignore_till_sync = False
            self.unsynced = False
            out = self.pending + [self.ready(req)]
            self.pending = []
            self.deliver(out)
        elif code == 'X':
            self.closed = True
        else:
            # unknown frontend message: FATAL protocol violation, backend closes
            self.closed = True

    @staticmethod
    def cstrings(body, n):
        """The first n NUL-terminated strings of a message body, as bytes (None where a byte is symbolic)."""
        out, cur, ok_ = [], [], True
        for b in body:
            if len(out) == n:
                break
            if b.concrete and b.v == 0:
                out.append(bytes(cur) if ok_ else None)
                cur, ok_ = [], True
            elif b.concrete:
                cur.append(b.v)
            else:
                ok_ = False
        while len(out) < n:
            out.append(None)
        return out

    def execute_extended(self, req, sql):
        """Execute of a portal: transaction control / session statements have their semantics, everything else is one row;
        an error puts the backend in skip-until-Sync mode (protocol)."""
        u = re.sub(r'\s+', ' ', sql.decode('latin1').strip().rstrip(';').upper()) if sql is not None else None
        if u is not None and not self.st_is('I') and self.st_is('E') and u not in ('ROLLBACK', 'ABORT', 'COMMIT', 'END'):
            self.pending.append(self.emit(req, 'E', b'SERROR\0C25P02\0Mcurrent transaction is aborted\0\0'))
            self.ignore_till_sync = True
            return
        if u is None:
            pass
        elif u in ('BEGIN', 'START TRANSACTION') or u.startswith('BEGIN '):
            self.set_status('T')
            self.pending.append(self.emit(req, 'C', b'BEGIN\0'))
            return
        elif u in ('COMMIT', 'END', 'ROLLBACK', 'ABORT'):
            failed = self.st_is('E')
            self.set_status('I')
            self.pending.append(self.emit(req, 'C', b'ROLLBACK\0' if (failed or u in ('ROLLBACK', 'ABORT')) else b'COMMIT\0'))
            return
        elif u.startswith('SET LOCAL'):
            self.pending.append(self.emit(req, 'C', b'SET\0'))
            return
        elif u.startswith('SET '):
            if self.st_is('I'):
                if u.startswith('SET ROLE'):
                    self.role_set = True
                else:
                    self.dirty_set = True
            self.pending.append(self.emit(req, 'C', b'SET\0'))
            return
        elif u.startswith('ERROR') or '1/0' in u:
            if not self.st_is('I'):
                self.set_status('E')
            self.pending.append(self.emit(req, 'E', b'SERROR\0C22012\0Mdivision by zero\0\0'))
            self.ignore_till_sync = True
            return
        if u is not None and ('BIGROWS' in u or 'HUGEROW' in u):
            self.pending += self.big_rows(req, u)
            return
        self.pending.append(self.emit(req, 'D', struct.pack('>hi', 1, 8) + self.row_tag(req, sql)))
        self.pending.append(self.emit(req, 'C', b'SELECT 1\0'))

    def big_rows(self, req, u):
        """Results around pgcat's 8 KiB relay threshold: BIGROWS = three 3000-byte rows (the threshold falls inside the third),
        HUGEROW = a first row of 9000 bytes (alone above the threshold) and a small last row."""
        sizes = (3000, 3000, 3000) if 'BIGROWS' in u else (9000, 8)
        out = []
        for k, n in enumerate(sizes):
            out.append(self.emit(req, 'D', struct.pack('>hi', 1, n) + bytes((i * 7 + k + req['n']) % 251 for i in range(n))))
        out.append(self.emit(req, 'C', b'SELECT %d\0' % len(sizes)))
        return out

    def simple_query(self, req, body):
        out = []
        sqlb = body[:-1] if body and body[-1].concrete and body[-1].v == 0 else body
        text = conc(sqlb)
        if text is None:
            # symbolic statement text: the backend's answer is one generic result and an arbitrary status change
            # within what PostgreSQL can report (I->I|T, T->I|T|E, E->E|I)
            out.append(self.emit(req, 'C', b'SELECT 1\0'))
            new = self.ip.fresh(8, 'b%d_status' % self.idx)
            old = self.status.z()
            I, T, Ee = ord('I'), ord('T'), ord('E')
            self.ip.assume(z3.Or(new.z() == I, new.z() == T, new.z() == Ee))
            self.ip.assume(z3.Implies(old == I, new.z() != Ee))
            self.ip.assume(z3.Implies(old == Ee, new.z() != T))
            self.status = new
            out.append(self.ready(req))
            return out
        stmts = [s.strip() for s in text.decode('latin1').split(';')]
        stmts = [s for s in stmts if s]
        if not stmts:
            out.append(self.emit(req, 'I'))
        return self.run_statements(req, stmts, out)

    def run_statements(self, req, stmts, out):
        """The statements of one simple Query, in order; a COPY FROM STDIN suspends the message (the rest runs after CopyDone)."""
        for si, s in enumerate(stmts):
            u = re.sub(r'\s+', ' ', s.upper())
            if self.st_is('E') and u not in ('ROLLBACK', 'ABORT', 'COMMIT', 'END'):
                out.append(self.emit(req, 'E', b'SERROR\0C25P02\0Mcurrent transaction is aborted\0\0'))
                break
            if u in ('BEGIN', 'START TRANSACTION') or u.startswith('BEGIN '):
                self.set_status('T')
                out.append(self.emit(req, 'C', b'BEGIN\0'))
            elif u in ('COMMIT', 'END'):
                failed = self.st_is('E')
                self.set_status('I')
                out.append(self.emit(req, 'C', b'ROLLBACK\0' if failed else b'COMMIT\0'))
            elif u in ('ROLLBACK', 'ABORT'):
                self.set_status('I')
                out.append(self.emit(req, 'C', b'ROLLBACK\0'))
            elif u.startswith('SET LOCAL'):
                out.append(self.emit(req, 'C', b'SET\0'))
            elif u.startswith('SET ROLE') or u.startswith('SET SESSION AUTHORIZATION'):
                # the property speaks of session state created OUTSIDE a transaction (inside one, ROLLBACK undoes it and
                # pgcat documents that it does not track it)
                if self.st_is('I'):
                    self.role_set = True
                out.append(self.emit(req, 'C', b'SET\0'))
            elif u.startswith('SET '):
                mm = SET_RX.match(s.strip())
                tracked = bool(mm and mm.group(1).lower() in PARAM_CANON)
                # tracked parameters are carried from client to client by the parameter sync at checkout (C12), not by RESET ALL
                if self.st_is('I') and not tracked:
                    self.dirty_set = True
                if tracked:
                    key = PARAM_CANON[mm.group(1).lower()]
                    val = set_value(mm).encode('latin1')
                    self.params[key] = val
                    out.append(self.emit(req, 'S', key.encode() + b'\0' + val + b'\0'))
                out.append(self.emit(req, 'C', b'SET\0'))
            elif u == 'RESET ROLE':
                self.role_set = False
                out.append(self.emit(req, 'C', b'RESET\0'))
            elif u == 'RESET ALL':
                self.dirty_set = False
                for key, dv in PARAM_DEFAULTS.items():
                    if self.params[key] != dv:
                        self.params[key] = dv
                        out.append(self.emit(req, 'S', key.encode() + b'\0' + dv + b'\0'))
                out.append(self.emit(req, 'C', b'RESET\0'))
            elif u == 'DISCARD ALL':
                self.dirty_set = self.role_set = self.sql_prepared = False
                self.named = []
                self.stmts = {}
                out.append(self.emit(req, 'C', b'DISCARD ALL\0'))
            elif u == 'DEALLOCATE ALL':
                self.sql_prepared = False
                self.named = []
                self.stmts = {}
                out.append(self.emit(req, 'C', b'DEALLOCATE ALL\0'))
            elif u.startswith('CREATE TABLE'):
                self.tables_created = True
                out.append(self.emit(req, 'C', b'CREATE TABLE\0'))
            elif u.startswith('PREPARE '):
                if self.st_is('I'):
                    self.sql_prepared = True
                out.append(self.emit(req, 'C', b'PREPARE\0'))
            elif u.startswith('COPY ') and 'FROM STDIN' in u:
                self.copy_in = True
                self.after_copy = stmts[si + 1:]
                req['started_copy'] = True
                out.append(self.emit(req, 'G', b'\0\0\0'))
                return out
            elif 'DIE' in u.split():
                # the backend breaks while executing the statement: a row description, half a DataRow, then the connection is gone
                out.append(self.emit(req, 'T', struct.pack('>h', 1) + b'c\0' + struct.pack('>ihihih', 0, 0, 25, -1, -1, 0)))
                self.closed = True
                self.died = True
                req['died'] = True
                self.stream.inbound.extend(out[-1])
                self.cur['delivered'].append(out[-1])
                self.stream.inbound.extend([BV(8, b) for b in b'D\x00\x00\x00\x12\x00\x01\x00']) 
                return []
            elif 'BIGROWS' in u or 'HUGEROW' in u:
                out.append(self.emit(req, 'T', struct.pack('>h', 1) + b'c\0' + struct.pack('>ihihih', 0, 0, 25, -1, -1, 0)))
                for m_ in self.big_rows(req, u):
                    out.append(m_)
            elif u.startswith('COPY ') and 'TO STDOUT' in u:
                out.append(self.emit(req, 'H', b'\0\0\0'))
                out.append(self.emit(req, 'd', b'b%dr%03d\n' % (self.idx % 10, req['n'] % 1000)))
                out.append(self.emit(req, 'c'))
                out.append(self.emit(req, 'C', b'COPY 1\0'))
            elif u.startswith('ERROR') or '1/0' in u:
                if not self.st_is('I'):
                    self.set_status('E')
                out.append(self.emit(req, 'E', b'SERROR\0C22012\0Mdivision by zero\0\0'))
                break
            else:
                out.append(self.emit(req, 'T', struct.pack('>h', 1) + b'c\0' + struct.pack('>ihihih', 0, 0, 25, -1, -1, 0)))
                out.append(self.emit(req, 'D', struct.pack('>hi', 1, 8) + self.row_tag(req, s.encode('latin1'))))
                out.append(self.emit(req, 'C', b'SELECT 1\0'))
        if self.sym_status:
            # "every server status at that instant": whatever the statement was, the backend may report any status PostgreSQL can
            # reach from the previous one (I->I|T, T->I|T|E, E->E|I); the ground truth follows what it reports
            new = self.ip.fresh(8, 'b%d_status' % self.idx)
            old = self.status.z()
            I, T, Ee = ord('I'), ord('T'), ord('E')
            self.ip.assume(z3.Or(new.z() == I, new.z() == T, new.z() == Ee))
            self.ip.assume(z3.Implies(old == I, new.z() != Ee))
            self.ip.assume(z3.Implies(old == Ee, new.z() != T))
            self.status = new
        out.append(self.ready(req))
        return out

    def truth(self):
        """Ground truth now (after interpreting everything written so far)."""
        self.pump()
        unread = len(self.stream.inbound) - self.stream.pos
        return dict(status=self.status, copy_in=self.copy_in, unread=unread, dirty_set=self.dirty_set, role_set=self.role_set,
                    sql_prepared=self.sql_prepared, named=list(self.named), unsynced=self.unsynced, closed=self.closed,
                    pending=sum(len(m) for m in self.pending))


class Backend:
    def __init__(self, ip, prog, idx, role, sym_status=False, shard=0, pos=None, **server_over):
        self.ip, self.prog = ip, prog
        self.idx = idx
        self.shard = shard
        self.role = role
        self.sym_status = sym_status
        self.server_over = dict(server_over)
        self.env_ref = []
        self.addr = mk_addr(ip, prog, idx, role, shard=shard)
        if pos is not None:
            # position of the server inside its shard (ConnectionPool::databases[shard][address_index])
            setf(prog, self.addr, 'Address', 'address_index', BV(64, pos))
            setf(prog, self.addr, 'Address', 'replica_number', BV(64, pos))
        self.generation = 0
        self.old = []                # (stream, pg) of connections bb8 has discarded
        self.connect()
        self.checkouts = 0
        self.held = False
        self.putbacks = []
        self.needs_fresh = False

    def connect(self):
        """A (new) server connection to this address: fresh socket, fresh backend session, fresh Server object."""
        ip, prog = self.ip, self.prog
        self.stream = StreamV([], 'backend%d.%d' % (self.idx, self.generation))
        self.pg = MockPg(ip, self.idx, self.sym_status)
        self.pg.attach(self.stream, self.env_ref)
        over = dict(self.server_over)
        over.setdefault('last_activity', Agg([BV(64, FROZEN)], 'SystemTime'))
        # (the statistics object of this connection is tagged with (backend, generation): C18's reference follows its reported state)
        over.setdefault('stats', Ptr(Cell(Opaque('ServerStats', 'stats', (self.idx, self.generation)), 'sstats')))
        self.server = mk_server(ip, prog, self.stream, address=Agg(list(self.addr.fields), 'Address', self.addr.names), **over)
        self.cell = Cell(self.server, 'server%d.%d' % (self.idx, self.generation))

    def renew(self, env):
        """bb8 discarded the connection (has_broken): the next checkout opens a new one."""
        self.old.append((self.stream, self.pg))
        self.generation += 1
        self.connect()
        env.adopt(self)
        self.needs_fresh = False


class HandleEnv:
    def __init__(self, ip, prog, backends, client_bytes, pool_over=None, client_over=None, settings_over=None, paused=False,
                 pending_at=(), on_pending=None, boundaries=(), idle_timeout_ms=0, statement_timeout_ms=0, shutdown=False, checkout_failures=0):
        self.ip, self.prog = ip, prog
        if backends and isinstance(backends[0], (list, tuple)):
            shards = [list(x) for x in backends]
            backends = [b for sh in shards for b in sh]
        else:
            shards = [list(backends)]
        self.shards = shards
        self.backends = backends
        self.client_bytes = list(client_bytes)
        self.client_stream = StreamV(self.client_bytes, 'client')
        self.client_stream.pending_at = set(pending_at)
        self.boundaries = {p: k for k, p in enumerate(boundaries)}
        self._seen_reads = set()
        self.client_stream.on_read = self._client_read
        self.on_pending = on_pending
        so = dict(settings_over or {})
        if len(shards) > 1:
            so.setdefault('shards', BV(64, len(shards)))
        self.pool, self.settings = mk_pool(ip, prog, [[b.addr for b in sh] for sh in shards], [MapV('hashmap') for _ in shards],
                                           databases=[Seq([Opaque('Bb8Pool', 'pool%d' % b.idx, b) for b in sh], 'vec') for sh in shards],
                                           settings_over=so)
        for k, v in (pool_over or {}).items():
            setf(prog, self.pool, 'ConnectionPool', k, v)
        self.paused_cell = deref(ip, getf(prog, self.pool, 'ConnectionPool', 'paused'))
        self.events = []
        if paused:
            self.set_paused(True)
        # one ClientServerMap shared by the client and every server object (as in the real process)
        self.csmap = MapV('hashmap')
        csp = Ptr(Cell(Agg([self.csmap], 'Lock'), 'csmap'))
        self.csp = csp
        self.server_setup = []          # callbacks(backend) applied to every (new) Server object
        for b in backends:
            self.adopt(b)
        co = dict(read=Agg([self.client_stream], 'BufReader'), write=self.client_stream, client_server_map=csp)
        co.update(client_over or {})
        self.client = mk_client(ip, prog, **co)
        self.violations = []
        self.clock = 0
        self.session = 0
        self.session_marks = [(0, 0)]        # per session: (first event index, clock at start)
        self.session_streams = [self.client_stream]
        self.notify_gen = 0
        self.expect_incomplete = False
        self.allow_pooler_replies = False
        for b in backends:
            b.env_ref.append(self)
        ip.env['frozen_clock'] = FROZEN      # no time passes: no health checks, no idle / ban expiry
        ip.env['no_timeouts'] = True         # the peers answer within every deadline
        self.idle_timeout_ms = idle_timeout_ms
        self.checkout_failures = checkout_failures    # up to this many checkouts may time out (pool exhausted by other clients): solver's choice
        self.shutdown_mode = shutdown      # the shutdown broadcast may arrive at any point (solver's choice at every select!)
        self.shutdown_fired = False
        if idle_timeout_ms:
            # ... except that a client inside a transaction may stay silent longer than idle_client_in_transaction_timeout:
            # at every read inside the transaction loop the deadline may or may not fire (solver's choice)
            ip.env.setdefault('timeout_only_ns', {})[idle_timeout_ms * 1000000] = None
            ip.env['on_timeout_elapsed'] = self._timeout_elapsed
        self.statement_timeout_ms = statement_timeout_ms
        if statement_timeout_ms:
            # ... and a statement the backend is slow on (pg_sleep) may or may not be answered within statement_timeout
            usr = getf(prog, self.settings, 'PoolSettings', 'user')
            setf(prog, usr, 'User', 'statement_timeout', BV(64, statement_timeout_ms))
            ip.env.setdefault('timeout_only_ns', {})[statement_timeout_ms * 1000000] = lambda: any(b.held and b.pg.slow for b in self.backends)
            ip.env['on_timeout_elapsed'] = self._timeout_elapsed
        self._install()

    def take_shutdown(self):
        """tokio broadcast contract: the value main() sends once is received exactly once by this receiver -- by recv() or by
        try_recv(), whichever asks first after it was sent.  Whether it has been sent by now is the solver's choice."""
        if self.shutdown_mode and not self.shutdown_fired and self.ip.choose(2, 'shutdown_now') == 1:
            self.shutdown_fired = True
            self.events.append(('shutdown', [b.idx for b in self.backends if b.held], self.client_stream.pos))
            return True
        return False

    def _timeout_elapsed(self, dur):
        ns = dur.fields[0].v
        if self.idle_timeout_ms and ns == self.idle_timeout_ms * 1000000:
            self.events.append(('idle_timeout', self.client_stream.pos))
        else:
            self.events.append(('statement_timeout', self.client_stream.pos, [b.idx for b in self.backends if b.held and b.pg.slow]))

    def _client_read(self, ip, st):
        """pgcat starts reading the client's next message: record which server connections the session holds at that moment and
        their backends' ground truth (used for: an idle client outside a transaction keeps no server)."""
        k = self.boundaries.get(st.pos)
        if k is None or k in self._seen_reads:
            return
        self._seen_reads.add(k)
        held = []
        for b in self.backends:
            if b.held:
                t = b.pg.truth()
                last = b.pg.last_delivered
                held.append((b.idx, t['status'], t['copy_in'], t['unsynced'], t['unread'] + t['pending'],
                             bool(last) and last[0].concrete and last[0].v == ord('Z')))
        self.events.append(('client_read', k, held))
        self.events.append(('csmap', k, [b.idx for b in self.backends if b.held], self.csmap_targets()))
        if getattr(self, 'reload_before', None) == k and not getattr(self, '_reloaded', False):
            # a RELOAD re-created this pool while the client was idle: from now on get_pool hands out a NEW pool object (same servers and
            # settings, another config_hash)
            self._reloaded = True
            p = self.pool
            self.pool = Agg(list(p.fields), p.ty, list(p.names) if p.names else None)
            setf(self.prog, self.pool, 'ConnectionPool', 'config_hash', BV(64, 0x5eed))
            self.events.append(('reload', k))

    def csmap_targets(self):
        """Server process ids a CancelRequest with this client's key would be sent to, per the cancel map."""
        out = []
        for k, cell in self.csmap.entries:
            v = cell.val
            pid = v.fields[0]
            out.append(pid.v if pid.concrete else None)
        return out

    def tick(self):
        self.clock += 1
        return self.clock

    def client_done(self):
        """The client has sent Terminate (the message pgcat read last) or its socket is at EOF."""
        st = self.client_stream
        if st.failed or st.pos >= len(self.client_bytes):
            return True
        k = self.boundaries.get(st.pos)
        if k:
            starts = {v: p for p, v in self.boundaries.items()}
            b = self.client_bytes[starts[k - 1]]
            return b.concrete and b.v == ord('X')
        return False

    def set_paused(self, v):
        self.paused_cell.fields[0] = BV(1, int(v))
        self.events.append(('paused', bool(v)))

    def resume(self):
        """ConnectionPool::resume(): paused := false; paused_waiter.notify_waiters()."""
        self.paused_cell.fields[0] = BV(1, 0)
        self.notify_gen += 1
        self.events.append(('paused', False))

    def is_paused(self):
        f = self.paused_cell.fields[0]
        return bool(f.v)

    def _install(self):
        ip, prog = self.ip, self.prog
        env = self
        # the overrides close over THIS path's environment: drop the ones installed by an earlier path of the same interpreter
        if not hasattr(ip, '_henv_base'):
            ip._henv_base = list(ip.overrides)
        ip.overrides[:] = ip._henv_base

        def stat_rec(c, *a):
            # statistics calls are recorded (who, which): C18's reference is evaluated over this trace
            who, what = c.m.group(1), c.m.group(2)
            tgt = None
            if who == 'ServerStats' and a:
                try:
                    sv = a[0]
                    for _ in range(3):
                        if isinstance(sv, Ptr):
                            sv = deref(c.ip, sv)
                    tgt = getattr(sv, 'data', None)
                except Exception:      # noqa: BLE001
                    tgt = None
            env.events.append(('stat', who, what, tgt))
            t = (c.dest_ty or '').strip()
            if t in ('()', ''):
                return unit()
            return c.ip.fresh_of_type(t, 'stat')
        ip.overrides.append((re.compile(r'^(?:stats::\w+::)?(ClientStats|ServerStats)::(register|idle|waiting|active|disconnect|transaction|query|checkout_error|checkout_success)$'), stat_rec))
        install_stats_noops(ip)

        def get_pool(c, dbp, up):
            return some(c.ip, env.pool)
        ip.overrides.append((re.compile(r'^(?:pool::)?get_pool$'), get_pool))
        ip.overrides.append((re.compile(r'^(?:config::)?get_idle_client_in_transaction_timeout$'), lambda c: BV(64, env.idle_timeout_ms)))
        ip.overrides.append((re.compile(r'^(?:config::)?get_config$'), lambda c: env.config(c.ip)))
        # DNS-cache based invalidation disabled (CachedResolver::enabled() == false)
        ip.overrides.append((re.compile(r'^<(?:dns_cache::)?CachedResolver as (?:std::default::)?Default>::default$'), lambda c: Opaque('CachedResolver', 'resolver')))
        ip.overrides.append((re.compile(r'CachedResolver::enabled$'), lambda c, *a: BV(1, 0)))

        def bb8_get(c, poolp):
            p = deref(c.ip, poolp)
            return Opaque('HookFuture', 'bb8get', p)
        ip.overrides.append((re.compile(r'^bb8::Pool::<.*>::get$'), bb8_get))

        def conn_deref(c, p):
            v = deref(c.ip, p)
            return v.fields[0]
        ip.overrides.append((re.compile(r'^<(?:bb8::)?PooledConnection<.*> as (?:std::ops::)?(?:Deref|DerefMut)>::(deref|deref_mut)$'), conn_deref))
        # select! starts polling at a random branch: fixed to the first one, unless the shutdown signal is in play (then either)
        ip.overrides.append((re.compile(r'^tokio::macros::support::thread_rng_n$'),
                             lambda c, n: BV(32, c.ip.choose(2, 'select_start')) if env.shutdown_mode else BV(32, 0)))
        ip.overrides.append((re.compile(r'^tokio::sync::broadcast::Receiver::<.*>::recv$'), lambda c, r: Opaque('HookFuture', 'shutdown_recv', None)))

        def try_recv(c, r):
            if env.take_shutdown():
                return EnumV(BV(64, 0), {'Ok': [unit()]}, 'Result')
            return EnumV(BV(64, 1), {'Err': [c.ip.make_enum('TryRecvError', 'Empty') if 'TryRecvError' in c.ip.prog.src.enums else Opaque('TryRecvError', 'Empty')]}, 'Result')
        ip.overrides.append((re.compile(r'^tokio::sync::broadcast::Receiver::<.*>::try_recv$'), try_recv))
        ip.overrides.append((re.compile(r'^tokio::future::poll_fn::poll_fn::<'), lambda c, f: Opaque('PollFn', 'pollfn', f)))

        def pollfn_poll(c, pin, cx):
            ptr = pin.fields[0]
            pf = c.ip.load(ptr.cell, ptr.path)
            return c.ip.call_value(pf.data, [cx])
        ip.overrides.append((re.compile(r'^<tokio::future::poll_fn::PollFn<.*> as (?:futures::|std::future::)?Future>::poll$'), pollfn_poll))
        ip.overrides.append((re.compile(r'^(?:tokio::sync::)?Notify::notified$'), lambda c, n: Opaque('HookFuture', 'notified', env.notify_gen)))

        def hook_poll(c, pin, cx):
            ptr = pin.fields[0]
            return c.ip.poll_hook(c.ip, c.ip.load(ptr.cell, ptr.path), ptr)
        ip.overrides.append((re.compile(r'^<(?:tokio::sync::(?:notify::)?)?Notified<.*> as (?:futures::|std::future::)?Future>::poll$'), hook_poll))

        def poll_hook(ip_, co, ptr):
            if isinstance(co, Opaque) and co.ty == 'HookFuture':
                if co.tag == 'bb8get':
                    b = co.data.data
                    if b.held:
                        # bb8 lends a connection to one borrower at a time (pool_size 1 here): a second checkout waits
                        env.events.append(('checkout_blocked', b.idx))
                        return EnumV(BV(64, 1), {}, 'Poll')
                    if env.checkout_failures > 0 and ip_.choose(2, 'checkout_times_out') == 1:
                        # bb8 contract: get() fails with RunError::TimedOut when no connection becomes free within connection_timeout
                        env.checkout_failures -= 1
                        env.events.append(('checkout_failed', b.idx, env.client_stream.pos))
                        return EnumV(BV(64, 0), {'Ready': [EnumV(BV(64, 1), {'Err': [EnumV(BV(64, 1), {'TimedOut': []}, 'RunError')]}, 'Result')]}, 'Poll')
                    if b.needs_fresh:
                        b.renew(env)
                    b.checkouts += 1
                    b.held = True
                    env.events.append(('checkout', b.idx, env.is_paused()))
                    conn = Agg([Ptr(b.cell, ())], 'PooledConnection')
                    return EnumV(BV(64, 0), {'Ready': [EnumV(BV(64, 0), {'Ok': [conn]}, 'Result')]}, 'Poll')
                if co.tag == 'ready':
                    return EnumV(BV(64, 0), {'Ready': [co.data]}, 'Poll')
                if co.tag == 'shutdown_recv':
                    if env.take_shutdown():
                        return EnumV(BV(64, 0), {'Ready': [EnumV(BV(64, 0), {'Ok': [unit()]}, 'Result')]}, 'Poll')
                    return EnumV(BV(64, 1), {}, 'Poll')          # no (further) shutdown signal
                if co.tag == 'notified':
                    # tokio contract: a Notified future completes once notify_waiters() is called after its creation
                    if env.notify_gen > co.data:
                        env.events.append(('notified_ready',))
                        return EnumV(BV(64, 0), {'Ready': [unit()]}, 'Poll')
                    env.events.append(('wait_notified',))
                    return EnumV(BV(64, 1), {}, 'Poll')
            raise Inconclusive('poll of %r' % (co,))
        ip.poll_hook = poll_hook

        def drop_hook(ip_, frame, place):
            ty = ip_.place_type(frame, place) or ''
            if 'PooledConnection<' in ty and not ty.startswith('&') and not ty.startswith('*'):
                try:
                    v = ip_.read_place(frame, place)
                except Inconclusive:
                    return
                env.dropped(v)
        ip.drop_hook = drop_hook

    def dropped(self, v):
        if isinstance(v, Agg) and v.ty == 'PooledConnection':
            self.put_back(v.fields[0].cell)
        elif isinstance(v, Agg) or isinstance(v, EnumV):
            fs = v.fields if isinstance(v, Agg) else [f for fs in v.variants.values() for f in fs]
            for f in fs:
                if isinstance(f, (Agg, EnumV)):
                    self.dropped(f)

    def config(self, ip):
        from checks import fromconfig as FC
        if not hasattr(self, '_cfg'):
            self._cfg = FC.base_config(ip, self.prog)
        return self._cfg

    def put_back(self, cell):
        """What bb8 does when a PooledConnection is dropped: ask the manager's has_broken; keep or discard."""
        ip, prog = self.ip, self.prog
        b = [x for x in self.backends if x.cell is cell]
        if not b or not b[0].held:
            return
        b = b[0]
        b.held = False
        hb = [f for n, f in prog.funcs.items() if n.endswith('::has_broken')]
        broken = flag_val(ip, ip.call_function(hb[0], [Ptr(Cell(Opaque('ServerPool', 'mgr'), 'mgr')), Ptr(cell, ())]))
        rec = dict(discarded=bool(broken), truth=b.pg.truth(), sent=len(b.stream.out), client_pos=self.client_stream.pos, session=self.session)
        if broken:
            b.needs_fresh = True
        b.putbacks.append(rec)
        self.events.append(('putback', b.idx, rec['discarded']))

    def adopt(self, b):
        setf(self.prog, b.server, 'Server', 'client_server_map', self.csp)
        setf(self.prog, b.server, 'Server', 'process_id', BV(32, 9000 + b.idx))
        setf(self.prog, b.server, 'Server', 'secret_key', BV(32, 9500 + b.idx))
        for f in getattr(self, 'server_setup', []):
            f(b)

    def next_session(self, client_bytes, boundaries=(), client_over=None):
        """A second client connects after the first one is gone: same pool, same server connections, its own socket, cancel key
        and statement map."""
        ip, prog = self.ip, self.prog
        self.session += 1
        self.session_marks.append((len(self.events), self.clock))
        self.client_bytes = list(client_bytes)
        self.client_stream = StreamV(self.client_bytes, 'client%d' % self.session)
        self.session_streams.append(self.client_stream)
        self.boundaries = {p: k for k, p in enumerate(boundaries)}
        self._seen_reads = set()
        self.client_stream.on_read = self._client_read
        co = dict(read=Agg([self.client_stream], 'BufReader'), write=self.client_stream, client_server_map=self.csp,
                  process_id=BV(32, 7101 + self.session), secret_key=BV(32, 7201 + self.session))
        co.update(client_over or {})
        self.client = mk_client(ip, prog, **co)

    # ------------------------------------------------------------------------------------------ driving
    def run(self, max_polls=6):
        """Poll the handle() future to completion.  Returns ('done', Result) | ('pending', None) | ('panic', msg)."""
        ip, prog = self.ip, self.prog
        # main() calls QueryRouter::setup() once at start-up (compiles the command regexes into their OnceCells)
        ip.call_function(prog.lookup('QueryRouter::setup')[0], [])
        handle = fn(prog, 'Client::handle')
        cp = Ptr(Cell(self.client, 'client'))
        fut = ip.call_function(handle, [cp])
        cell = Cell(fut, 'handle_future')
        self.outcome = None
        try:
            for k in range(max_polls):
                r = ip.poll(Ptr(cell, ()))
                d = r.discr
                if d.concrete and d.v == 0:
                    self.outcome = ('done', variant(ip, r.variants['Ready'][0], 'Result'))
                    break
                self.events.append(('handle_pending', k))
                if self.on_pending is None or not self.on_pending(self, k):
                    self.outcome = ('pending', None)
                    break
            else:
                self.outcome = ('pending', None)
        except Panic as p:
            # unwinding: every live guard is dropped by the landing pads (bb8 consults has_broken)
            self.outcome = ('panic', p.msg)
            for b in self.backends:
                if b.held:
                    self.put_back(b.cell)
        if self.outcome == ('done', 'Err'):
            self.events.append(('stat', 'ClientStats', 'disconnect', 'entrypoint'))     # client_entrypoint: `if result.is_err() { client.stats.disconnect() }`
        if self.outcome[0] in ('done', 'panic'):
            # client_entrypoint drops the Client when handle() is over (also on unwind): <Client as Drop>::drop
            dr = [f for n, f in prog.funcs.items() if re.search(r'client::<impl at [^>]*>::drop$', n)]
            if len(dr) == 1:
                ip.call_function(dr[0], [cp])
                self.events.append(('csmap_final', self.csmap_targets()))
        return self.outcome


# ----------------------------------------------------------------------------------------------- the oracle
POOLER_SQL = re.compile(rb'^(ROLLBACK|;|(RESET ROLE;)(RESET ALL;)?(DEALLOCATE ALL;)?|DISCARD ALL|(SET [A-Za-z_.]+ TO (\'([^\']|\'\')*\'|E\'([^\'\\\\]|\'\'|\\\\.)*\');)+)$')


class Decider:
    """How undecided predicates are settled: on the symbolic side by forking the path (solver), natively by evaluation."""
    def __init__(self, ip=None):
        self.ip = ip

    def __call__(self, cond):
        if isinstance(cond, bool):
            return cond
        if self.ip is None:
            return bool(z3.is_true(z3.simplify(cond)))
        return decide(self.ip, cond)


def same_bytes(dec, a, b):
    if len(a) != len(b):
        return False
    conds = []
    for x, y in zip(a, b):
        if x.concrete and y.concrete:
            if x.v != y.v:
                return False
        else:
            conds.append(x.z() == y.z())
    return True if not conds else dec(z3.And(*conds))


def collect(env, session=None):
    """Observation record of a finished symbolic path (of one client session when several ran on the same environment)."""
    if session is None:
        session = env.session
    reqs = []
    for b in env.backends:
        b.pg.pump()
        for r in [x for _st, pg in b.old for x in pg.requests] + b.pg.requests:
            if r.get('session', 0) != session:
                continue
            reqs.append(dict(g=r['g'], backend=b.idx, bytes=r['bytes'], delivered=r['delivered'], status_after=r.get('status_after'),
                             client_done=r['client_done'], params_before=r.get('params_before'), started_copy=r.get('started_copy', False),
                             died=r.get('died', False)))
    reqs.sort(key=lambda x: x['g'])
    handovers = []
    for b in env.backends:
        for rec in b.putbacks:
            if not rec['discarded'] and rec.get('session', 0) == session:
                t = rec['truth']
                handovers.append(dict(backend=b.idx, status=t['status'], copy_in=t['copy_in'], unread=t['unread'] + t['pending'],
                                      dirty_set=t['dirty_set'], role_set=t['role_set'], sql_prepared=t['sql_prepared'],
                                      named=(z3.Or(*t['named']) if t['named'] else False)))
    lo = env.session_marks[session][0]
    hi = env.session_marks[session + 1][0] if session + 1 < len(env.session_marks) else len(env.events)
    st = env.session_streams[session]
    return dict(reqs=reqs, handovers=handovers, events=list(env.events[lo:hi]), client_out=list(st.out), outcome=env.outcome,
                held_at_end=[b.idx for b in env.backends if b.held], client_read=st.pos, client_write_failed=st.write_failed)


def bvs(h):
    return [BV(8, x) for x in bytes.fromhex(h)]


def collect_native(res, session=0):
    """The same record from the native `handle_script` probe (reference backends in Rust, real sockets, real bb8)."""
    if session == 1:
        reqs = [dict(g=r['g'], backend=r['conn'] // 100, bytes=bvs(r['hex']), delivered=[bvs(d) for d in r['delivered']],
                     status_after=BV(8, r['status_after']), client_done=False,
                     params_before={k: v.encode('latin1') for k, v in r['before'].get('params', {}).items()} or None)
                for r in sorted(res['reqs'], key=lambda x: x['g']) if r['phase'] == 2]
        return dict(reqs=reqs, handovers=[], events=[], client_out=bvs(res.get('b_out', '')), outcome=('pending', None), held_at_end=[], client_read=None)
    reqs, handovers = [], []
    seen_a = set()
    probed = set()
    for r in sorted(res['reqs'], key=lambda x: x['g']):
        if r['phase'] in (1, 3):
            seen_a.add(r['conn'])
            reqs.append(dict(g=r['g'], backend=r['conn'] // 100, bytes=bvs(r['hex']), delivered=[bvs(d) for d in r['delivered']],
                             status_after=BV(8, r['status_after']), client_done=(True if r['phase'] == 3 else None),
                             started_copy=any(d[:2] == '47' for d in r['delivered']),
                             died=(r['hex'][:2] == '51' and b'die' in bytes.fromhex(r['hex']).lower().split()[-1:][0] if bytes.fromhex(r['hex']).split() else False),
                             params_before={k: v.encode('latin1') for k, v in r['before'].get('params', {}).items()} or None))
        elif r['phase'] == 2 and r['conn'] in seen_a and r['conn'] not in probed:
            # the next client got the very same server connection: this is the hand-over
            probed.add(r['conn'])
            t = r['before']
            expect_b = b''.join(bytes.fromhex(d) for d in r['delivered'])
            got_b = bytes.fromhex(res.get('b_out', ''))
            unread = 0 if got_b == expect_b else max(1, abs(len(got_b) - len(expect_b)))
            handovers.append(dict(backend=r['conn'] // 100, status=BV(8, t['status']), copy_in=t['copy_in'], unread=unread,
                                  dirty_set=t['dirty_set'], role_set=t['role_set'], sql_prepared=t['sql_prepared'], named=bool(t['named'])))
    ar = res.get('a_result', '')
    outcome = ('done', 'Ok') if ar == 'ok' else (('done', 'Err') if ar.startswith('err') else (('panic', ar) if ar == 'panic' else ('pending', None)))
    return dict(reqs=reqs, handovers=handovers, events=[], client_out=bvs(res.get('a_out', '')), outcome=outcome, held_at_end=[],
                client_read=None)


def judge(data, script, dec, expect_forward=None, cache_on=False, denied=None, expect_incomplete=False, allow_pooler_replies=False, idle_rule=False, stats_rule=False):
    """The reference model, evaluated on an observation record.  `script`: the complete client messages (lists of BV) the
    client sent before it stopped; `expect_forward`: what the backends must receive for them (default: completed
    batches).  Returns [(property, key, text)]."""
    V = []
    outcome = data['outcome']
    # ---- J1: hand-over cleanliness (C02): ground truth of the reference backend whenever a connection is kept for reuse
    for t in data['handovers']:
        bi = t['backend']
        if not dec(t['status'].z() == ord('I')):
            V.append(('C02', 'H/handover-in-transaction', 'backend %d is kept for reuse while its session is inside a transaction block' % bi))
        if t['copy_in']:
            V.append(('C02', 'H/handover-in-copy', 'backend %d is kept for reuse in COPY IN mode' % bi))
        if t['unread']:
            V.append(('C02', 'H/handover-unread-reply', 'backend %d is kept for reuse with unread reply bytes pending' % bi))
        if t['dirty_set'] or t['role_set'] or t['sql_prepared']:
            V.append(('C02', 'H/handover-session-state', 'backend %d is kept for reuse with session state left by the previous client (SET=%s, ROLE=%s, PREPARE=%s)' % (bi, t['dirty_set'], t['role_set'], t['sql_prepared'])))
        if not cache_on and dec(t['named']):
            V.append(('C02', 'H/handover-named-statement', 'backend %d is kept for reuse with a named protocol statement of the previous client still prepared (statement caching off)' % bi))
    # ---- J5: every checkout is matched by a guard drop once handle() is over (C04); one guard at a time (C01); pause gate (C16)
    if outcome[0] in ('done', 'panic'):
        for bi in data['held_at_end']:
            V.append(('C04', 'H/guard-leak', 'handle() ended (%s) while the guard of backend %d was never dropped' % (outcome[0], bi)))
    if idle_rule:
        # in transaction mode a session that starts reading the client's next message right after a COMPLETED request (Query,
        # Sync, CopyDone/CopyFail) holds no server unless that server is inside a transaction / COPY
        for e in data['events']:
            if e[0] == 'client_read' and e[1] >= 1 and e[2]:
                prev = code_of(script[e[1] - 1]) if e[1] - 1 < len(script) else None
                if prev not in ('Q', 'S', 'c', 'f'):
                    continue
                for bi, st, copy_in, unsynced, unread, after_ready in e[2]:
                    # the backend has answered ReadyForQuery(idle), pgcat has read all of it
                    if after_ready and not unread and not copy_in and not unsynced and dec(st.z() == ord('I')):
                        V.append(('C04', 'H/idle-client-keeps-server', 'after its request %d completed outside a transaction the session still holds the connection of backend %d while it waits for the client' % (e[1] - 1, bi)))
    # ---- shutdown (C17, the client's side): the signal is observed only between transactions (no server held), the client is then
    # told "terminating connection due to administrator command" and the session ends; what it had sent before is served normally
    for e in data['events']:
        if e[0] == 'shutdown':
            outm, _ = split_messages(data['client_out'], 'bytes written to the client')
            last = conc(outm[-1]) if outm else None
            announced = outcome == ('done', 'Ok') and last is not None and last[:1] == b'E' and b'terminating connection due to administrator command' in last
            if e[1] and announced and not any(x[0] == 'client_read' and x[1] > 0 and not x[2] for x in data['events'][data['events'].index(e):]):
                V.append(('C17', 'H/shutdown-interrupts-transaction', 'the shutdown signal ends the session while it holds backend %r (a transaction in progress must be allowed to finish)' % (e[1],)))
            if not announced and outcome[0] != 'panic':
                V.append(('C17', 'H/shutdown-not-announced', 'the shutdown signal was received by this session but it does not end with the administrator-command error (outcome %r, last message %s)' % (outcome, show(outm[-1][:40]) if outm else None)))
    # ---- cancel map (C10): while the session holds a server the client's key maps to exactly that server; once the server is
    # released (transaction mode) or the client is gone, the key maps to nothing
    for e in data['events']:
        if e[0] == 'csmap':
            _, k, held, targets = e
            if not held and targets:
                V.append(('C10', 'H/stale-cancel-key', 'before reading message %d the session holds no server but its cancel key still maps to server process %r' % (k, targets)))
            if held and targets != [9000 + held[0]]:
                V.append(('C10', 'H/cancel-key-wrong-target', 'while the session holds backend %d its cancel key maps to %r' % (held[0], targets)))
        elif e[0] == 'csmap_final' and e[1]:
            V.append(('C10', 'H/stale-cancel-key', 'after the client is gone its cancel key still maps to server process %r' % (e[1],)))
    nheld = 0
    for e in data['events']:
        if e[0] == 'checkout':
            nheld += 1
            if nheld > 1:
                V.append(('C01', 'H/two-guards', 'the client holds two server connections at once'))
            if e[2]:
                V.append(('C16', 'H/checkout-while-paused', 'a server connection is checked out (a new transaction starts) while the pool is paused'))
        elif e[0] == 'putback':
            nheld -= 1
    # ---- J3: what the backends received (C03 upstream, C01 affinity, C19)
    # Every non-pooler message a backend receives must be the client's next message, in order; messages the client sent may be
    # passed over only if a transparent pooler need not forward them (Terminate, Flush, a Sync with nothing buffered, codes
    # that are not frontend messages, COPY sub-protocol messages outside COPY) -- never a query or a buffered batch.
    fw = expect_forward if expect_forward is not None else script
    skippable = skippable_flags(fw, cache_on) if expect_forward is None else [False] * len(fw)
    ei = 0
    client_reqs = []
    pooler_group = False
    stray_used = set()
    for r in data['reqs']:
        m = r['bytes']
        bi = r['backend']
        if denied is not None and denied(m):
            V.append(('C19', 'H/denied-statement-forwarded', 'backend %d received a statement the plugins deny: %s' % (bi, show(m[:60]))))
        j = ei
        hit = None
        while j < len(fw):
            if same_msg(dec, m, fw[j], cache_on):
                hit = j
                break
            if not skippable[j]:
                break
            j += 1
        cm0 = conc(m)
        if cache_on and cm0 is not None and cm0[:1] == b'C' and cm0[5:6] == b'S':
            hit = None      # with caching on the client's own Close of a statement is always answered by the pooler: this one is an eviction
        if hit is not None and not (pooler_group and code_of(m) == 'S'):
            ei = hit + 1
            r['origin'] = 'client'
            client_reqs.append(r)
            pooler_group = False
            continue
        # a COPY sub-protocol message the client sent OUTSIDE a COPY (the server ignores it) may overtake the client's still unsynced
        # extended messages: not a request shape the property speaks of, and nothing the server acts on
        stray = None
        if code_of(m) in 'dcf':
            for k in range(ei, len(fw)):
                if k not in stray_used and skippable[k] and code_of(fw[k]) in 'dcf' and same_bytes(dec, m, fw[k]):
                    stray = k
                    break
        if stray is not None:
            stray_used.add(stray)
            r['origin'] = 'client-stray'
            continue
        cm = conc(m)
        if cm is not None and cm[:1] == b'Q' and POOLER_SQL.match(cm[5:-1]):
            r['origin'] = 'pooler'
            later_client = any(code_of(x['bytes']) in 'QPBDES' and x['g'] > r['g'] and not (conc(x['bytes']) or b'')[:1] == b'Q' or
                               (x['g'] > r['g'] and conc(x['bytes']) is not None and conc(x['bytes'])[:1] == b'Q' and not POOLER_SQL.match(conc(x['bytes'])[5:-1]))
                               for x in data['reqs'])
            mid = (not r['client_done']) if r['client_done'] is not None else later_client
            if cm[5:-1] == b'ROLLBACK' and mid and not any(e[0] == 'idle_timeout' for e in data['events']):
                V.append(('C01', 'H/pooler-rollback-mid-session', 'the pooler rolls the client\'s transaction back on backend %d while the client is still connected' % bi))
            continue
        if cache_on and cm is not None and cm[:1] in (b'P', b'C'):
            r['origin'] = 'pooler'       # statement (re)preparation / eviction on behalf of the cache (documented difference)
            pooler_group = True
            continue
        if cache_on and pooler_group and cm is not None and cm[:1] == b'S':
            r['origin'] = 'pooler'       # ... which the pooler sends as its own Parse/Close + Sync unit and answers to itself
            pooler_group = False
            continue
        V.append(('C03', 'H/backend-received-unexpected', 'backend %d received bytes the client did not send at this point: %s (next expected: %s)' %
                  (bi, show(m[:60]), show(fw[ei][:60]) if ei < len(fw) else 'nothing')))
        r['origin'] = 'unknown'
    # requests that must have been forwarded: everything up to the last forwarding trigger (Query, Sync after buffered messages,
    # CopyDone/CopyFail in COPY) among the messages pgcat actually read before handle() ended
    if outcome[0] != 'panic' and not expect_incomplete:
        nread = len(fw)
        if data.get('client_read') is not None and expect_forward is None:
            nread, acc = 0, 0
            for m in fw:
                acc += len(m)
                if acc <= data['client_read']:
                    nread += 1
        must = must_forward(fw[:nread], cache_on) if expect_forward is None else len(fw)
        if ei < must and not (outcome == ('done', 'Err') and data.get('client_read') is not None and data['client_read'] < sum(len(m) for m in fw)):
            V.append(('C03', 'H/request-not-forwarded', 'the client\'s request %s was never forwarded to a backend (%d of the %d that had to be)' % (show(fw[ei][:60]), ei, must)))
    # affinity: while a client request left its backend inside a transaction, the client's next request must use the same backend
    for r1, r2 in zip(client_reqs, client_reqs[1:]):
        st = r1.get('status_after')
        if st is not None and r1['backend'] != r2['backend'] and not dec(st.z() == ord('I')):
            V.append(('C01', 'H/transaction-split', 'statement %s of an open transaction on backend %d was executed on backend %d' % (show(r2['bytes'][:40]), r1['backend'], r2['backend'])))
    # ---- J4: what the client received (C03 downstream / C01 "every result was produced by its own connection for its own statement")
    if any(r.get('died') for r in data['reqs']):
        # the backend broke in the middle of a reply: that transaction fails; how much of the broken reply the client sees is not specified
        return V
    expected = []
    for r in data['reqs']:
        if r.get('origin') == 'client':
            expected += list(r['delivered'])
    out_msgs, rest = split_messages(data['client_out'], 'bytes written to the client')
    xi = 0
    for m in out_msgs:
        if xi < len(expected) and same_bytes(dec, m, expected[xi]):
            xi += 1
            continue
        code = chr(m[0].v)
        if code in 'EZ' or (code in '13' and cache_on) or (code in 'CTDS' and allow_pooler_replies) or code == 'S':
            # (ParameterStatus may also be produced by the pooler: it tells the client the values in force)
            continue
        V.append(('C03', 'H/client-received-unexpected', 'the client received %s which is not the next reply of its backend (%s)' %
                  (show(m[:40]), show(expected[xi][:40]) if xi < len(expected) else 'none outstanding')))
        if code in 'DTC' and not any(same_bytes(dec, m, x) for x in expected):
            # a result message (row description, row, completion) that no backend produced for any of THIS client's statements
            V.append(('C01', 'H/foreign-result', 'the client received the result message %s which was not produced for any of its own statements' % show(m[:40])))
    if rest:
        V.append(('C03', 'H/client-received-partial', 'a partial message was written to the client: %s' % show(rest[:40])))
    if xi < len(expected) and outcome[0] != 'panic' and not any(e[0] == 'statement_timeout' for e in data['events']) and not data.get('client_write_failed'):
        # (after a statement timeout the pooler answers with its own error instead of the late reply: documented difference)
        V.append(('C03', 'H/reply-not-delivered', 'reply %s to the client\'s own request never reached the client (%d of %d delivered)' % (show(expected[xi][:40]), xi, len(expected))))
    # ---- statistics (C18, the per-session part): the client's reported state follows what it really does, it is unregistered once it
    # is gone however it left, and its transaction / query totals equal what was executed on the servers for it
    stats = [e for e in data['events'] if e[0] in ('stat', 'client_read', 'checkout', 'putback')]
    if stats_rule and any(e[0] == 'stat' for e in stats):
        cstate = None
        ntx = nq = 0
        ndisc = 0
        for e in stats:
            if e[0] == 'stat' and e[1] == 'ClientStats':
                if e[2] in ('idle', 'waiting', 'active'):
                    cstate = e[2]
                elif e[2] == 'register':
                    cstate = 'idle'
                elif e[2] == 'disconnect':
                    ndisc += 1
                elif e[2] == 'transaction':
                    ntx += 1
                elif e[2] == 'query':
                    nq += 1
            elif e[0] == 'client_read' and e[1] >= 1:
                want = 'active' if e[2] else 'idle'
                if cstate != want:
                    V.append(('C18', 'H/client-state', 'while it %s the client is reported as %s (before reading message %d)' %
                              ('holds a server' if e[2] else 'holds no server and waits for the client', cstate, e[1])))
                    break
        # every live server connection is listed with its true state: active while a client holds it, idle once it is back in the
        # pool -- at every point where the session waits for its client, and when the client has gone (however it left)
        sstate = {}
        held_now = set()
        discarded = set()

        def server_states(where):
            for tg, st in sorted(sstate.items()):
                if tg in discarded or tg is None:
                    continue
                if tg[0] not in held_now and st == 'active':
                    V.append(('C18', 'H/server-state', '%s the connection of backend %d is back in the pool but still listed as active' % (where, tg[0])))
                    return True
            return False
        cur_gen = {}
        for e in data['events']:
            if e[0] == 'stat' and e[1] == 'ServerStats' and e[2] in ('idle', 'active') and e[3] is not None:
                sstate[tuple(e[3])] = e[2]
                cur_gen[e[3][0]] = tuple(e[3])
            elif e[0] == 'checkout':
                held_now.add(e[1])
            elif e[0] == 'putback':
                held_now.discard(e[1])
                if e[2] and e[1] in cur_gen:
                    discarded.add(cur_gen[e[1]])        # bb8 dropped the connection: it is no longer listed at all
            elif e[0] == 'client_read' and e[1] >= 1 and not e[2]:
                if server_states('while the session waits for message %d of its client' % e[1]):
                    break
        else:
            if outcome[0] in ('done', 'panic'):
                server_states('after the client has gone (%s)' % (outcome[1] if outcome[0] == 'done' else 'panic'))
        if outcome[0] in ('done', 'panic') and ndisc == 0:
            V.append(('C18', 'H/client-never-unregistered/' + outcome[0], 'the session is over (%s) but the client was never removed from the statistics' % (outcome,)))
        units = [r for r in data['reqs'] if r.get('origin') == 'client' and code_of(r['bytes']) in 'QS']
        # (with statement caching on, which Sync units are the client's and which the pooler's own re-preparations is not decidable
        # from the wire alone: the totals are judged with caching off)
        # (a client that breaks off its own COPY with a message the sub-protocol does not allow gets that message answered by the server's
        # error: whether it counts as a query / transaction "executed" is not something the property settles)
        if outcome[0] == 'done' and not cache_on and not any(e[0] in ('statement_timeout',) for e in data['events']) and not aborts_own_copy(script):
            # (a request whose reply could not be written because the client had vanished may or may not have been counted)
            slack = 1 if data.get('client_write_failed') else 0
            want_q = len(units)
            # a transaction is complete when the backend reports idle after a request -- for COPY FROM STDIN that is the reply to
            # CopyDone / CopyFail, not the CopyInResponse
            ends = [r for r in data['reqs'] if r.get('origin') == 'client' and code_of(r['bytes']) in 'QScf' and not r.get('started_copy')]
            want_tx = sum(1 for r in ends if r['delivered'] and r.get('status_after') is not None and dec(r['status_after'].z() == ord('I')))
            if not (want_q - slack <= nq <= want_q):
                V.append(('C18', 'H/query-total', 'the client\'s query total grew by %d for %d requests executed on the servers' % (nq, want_q)))
            # (a Sync the pooler answers itself -- nothing buffered, or everything cached -- may or may not be counted as a transaction:
            # nothing ran on a server, but the client did complete a protocol-level transaction; both readings are accepted)
            own = sum(1 for m in script if code_of(m) == 'S') - sum(1 for r in units if code_of(r['bytes']) == 'S')
            if not (want_tx - slack <= ntx <= want_tx + max(0, own)):
                V.append(('C18', 'H/transaction-total', 'the client\'s transaction total grew by %d for %d transactions completed on the servers' % (ntx, want_tx)))
    return V


def _after_cstrings(dec, bs, off, n):
    """Index just past the n-th NUL-terminated string starting at `off`; whether a symbolic byte is the terminator is settled
    by the decider (on the symbolic side the path already fixed it: pgcat parsed the same string)."""
    for _ in range(n):
        while off < len(bs):
            b = bs[off]
            off += 1
            if (b.v == 0) if b.concrete else dec(b.z() == 0):
                break
    return off


def same_msg(dec, got, want, cache_on):
    if not cache_on:
        return same_bytes(dec, got, want)
    # statement caching: statement names are rewritten and the length field with them (documented); everything else must be equal
    if not same_bytes(dec, got[:1], want[:1]):
        return False
    code = chr(got[0].v) if got[0].concrete else '?'
    if code == 'P':
        a, b = _after_cstrings(dec, got, 5, 1), _after_cstrings(dec, want, 5, 1)
        return same_bytes(dec, got[a:], want[b:])
    if code == 'B':
        a, b = _after_cstrings(dec, got, 5, 2), _after_cstrings(dec, want, 5, 2)
        pa, pb = _after_cstrings(dec, got, 5, 1), _after_cstrings(dec, want, 5, 1)
        return same_bytes(dec, got[5:pa], want[5:pb]) and same_bytes(dec, got[a:], want[b:])
    if code in 'DC':
        return same_bytes(dec, got[5:6], want[5:6])
    return same_bytes(dec, got, want)


def code_of(m):
    return chr(m[0].v) if m[0].concrete else '?'


def _starts_copy_in(m):
    t = conc(m)
    return t is not None and t[:1] == b'Q' and re.match(rb'^\s*COPY\b.*\bFROM\s+STDIN', t[5:-1], re.I | re.S) is not None


def skippable_flags(script, cache_on=False):
    """Which client messages a transparent pooler may leave unforwarded (see judge).  With statement caching on, Parse of a
    statement the server already has and Close of a named statement are answered by the pooler (documented difference)."""
    out = []
    buffered = 0
    open_batch = []
    copy = False
    copy_data = []
    for i, m in enumerate(script):
        c = code_of(m)
        if copy and c not in 'dcfHS':
            # the client breaks off its own COPY FROM STDIN with a message the sub-protocol does not allow: the server fails the COPY
            # whatever data it got, so CopyData the pooler had not passed on yet may be dropped (hostile orders are C11's subject)
            for j in copy_data:
                out[j] = True
            copy, copy_data = False, []
        if c in 'PBDEC':
            buffered += 1
            open_batch.append(i)
            out.append(cache_on and c in 'PC')
        elif c == 'S':
            out.append(buffered == 0 or cache_on)
            buffered = 0
            open_batch = []
        elif c == 'Q':
            # extended messages not closed by a Sync before a simple Query: pgcat keeps them buffered until the next Sync, i.e.
            # after the Query (like Flush, outside the claim: request shapes end their batches with Sync)
            for j in open_batch:
                out[j] = True
            open_batch = []
            out.append(False)
            copy = _starts_copy_in(m)
        elif c in 'dcf' and copy:
            out.append(False)
            if c == 'd':
                copy_data.append(i)
            if c in 'cf':
                copy, copy_data = False, []
        else:
            # X, H, COPY sub-protocol messages outside COPY IN, codes that are not frontend messages
            out.append(True)
    return out


def aborts_own_copy(script):
    """The client sends, while its COPY FROM STDIN is open, a message the COPY sub-protocol does not allow (anything but CopyData / CopyDone /
    CopyFail / Flush / Sync)."""
    copy = False
    for m in script:
        c = code_of(m)
        if copy and c not in 'dcfHS':
            return True
        if c == 'Q':
            copy = _starts_copy_in(m)
        elif c in 'cf':
            copy = False
    return False


def must_forward(script, cache_on=False):
    """Index (exclusive) up to which the client's messages must have reached a backend: the last forwarding trigger."""
    last = 0
    buffered = 0
    copy = False
    for i, m in enumerate(script):
        c = code_of(m)
        if c == 'Q':
            last = i + 1
            copy = _starts_copy_in(m)
        elif c in 'PBDEC':
            if not (cache_on and c in 'PC'):
                buffered += 1
        elif c == 'S':
            if buffered:
                last = i + 1
            buffered = 0
        elif c in 'cf' and copy:
            last = i + 1
            copy = False
    return last


def default_forward(script):
    return [m for m, sk in zip(script, skippable_flags(script)) if not sk]
