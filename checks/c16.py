#!/usr/bin/env python3-vt
"""C16 -- PAUSE holds new transactions and RESUME releases every one of them (the wake-up race, `ilv`)."""
import os, sys, itertools, re, time
sys.path.insert(0, os.path.dirname(os.path.dirname(os.path.abspath(__file__))))
import z3
from harness.common import run_check, expectation
from checks.serverfam import *
from checks.c07 import mk_pool, mk_addr
from native import oracle
from checks import hobl


# ------------------------------------------------------------------------------------------------ action traces from MIR
def extract_traces(chk, prog, fname, is_async):
    """Run the real MIR of `fname` with recording models for Notify / AtomicBool: every path yields the ORDER of its
    shared-memory actions.  Returns list of traces; a trace is a list of action tuples."""
    f = fn(prog, 'ConnectionPool::' + fname)
    ip = chk.interp(prog, 'trace-' + fname)
    install_stats_noops(ip)
    traces = []

    def rec(ip_, a):
        ip_.env.setdefault('trace', []).append(a)

    def m_notified(c, n):
        rec(c.ip, ('notified',))
        return Opaque('Notified', 'notified')

    def m_notify_waiters(c, n):
        rec(c.ip, ('notify_waiters',))
        return unit()

    def m_notify_one(c, n):
        rec(c.ip, ('notify_one',))
        return unit()

    def m_load(c, p, order):
        v = c.ip.fresh(1, 'loaded')
        rec(c.ip, ('load', v))
        return v

    def m_store(c, p, v, order):
        if not v.concrete:
            raise Inconclusive('store of a non-constant to the pause flag')
        rec(c.ip, ('store', bool(v.v)))
        return unit()

    def m_notified_poll(c, pin, cx):
        rec(c.ip, ('await',))
        return EnumV(BV(64, 0), {'Ready': [unit()]}, 'Poll')
    ip.overrides += [
        (re.compile(r'^(?:tokio::sync::)?Notify::notified$'), m_notified),
        (re.compile(r'^(?:tokio::sync::)?Notify::notify_waiters$'), m_notify_waiters),
        (re.compile(r'^(?:tokio::sync::)?Notify::notify_one$'), m_notify_one),
        (re.compile(r'^(?:std::sync::atomic::)?AtomicBool::load$'), m_load),
        (re.compile(r'^(?:std::sync::atomic::)?AtomicBool::store$'), m_store),
        (re.compile(r'^<(?:tokio::sync::(?:notify::)?)?Notified<.*> as (?:futures::|std::future::)?Future>::poll$'), m_notified_poll),
    ]

    def harness(ip_):
        pool, ps = mk_pool(ip_, prog, [[mk_addr(ip_, prog, 0, 1)]], [MapV('hashmap')])
        r = ip_.call_function(f, [Ptr(Cell(pool, 'pool'))])
        if is_async:
            r = ip_.drive(r)
        tr = list(ip_.env.get('trace', []))
        # resolve the value of each load on this path
        out = []
        for a in tr:
            if a[0] == 'load':
                out.append(('load', ip_.branch(a[1].v == 1, 'loaded')))
            else:
                out.append(a)
        ret = None
        if isinstance(r, BV):
            ret = flag_val(ip_, r)
        traces.append((out, ret))
    ip.explore(harness)
    chk.functions.update(ip.stats.functions)
    return traces


def waiter_program(traces):
    """wait_paused as a tiny program: straight-line prefix, then `await` iff the loaded flag was true."""
    t_true = [t for t, r in traces if any(a == ('load', True) for a in t)]
    t_false = [t for t, r in traces if any(a == ('load', False) for a in t)]
    if len(t_true) != 1 or len(t_false) != 1:
        raise Inconclusive('wait_paused does not have the expected shape (one load of the pause flag deciding one await): %r' % (traces,))
    a, b = t_true[0], t_false[0]
    kinds_a = [x[0] for x in a]
    kinds_b = [x[0] for x in b]
    if 'await' in kinds_b:
        raise Inconclusive('wait_paused awaits although the flag was false')
    if 'await' not in kinds_a:
        return [x[0] for x in b], None          # never waits
    i = kinds_a.index('await')
    if kinds_a[:i] + kinds_a[i + 1:] != kinds_b:
        # the Notified future may be created on the waiting path only (after the load): creating it on the other path as well changes
        # nothing another thread can see (the snapshot is private and never awaited), so the waiting path stands for both
        li = kinds_a.index('load')
        rest_a = [k for k in kinds_a[li + 1:] if k not in ('notified', 'await')]
        rest_b = [k for k in kinds_b[li + 1:] if k != 'notified']
        if kinds_a[:li + 1] != kinds_b[:li + 1] or rest_a != rest_b:
            raise Inconclusive('wait_paused paths differ in more than the await: %r vs %r' % (kinds_a, kinds_b))
    return kinds_a, i


def admin_program(traces, name):
    if len(traces) != 1:
        raise Inconclusive('%s has %d paths' % (name, len(traces)))
    return [a for a in traces[0][0]]


# ------------------------------------------------------------------------------------------------ bounded model check over symbolic schedules
def bmc(wprog, await_idx, pause_prog, resume_prog, nwaiters, ncmds, K, timeout_ms, cooperative=False, goal='lost-wakeup'):
    """goal 'lost-wakeup': is there a schedule (<= K steps) after which a waiter is parked forever although the pool is not paused?
    goal 'gate': is there a schedule in which a waiter that READ paused == true gets past its await while the pool is paused and no RESUME has
    notified anyone since it looked (it can only have consumed a stale permit)?"""
    s = z3.Solver()
    s.set('timeout', timeout_ms)
    W = range(nwaiters)
    T = range(K + 1)
    P = [z3.Bool('P_%d' % t) for t in T]
    G = [z3.Int('G_%d' % t) for t in T]
    permit = [z3.Bool('permit_%d' % t) for t in T]
    pc = [[z3.Int('pc_%d_%d' % (w, t)) for t in T] for w in W]
    snap = [[z3.Int('snap_%d_%d' % (w, t)) for t in T] for w in W]
    loaded = [[z3.Bool('loaded_%d_%d' % (w, t)) for t in T] for w in W]
    parked = [[z3.Bool('parked_%d_%d' % (w, t)) for t in T] for w in W]
    woken = [[z3.Bool('woken_%d_%d' % (w, t)) for t in T] for w in W]
    apc = [z3.Int('apc_%d' % t) for t in T]
    cmd = [z3.Bool('cmd_is_resume_%d' % j) for j in range(ncmds)]
    sched = [z3.Int('sched_%d' % t) for t in range(K)]
    pick = [z3.Int('pick_%d' % t) for t in range(K)]        # which parked waiter a notify_one wakes
    # admin program flattened: per command the longer of the two programs; shorter one padded with 'nop'
    L = max(len(pause_prog), len(resume_prog))

    def admin_instr(j, k):
        pa = pause_prog[k] if k < len(pause_prog) else ('nop',)
        ra = resume_prog[k] if k < len(resume_prog) else ('nop',)
        return pa, ra
    ADMIN_END = ncmds * L
    n = len(wprog)
    # initial state
    s.add(z3.Not(P[0]), G[0] == 0, z3.Not(permit[0]), apc[0] == 0)
    gl = [[z3.Int('gl_%d_%d' % (w, t)) for t in T] for w in W]          # the notify_waiters generation when the waiter read the flag
    gate = [z3.Bool('gate_%d' % t) for t in T]
    s.add(z3.Not(gate[0]))
    load_idx = wprog.index('load') if 'load' in wprog else -7
    for t in range(K):
        passes = []
        for w in W:
            s.add(gl[w][t + 1] == z3.If(z3.And(sched[t] == w, pc[w][t] == load_idx), G[t], gl[w][t]))
            if await_idx is not None:
                can_ = z3.Or(z3.And(snap[w][t] >= 0, G[t] != snap[w][t]), permit[t], woken[w][t])
                passes.append(z3.And(sched[t] == w, pc[w][t] == await_idx, loaded[w][t], can_, P[t], G[t] == gl[w][t]))
        s.add(gate[t + 1] == z3.Or(gate[t], *passes))
    for w in W:
        s.add(gl[w][0] == -1)
    for w in W:
        s.add(pc[w][0] == 0, snap[w][0] == -1, z3.Not(loaded[w][0]), z3.Not(parked[w][0]), z3.Not(woken[w][0]))
    for t in range(K):
        s.add(sched[t] >= 0, sched[t] <= nwaiters)
        s.add(pick[t] >= 0, pick[t] < max(1, nwaiters))
        cases = []
        # ---- waiter steps
        for w in W:
            same_others = []
            for v in W:
                if v != w:
                    same_others += [pc[v][t + 1] == pc[v][t], snap[v][t + 1] == snap[v][t], loaded[v][t + 1] == loaded[v][t],
                                    parked[v][t + 1] == parked[v][t], woken[v][t + 1] == woken[v][t]]
            for i, ins in enumerate(wprog):
                g = [sched[t] == w, pc[w][t] == i]
                eff = [P[t + 1] == P[t], G[t + 1] == G[t], apc[t + 1] == apc[t]] + same_others
                keep = lambda *names: [x for nm, x in (('snap', snap[w][t + 1] == snap[w][t]), ('loaded', loaded[w][t + 1] == loaded[w][t]),
                                                        ('parked', parked[w][t + 1] == parked[w][t]), ('woken', woken[w][t + 1] == woken[w][t]),
                                                        ('permit', permit[t + 1] == permit[t])) if nm in names]
                if ins == 'notified':
                    eff += [snap[w][t + 1] == G[t], pc[w][t + 1] == i + 1] + keep('loaded', 'parked', 'woken', 'permit')
                elif ins == 'load':
                    eff += [loaded[w][t + 1] == P[t], pc[w][t + 1] == i + 1] + keep('snap', 'parked', 'woken', 'permit')
                elif ins == 'await':
                    can = z3.Or(z3.And(snap[w][t] >= 0, G[t] != snap[w][t]), permit[t], woken[w][t])
                    # creation of the Notified future is what registers it: awaiting one that was never created cannot complete
                    skip = z3.Not(loaded[w][t])
                    eff += [z3.If(skip, z3.And(pc[w][t + 1] == i + 1, parked[w][t + 1] == parked[w][t], permit[t + 1] == permit[t]),
                                  z3.If(can, z3.And(pc[w][t + 1] == i + 1, z3.Not(parked[w][t + 1]),
                                                    permit[t + 1] == z3.And(permit[t], z3.Or(woken[w][t], z3.And(snap[w][t] >= 0, G[t] != snap[w][t])))),
                                        z3.And(pc[w][t + 1] == i, parked[w][t + 1], permit[t + 1] == permit[t])))]
                    eff += keep('snap', 'loaded', 'woken')
                else:
                    raise Inconclusive('unexpected action %r in wait_paused' % (ins,))
                cases.append(z3.And(*(g + eff)))
            # finished waiter: stutter
            cases.append(z3.And(sched[t] == w, pc[w][t] == n, P[t + 1] == P[t], G[t + 1] == G[t], permit[t + 1] == permit[t], apc[t + 1] == apc[t],
                                pc[w][t + 1] == n, snap[w][t + 1] == snap[w][t], loaded[w][t + 1] == loaded[w][t], parked[w][t + 1] == parked[w][t],
                                woken[w][t + 1] == woken[w][t], *same_others))
        # ---- admin steps
        allw_same = []
        for v in W:
            allw_same += [pc[v][t + 1] == pc[v][t], snap[v][t + 1] == snap[v][t], loaded[v][t + 1] == loaded[v][t], parked[v][t + 1] == parked[v][t]]
        woken_same = [woken[v][t + 1] == woken[v][t] for v in W]
        for j in range(ncmds):
            for k in range(L):
                pa, ra = admin_instr(j, k)
                for is_res, ins in ((False, pa), (True, ra)):
                    g = [sched[t] == nwaiters, apc[t] == j * L + k, cmd[j] == is_res]
                    eff = [apc[t + 1] == apc[t] + 1] + allw_same
                    if ins[0] == 'store':
                        eff += [P[t + 1] == ins[1], G[t + 1] == G[t], permit[t + 1] == permit[t]] + woken_same
                    elif ins[0] == 'notify_waiters':
                        eff += [P[t + 1] == P[t], G[t + 1] == G[t] + 1, permit[t + 1] == permit[t]] + woken_same
                    elif ins[0] == 'notify_one':
                        anyp = z3.Or(*[z3.And(parked[v][t], z3.Not(woken[v][t])) for v in W]) if nwaiters else z3.BoolVal(False)
                        wk = []
                        for v in W:
                            wk.append(woken[v][t + 1] == z3.Or(woken[v][t], z3.And(anyp, pick[t] == v, parked[v][t], z3.Not(woken[v][t]))))
                        valid_pick = z3.Or(z3.Not(anyp), *[z3.And(pick[t] == v, parked[v][t], z3.Not(woken[v][t])) for v in W])
                        eff += [P[t + 1] == P[t], G[t + 1] == G[t], permit[t + 1] == z3.Or(permit[t], z3.Not(anyp)), valid_pick] + wk
                    elif ins[0] == 'nop':
                        eff += [P[t + 1] == P[t], G[t + 1] == G[t], permit[t + 1] == permit[t]] + woken_same
                    else:
                        raise Inconclusive('unexpected admin action %r' % (ins,))
                    cases.append(z3.And(*(g + eff)))
        cases.append(z3.And(sched[t] == nwaiters, apc[t] == ADMIN_END, apc[t + 1] == apc[t], P[t + 1] == P[t], G[t + 1] == G[t], permit[t + 1] == permit[t],
                            *(allw_same + woken_same)))
        s.add(z3.Or(*cases))
    if cooperative:
        # only preempt a waiter at an await that returned Pending (what hand-polled futures can reproduce deterministically)
        for t in range(K - 1):
            for w in W:
                s.add(z3.Implies(z3.And(pc[w][t + 1] > 0, pc[w][t + 1] < n, z3.Not(parked[w][t + 1])), sched[t + 1] == w))
    # ---- bad final state: admin finished, pool not paused, some waiter parked on an await it can never complete
    bad = []
    for w in W:
        if await_idx is None:
            continue
        stuck = z3.And(pc[w][K] == await_idx, loaded[w][K], parked[w][K],
                       z3.Not(z3.Or(z3.And(snap[w][K] >= 0, G[K] != snap[w][K]), permit[K], woken[w][K])))
        bad.append(stuck)
    if goal == 'gate':
        s.add(gate[K])
    elif not bad:
        return 'unsat', None, s
    else:
        s.add(apc[K] == ADMIN_END, z3.Not(P[K]), z3.Or(*bad))
    r = s.check()
    if r == z3.sat:
        m = s.model()
        sch = [m.eval(sched[t], True).as_long() for t in range(K)]
        cmds = ['resume' if z3.is_true(m.eval(c, True)) else 'pause' for c in cmd]
        # human-readable schedule
        steps = []
        for t in range(K):
            who = sch[t]
            if who == nwaiters:
                a = m.eval(apc[t], True).as_long()
                if a < ADMIN_END:
                    j, k = divmod(a, L)
                    pa, ra = admin_instr(j, k)
                    ins = ra if cmds[j] == 'resume' else pa
                    if ins[0] != 'nop':
                        steps.append('admin: %s.%s' % (cmds[j], ' '.join(map(str, ins))))
            else:
                i = m.eval(pc[who][t], True).as_long()
                if i < n:
                    steps.append('waiter%d: %s' % (who, wprog[i]))
        return 'sat', {'commands': cmds, 'schedule': steps}, s
    return ('unsat' if r == z3.unsat else 'unknown'), None, s


def coarse_script(wprog, cex, nwaiters):
    """Turn a counterexample into a cooperative script (poll / pause / resume) when every preemption is at an await."""
    script = []
    started = set()
    for st in cex['schedule']:
        who, what = st.split(': ', 1)
        if who == 'admin':
            if what.endswith('store True') or what.endswith('store False'):
                script.append(what.split('.')[0])
            continue
        w = int(who[len('waiter'):])
        if w not in started:
            started.add(w)
            script.append('poll%d' % w)
        elif what == 'await':
            script.append('poll%d' % w)
    # collapse duplicates of pause/resume produced by multi-action commands
    out = []
    for x in script:
        if not out or out[-1] != x or x.startswith('poll'):
            out.append(x)
    return out


@expectation('c16_script')
def c16_script(nwaiters):
    def f(res):
        r = res[0]
        if 'panic' in r or 'error' in r:
            return ('panic' in r), 'native: %r' % (r,)
        stuck = [i for i, d in enumerate(r['done']) if not d]
        return (bool(stuck) and not r['paused'], 'after the script the pool is %s and waiter(s) %r are still blocked (final polls: %r)'
                % ('paused' if r['paused'] else 'NOT paused', stuck, r['done']))
    return f


@expectation('c16_gate')
def c16_gate():
    def f(res):
        r = res[0]
        if 'panic' in r or 'error' in r:
            return ('panic' in r), 'native: %r' % (r,)
        passed = [i for i, d in enumerate(r['done']) if d]
        return (bool(passed) and r['paused'], 'after the script the pool is %s and waiter(s) %r got past wait_paused (final polls: %r)' %
                ('PAUSED' if r['paused'] else 'not paused', passed, r['done']))
    return f


@expectation('c16_stress')
def c16_stress():
    """Replay with real OS threads released together and swept start offsets (RESUME lands at every point of the waiter's poll)."""
    def f(res):
        r = res[0]
        if 'panic' in r or 'error' in r:
            return ('panic' in r), 'native: %r' % (r,)
        return (r['stuck'] > 0, 'real-thread race: %d waiter(s) stayed blocked after RESUME completed (%r)' % (r['stuck'], r.get('example')))
    return f


def main(chk):
    chk.explanation = (
        'Solver-based checking of the PAUSE/RESUME wake-up race: the ORDER of shared-memory actions of ConnectionPool::wait_paused, pause and '
        'resume is extracted from the MIR of this build (recording models for tokio::sync::Notify and AtomicBool), the semantics of those '
        'actions are axiomatised from the Tokio documentation (notified() registers at creation by snapshotting the notify_waiters generation; '
        'a poll completes iff the generation moved, a permit exists or notify_one picked it), and z3 decides, over a SYMBOLIC SCHEDULE of '
        'all interleavings (<= 2 waiters, <= 2 admin commands chosen by the solver, bounded steps), whether a waiter can be parked forever '
        'while the pool is not paused, or get past the gate on a stale Notify permit while it IS paused and no RESUME has notified since the waiter looked. '
        '(O3) ConnectionPool::from_config replacing a PAUSED pool: the replacement shares the old pool\'s pause flag and Notify (or wakes its waiters), so that a later '
        'RESUME reaches the clients parked on the old object. (O4) THE ADMIN CONSOLE: admin::handle_admin from MIR on PAUSE / RESUME (all pools, one pool by "db,user", an unknown pool, a malformed argument) over two registered pools: exactly the named '
        'pools change state, RESUME notifies exactly the pools it resumes, commands naming no pool are answered with an error. (H) the gate\'s position in Client::handle, transaction and session mode.')
    chk.assumptions += [
        'Tokio Notify semantics as documented (and as read in tokio 1.29.1 sync/notify.rs); AtomicBool accesses sequentially consistent on one location',
        'the bounded model check (O2) abstracts the admin commands to pause()/resume() on one pool; which pools a command names is decided by O4, the gate\'s call site by the handle family',
        'bounds: <= 2 waiters each calling wait_paused once, <= 2 admin commands, schedules of <= 14 (18 thorough) steps',
    ]
    prog = chk.program('on')
    ob = chk.begin('O1-traces', 'action order of wait_paused / pause / resume read from MIR', {})
    wtr = extract_traces(chk, prog, 'wait_paused', True)
    ptr_ = extract_traces(chk, prog, 'pause', False)
    rtr = extract_traces(chk, prog, 'resume', False)
    wprog, await_idx = waiter_program(wtr)
    pause_prog = admin_program(ptr_, 'pause')
    resume_prog = admin_program(rtr, 'resume')
    ob.samples.append({'wait_paused': wprog, 'await_index': await_idx, 'pause': [list(map(str, a)) for a in pause_prog],
                       'resume': [list(map(str, a)) for a in resume_prog]})
    ob.nontrivial += 3
    # wait_paused must report the flag it read and not wait when the pool is not paused
    for t, r in wtr:
        ld = [a for a in t if a[0] == 'load']
        if ld and r is not None and r != ld[0][1]:
            chk.report(ob, 'C16/O1/return-value', 'wait_paused returns %s after reading paused=%s' % (r, ld[0][1]), {},
                       {'commands': [{'op': 'pause_script', 'waiters': 1, 'script': ['poll0']}], 'expect': ['c16_script', 1]})
    chk.end(ob)
    for nw, nc in ((1, 1), (1, 2), (2, 2)) + (((2, 3),) if chk.thorough else ()):
        K = (len(wprog) + 1) * nw + nc * max(len(pause_prog), len(resume_prog)) + (4 if not chk.thorough else 8)
        ob = chk.begin('O2-bmc-%dwaiters-%dcommands' % (nw, nc), 'no interleaving of %d waiter(s) in wait_paused with %d admin command(s) (each PAUSE or '
                       'RESUME, chosen by the solver) leaves a waiter parked while the pool is not paused' % (nw, nc),
                       {'waiters': nw, 'admin_commands': nc, 'steps': K})
        t0 = time.time()
        r, cex, s = bmc(wprog, await_idx, pause_prog, resume_prog, nw, nc, K, chk.timeout_ms)
        ob.stats.queries += 1
        ob.stats.solver_s += time.time() - t0
        ob.nontrivial += 1
        if r == 'unknown':
            ob.stats.unknown += 1
            chk.note_inconclusive('BMC query returned unknown')
        elif r == 'unsat':
            ob.stats.unsat += 1
        else:
            ob.stats.sat += 1
            # prefer a counterexample that preempts only at awaits: it can be replayed deterministically by polling by hand
            r2, cex2, _ = bmc(wprog, await_idx, pause_prog, resume_prog, nw, nc, K, chk.timeout_ms, cooperative=True)
            ob.stats.queries += 1
            if r2 == 'sat':
                script = coarse_script(wprog, cex2, nw)
                chk.report(ob, 'C16/O2/lost-wakeup', 'a client can stay blocked in wait_paused although the pool is not paused: admin %r, schedule %r'
                           % (cex2['commands'], cex2['schedule']), cex2,
                           {'commands': [{'op': 'pause_script', 'waiters': nw, 'script': script}], 'expect': ['c16_script', nw]})
            else:
                chk.report(ob, 'C16/O2/lost-wakeup', 'a client can stay blocked in wait_paused although the pool is not paused (needs a preemption '
                           'inside wait_paused): admin %r, schedule %r' % (cex['commands'], cex['schedule']), cex,
                           {'commands': [{'op': 'pause_stress', 'iters': 400000}], 'expect': ['c16_stress']})
        ob.samples.append({'result': r})
        # vacuity witness: a waiter CAN be parked while the pool is paused (the bad-state shape is reachable when P is true)
        chk.end(ob)
    # the other half: nobody gets past the gate on a stale permit while the pool is paused
    for nw, nc in ((1, 2), (1, 3)) + (((2, 3),) if chk.thorough else ()):
        K = (len(wprog) + 1) * nw + nc * max(len(pause_prog), len(resume_prog)) + 2
        ob = chk.begin('O2-gate-%dwaiters-%dcommands' % (nw, nc), 'no interleaving of %d waiter(s) with %d admin command(s) lets a waiter that read paused == true get past its '
                       'await while the pool is paused and no RESUME has notified anyone since it looked (tokio: notify_one with nobody waiting stores a permit that the '
                       'next notified().await consumes)' % (nw, nc), {'waiters': nw, 'admin_commands': nc, 'steps': K})
        t0 = time.time()
        r, cex, s = bmc(wprog, await_idx, pause_prog, resume_prog, nw, nc, K, chk.timeout_ms, cooperative=True, goal='gate')
        ob.stats.queries += 1
        ob.stats.solver_s += time.time() - t0
        ob.nontrivial += 1
        if r == 'unknown':
            ob.stats.unknown += 1
            chk.note_inconclusive('BMC gate query returned unknown')
        elif r == 'unsat':
            ob.stats.unsat += 1
        else:
            ob.stats.sat += 1
            script = coarse_script(wprog, cex, nw)
            chk.report(ob, 'C16/O2/gate-passed-while-paused', 'a client gets past wait_paused while the pool is paused (a stale Notify permit): admin %r, schedule %r'
                       % (cex['commands'], cex['schedule']), cex, {'commands': [{'op': 'pause_script', 'waiters': nw, 'script': script, 'gate': True}], 'expect': ['c16_gate']})
        ob.samples.append({'result': r})
        chk.end(ob)
    # reachability witness for the encoding: with admin = [pause] a waiter can be parked (pool paused)
    ob = chk.begin('O2-witness', 'vacuity witness: a waiter parked while the pool IS paused is reachable in the same encoding', {})
    sat = witness_parked(wprog, await_idx, pause_prog, resume_prog, chk.timeout_ms)
    ob.stats.queries += 1
    if sat:
        ob.stats.sat += 1
        ob.witnesses.append('waiter parked with paused == true reachable')
    else:
        ob.status = 'vacuous'
    chk.end(ob)
    try:
        o3_reload_paused(chk, prog)
    except Inconclusive as e:
        chk.note_inconclusive('O3-reload-paused: %s' % e)
    try:
        o4_admin(chk, prog)
    except Inconclusive as e:
        chk.note_inconclusive('O4-admin-pause-resume: %s' % e)
    # the gate's position in the client loop: executed Client::handle sessions with PAUSE / RESUME arriving while the client is idle
    hobl.handle_obligations(chk, prog, {'C16'}, ['pause'])


@expectation('c16_reload_paused')
def c16_reload_paused():
    def f(res):
        r = res[0]
        if 'panic' in r or 'error' in r:
            return ('panic' in r), 'native: %r' % (r,)
        return (r.get('released_after_resume') is False, 'native: a client parked in wait_paused, then a RELOAD that re-creates the pool, then RESUME of every pool: the client is %s (%r)' %
                ('STILL parked' if r.get('released_after_resume') is False else 'released', r))
    return f


@expectation('c16_admin')
def c16_admin():
    """Native: the real handle_admin on PAUSE / RESUME commands over two registered pools: which pools are paused afterwards."""
    def f(res):
        for r in res:
            if 'error' in r or 'panic' in r:
                return False, 'native: %r' % (r,)
            if r.get('paused_after') != r.get('want'):
                return True, 'native: after %r the pools (db1/u1, db2/u2) are paused: %r, required %r' % (r.get('commands'), r.get('paused_after'), r.get('want'))
        return False, 'native: %r' % (res,)
    return f


ADMIN_CASES = [
    # (commands, paused before, paused after (db1/u1, db2/u2), pools whose Notify the LAST command must wake)
    (['PAUSE'], (False, False), (True, True), ()),
    (['pause;'], (False, False), (True, True), ()),
    (['PAUSE db1,u1'], (False, False), (True, False), ()),
    (['PAUSE db2,u2'], (False, True), (False, True), ()),
    (['PAUSE nodb,u1'], (False, False), (False, False), (), True),
    (['PAUSE db1'], (False, False), (False, False), (), True),
    (['RESUME'], (True, True), (False, False), (0, 1)),
    (['RESUME db2,u2'], (True, True), (True, False), (1,)),
    (['resume db1,u1;'], (True, False), (False, False), (0,)),
    (['RESUME db1,u2'], (True, True), (True, True), (), True),
]


def o4_admin(chk, prog):
    """The admin console's PAUSE / RESUME: which pools handle_admin pauses, resumes and wakes."""
    from checks import fromconfig as FC
    from mirsym.models.util import ok
    ob = chk.begin('O4-admin-pause-resume', 'admin::handle_admin (real coroutine) on PAUSE / RESUME commands (all pools, one pool by "db,user", an unknown pool, a malformed argument) over two '
                   'registered pools: exactly the named pools change their paused flag; RESUME calls notify_waiters on the Notify of exactly the pools it resumes (that is what '
                   'releases the clients parked there, O1/O2); a command naming no pool changes nothing and is answered with an error', {'cases': len(ADMIN_CASES)})
    ha = prog.funcs.get('handle_admin')
    if ha is None:
        raise Inconclusive('cannot locate admin::handle_admin')
    ip = chk.interp(prog, 'O4-admin-pause-resume')
    install_stats_noops(ip)
    base = list(ip.overrides)

    def harness(ip_):
        ip_.overrides[:] = base
        k = ip_.choose(len(ADMIN_CASES), 'admin_case')
        case = ADMIN_CASES[k]
        cmds, before, after, wake = case[:4]
        want_err = len(case) > 4 and case[4]
        pools = []
        m = FC.current_pools(ip_)
        names = prog.src.structs['PoolIdentifier']
        for i, (db, us) in enumerate((('db1', 'u1'), ('db2', 'u2'))):
            cp, _ = mk_pool(ip_, prog, [[mk_addr(ip_, prog, i, 1)]], [MapV('hashmap')])
            deref(ip_, getf(prog, cp, 'ConnectionPool', 'paused')).fields[0] = BV(1, int(before[i]))
            setf(prog, cp, 'ConnectionPool', 'paused_waiter', Ptr(Cell(Opaque('Notify', 'notify%d' % i), 'notify%d' % i)))
            vals = {'db': rstring(db), 'user': rstring(us)}
            m.entries.append([Agg([vals[n] for n in names], 'PoolIdentifier', list(names)), Cell(cp, 'pool%d' % i)])
            pools.append(cp)
        woken = []

        def m_notify_waiters(c, n):
            v = deref(ip_, n) if isinstance(n, Ptr) else n
            woken.append(v.tag if isinstance(v, Opaque) else repr(v))
            return unit()
        ip_.overrides.insert(0, (re.compile(r'^(?:tokio::sync::)?Notify::notify_waiters$'), m_notify_waiters))
        st = StreamV([], 'admin_client')
        csm = Ptr(Cell(Agg([MapV('hashmap')], 'Lock'), 'csmap'))
        try:
            for q in cmds:
                qb = q.encode()
                body = [BV(8, x) for x in b'Q' + (len(qb) + 5).to_bytes(4, 'big') + qb + b'\0']
                ip_.drive(ip_.call_function(ha, [Ptr(Cell(st, 'stream')), Seq(body, 'bytesmut'), csm]))
        except Panic as p:
            raise Inconclusive('handle_admin panic: ' + p.msg)
        ob.nontrivial += 1
        got = tuple(bool(flag_val(ip_, deref(ip_, getf(prog, cp, 'ConnectionPool', 'paused')).fields[0])) for cp in pools)
        what = None
        if got != after:
            what = 'after %r (pools paused before: %r) the pools are paused: %r, required %r' % (cmds, before, got, after)
        elif sorted(woken) != sorted('notify%d' % i for i in wake):
            what = 'after %r the waiters of %r were woken, required: those of %r -- clients parked on a resumed pool that is not notified stay parked' % (cmds, sorted(woken), ['notify%d' % i for i in wake])
        else:
            out = bytes(b.v for b in st.out if b.concrete)
            if want_err and out[:1] != b'E':
                what = 'the command %r names no registered pool (or is malformed) and is not answered with an error' % (cmds,)
            elif not want_err and (out[:1] != b'C' or not out.endswith(b'Z\x00\x00\x00\x05I')):
                what = 'the command %r is not answered with CommandComplete + ReadyForQuery' % (cmds,)
        if what:
            chk.report(ob, 'C16/O4/admin-pause-resume', 'admin console: ' + what, {'commands': cmds},
                       {'commands': [{'op': 'admin_pause_resume', 'commands': cmds, 'before': list(before), 'want': list(after)}], 'expect': ['c16_admin']})
        if len(ob.samples) < 3:
            ob.samples.append({'commands': cmds, 'paused_after': list(got), 'woken': list(woken)})
    ip.explore(harness)
    chk.absorb(ob, ip)
    chk.end(ob)


def o3_reload_paused(chk, prog):
    """A RELOAD that re-creates a pool (its definition changed) while the pool is paused: the clients parked on the OLD pool object must still be reached
    by a later RESUME (which walks the NEW pool map) -- so the replacement either shares the old pool's pause flag and Notify, or wakes the old
    pool's waiters."""
    from checks import fromconfig as FC
    ob = chk.begin('O3-reload-paused', 'ConnectionPool::from_config (real coroutine, nothing connected) replacing a pool whose definition hash differs, the old pool object '
                   'being PAUSED: afterwards a RESUME issued on the new pool map reaches the clients parked on the old object (the new pool shares the old '
                   'one\'s paused flag and Notify) or from_config itself has woken them (notify_waiters on the old Notify)', {})
    ip = chk.interp(prog, 'O3-reload-paused')
    install_stats_noops(ip)

    def harness(ip_):
        cfg = FC.base_config(ip_, prog)
        srv = [FC.mk_srvcfg(ip_, prog, rstring('h'), BV(16, 5432), BV(64, 1))]
        pool = FC.mk_pool_cfg(ip_, prog, [('0', srv, None)])
        pm = MapV('hashmap')
        pm.entries.append([rstring('db'), Cell(pool, 'pool')])
        setf(prog, cfg, 'Config', 'pools', pm)
        FC.install(ip_, cfg)
        old_hash = ip_.fresh(64, 'old_hash')
        old_db, _ = mk_pool(ip_, prog, [[mk_addr(ip_, prog, 0, 1)]], [MapV('hashmap')])
        setf(prog, old_db, 'ConnectionPool', 'config_hash', old_hash)
        old_paused = getf(prog, old_db, 'ConnectionPool', 'paused')
        deref(ip_, old_paused).fields[0] = BV(1, 1)
        old_notify = getf(prog, old_db, 'ConnectionPool', 'paused_waiter')
        woken = []

        def m_notify_waiters(c, n):
            woken.append(n)
            return unit()
        ip_.overrides.append((re.compile(r'^(?:tokio::sync::)?Notify::notify_waiters$'), m_notify_waiters))
        m = FC.current_pools(ip_)
        names = prog.src.structs['PoolIdentifier']
        vals = {'db': rstring('db'), 'user': rstring('u')}
        m.entries.append([Agg([vals[n] for n in names], 'PoolIdentifier', list(names)), Cell(old_db, 'old_db')])
        try:
            FC.run_from_config(ip_, prog)
        except Panic as p:
            raise Inconclusive('from_config panic: ' + p.msg)
        ob.nontrivial += 1
        ents = FC.pool_entries(ip_, prog)
        cps = [c for d, u, c in ents if d == 'db']
        if not cps:
            return
        cp = cps[0]
        if cp is old_db or getf(prog, cp, 'ConnectionPool', 'databases') is getf(prog, old_db, 'ConnectionPool', 'databases'):
            return          # kept: same object, nothing to carry over
        def same_cell(a, b):
            return isinstance(a, Ptr) and isinstance(b, Ptr) and a.cell is b.cell
        shares = same_cell(getf(prog, cp, 'ConnectionPool', 'paused_waiter'), old_notify) and same_cell(getf(prog, cp, 'ConnectionPool', 'paused'), old_paused)
        woke_old = any(same_cell(w, old_notify) or (isinstance(w, Ptr) and deref(ip_, w) is deref(ip_, old_notify)) for w in woken)
        if not shares and not woke_old:
            chk.report(ob, 'C16/O3/reload-strands-paused-clients', 'a RELOAD that re-creates a paused pool gives the new pool a fresh pause flag and Notify and does not wake the old '
                       'pool\'s waiters: clients held by the PAUSE stay parked for ever, no RESUME can reach them', {},
                       {'commands': [{'op': 'reload_paused'}], 'expect': ['c16_reload_paused']})
        if len(ob.samples) < 2:
            ob.samples.append({'shares_pause_state': shares, 'woke_old_waiters': woke_old})
    ip.explore(harness)
    chk.absorb(ob, ip)
    chk.end(ob)


def witness_parked(wprog, await_idx, pause_prog, resume_prog, timeout_ms):
    r, cex, s = bmc(wprog, await_idx, pause_prog, resume_prog, 1, 1, len(wprog) + 4, timeout_ms)
    # re-query the same transition system with the complement of the `not paused` clause
    s2 = z3.Solver()
    s2.set('timeout', timeout_ms)
    asserts = s.assertions()
    for a in list(asserts)[:-3]:
        s2.add(a)
    K = len(wprog) + 4
    P = z3.Bool('P_%d' % K)
    pcv = z3.Int('pc_0_%d' % K)
    parked = z3.Bool('parked_0_%d' % K)
    s2.add(P, pcv == (await_idx if await_idx is not None else -5), parked)
    return s2.check() == z3.sat


if __name__ == '__main__':
    run_check('C16', main)
