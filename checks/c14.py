#!/usr/bin/env python3-vt
"""C14 -- live reload is safe: an invalid file changes nothing (config::parse / reload_config control structure)."""
import os, sys, itertools, re
sys.path.insert(0, os.path.dirname(os.path.dirname(os.path.abspath(__file__))))
import z3
from harness.common import run_check, expectation
from checks.serverfam import *
from native import oracle
import checks.c17 as c17        # (registers the native expectation of the main-loop obligation)

STAGES = ['open', 'read', 'toml', 'validate']


def mk_config(prog, tag):
    names = prog.src.structs['Config']
    vals = {n: Opaque('Config.' + n, tag) for n in names}
    vals['path'] = rstring('pgcat.toml')
    return Agg([vals[n] for n in names], 'Config', list(names))


def install_env(ip):
    """Environment of config::parse / reload_config: file IO, TOML parsing, validation, DNS cache and pool construction have
    solver-chosen outcomes; the global CONFIG / POOLS stores are recorders."""
    def ev(ip_, what):
        ip_.env.setdefault('events', []).append(what)

    def fut(tag):
        def h(c, *a):
            return Opaque('HookFuture', tag, a)
        return h
    ip.overrides += [
        (re.compile(r'^tokio::fs::File::open::<'), fut('open')),
        (re.compile(r'^<tokio::fs::File as tokio::io::AsyncReadExt>::read_to_string$'), fut('read')),
        (re.compile(r'^(?:dns_cache::)?CachedResolver::from_config$'), fut('dns')),
        (re.compile(r'^(?:pool::)?ConnectionPool::from_config$'), fut('pools')),
    ]

    def toml_from_str(c, s):
        ip_ = c.ip
        if ip_.choose(2, 'toml_fails') == 1:
            ev(ip_, 'toml:err')
            return EnumV(BV(64, 1), {'Err': [Opaque('toml::de::Error', 'e')]}, 'Result')
        ev(ip_, 'toml:ok')
        return EnumV(BV(64, 0), {'Ok': [mk_config(c.ip.prog, 'new')]}, 'Result')
    ip.overrides.append((re.compile(r'^toml::from_str::<'), toml_from_str))

    def validate(c, cfg):
        ip_ = c.ip
        if ip_.choose(2, 'validate_fails') == 1:
            ev(ip_, 'validate:err')
            return EnumV(BV(64, 1), {'Err': [ip_.make_enum('Error', 'BadConfig')]}, 'Result')
        ev(ip_, 'validate:ok')
        return EnumV(BV(64, 0), {'Ok': [unit()]}, 'Result')
    ip.overrides.append((re.compile(r'^(?:config::)?Config::validate$'), validate))
    ip.overrides.append((re.compile(r'^(?:config::)?Config::fill_up_auth_query_config$'), lambda c, *a: unit()))

    def cfg_clone(c, p):
        v = deref(c.ip, p)
        return v
    ip.overrides.append((re.compile(r'^<(?:config::)?Config as Clone>::clone$'), cfg_clone))

    def store(c, swap, val):
        ip_ = c.ip
        ev(ip_, 'CONFIG.store')
        ip_.env['config_current'] = deref(ip_, val)
        return unit()
    ip.overrides.append((re.compile(r'^(?:arc_swap::)?ArcSwapAny::<Arc<(?:config::)?Config>>::store$'), store))

    def get_config(c):
        ip_ = c.ip
        return ip_.env.setdefault('config_current', mk_config(ip_.prog, 'old'))
    ip.overrides.append((re.compile(r'^(?:config::)?get_config$'), get_config))

    def cfg_ne(c, a, b):
        ip_ = c.ip
        x, y = deref(ip_, a), deref(ip_, b)
        same = x is y
        r = (not same) if c.callee.endswith('ne') else same
        if not same:
            # a freshly parsed config may or may not differ from the old one
            differ = ip_.choose(2, 'configs_differ') == 1
            ev(ip_, 'differ' if differ else 'equal')
            r = differ if c.callee.endswith('ne') else (not differ)
        return BV(1, int(r))
    ip.overrides.append((re.compile(r'^<(?:config::)?Config as PartialEq>::(eq|ne)$'), cfg_ne))
    ip.lazy_hook = lambda ip_, p, c: Ptr(Cell(Opaque('ArcSwap', 'CONFIG'), 'CONFIG'))

    def poll_hook(ip_, co, ptr):
        if isinstance(co, Opaque) and co.ty == 'HookFuture':
            tag = co.tag
            if tag in ('open', 'read'):
                if ip_.choose(2, tag + '_fails') == 1:
                    ev(ip_, tag + ':err')
                    return EnumV(BV(64, 0), {'Ready': [EnumV(BV(64, 1), {'Err': [Opaque('io::Error', tag)]}, 'Result')]}, 'Poll')
                ev(ip_, tag + ':ok')
                v = Opaque('File', 'file') if tag == 'open' else BV(64, 10)
                return EnumV(BV(64, 0), {'Ready': [EnumV(BV(64, 0), {'Ok': [v]}, 'Result')]}, 'Poll')
            if tag == 'dns':
                okk = ip_.choose(2, 'dns_fails') == 0
                ev(ip_, 'dns:' + ('ok' if okk else 'err'))
                return EnumV(BV(64, 0), {'Ready': [EnumV(BV(64, 0 if okk else 1), {'Ok': [unit()], 'Err': [ip_.make_enum('Error', 'BadConfig')]}, 'Result')]}, 'Poll')
            if tag == 'pools':
                okk = ip_.choose(2, 'pools_fail') == 0
                ev(ip_, 'from_config:' + ('ok' if okk else 'err'))
                return EnumV(BV(64, 0), {'Ready': [EnumV(BV(64, 0 if okk else 1), {'Ok': [unit()], 'Err': [ip_.make_enum('Error', 'BadConfig')]}, 'Result')]}, 'Poll')
        raise Inconclusive('poll of %r' % (co,))
    ip.poll_hook = poll_hook


@expectation('c14_static')
def c14_static():
    def f(res):
        r = res[0]
        if 'panic' in r or 'error' in r:
            return ('panic' in r), 'native: %r' % (r,)
        return (r.get('config_changed', False) or r.get('result') != 'err', 'native reload with an invalid file: %r' % (r,))
    return f


def o1_parse(chk, prog):
    ob = chk.begin('O1-parse', 'config::parse with solver-chosen outcomes of open / read / TOML parsing / validation: the global configuration is '
                   'replaced only after all four succeeded, exactly once, and every failure yields Err(BadConfig)', {'stages': STAGES})
    parse = fn(prog, 'config::parse')
    ip = chk.interp(prog, 'O1-parse')
    install_stats_noops(ip)
    install_env(ip)

    def harness(ip_):
        path = Ptr(Cell(rstring('pgcat.toml'), 'path'))
        r = ip_.drive(ip_.call_function(parse, [path]))
        ob.nontrivial += 1
        evs = ip_.env.get('events', [])
        res = variant(ip_, r, 'Result')
        failed = [e for e in evs if e.endswith(':err')]
        stores = evs.count('CONFIG.store')
        bad = None
        if failed and stores:
            bad = 'the configuration was replaced although %s' % failed[0].replace(':err', ' failed')
        elif failed and res != 'Err':
            bad = 'parse returns Ok although %s' % failed[0].replace(':err', ' failed')
        elif not failed and (stores != 1 or res != 'Ok'):
            bad = 'a valid file is not installed exactly once (stores=%d, result=%s)' % (stores, res)
        elif stores and 'validate:ok' in evs and evs.index('CONFIG.store') < evs.index('validate:ok'):
            bad = 'the configuration is replaced before it is validated'
        if bad:
            chk.report(ob, 'C14/O1/parse/' + (failed[0].split(':')[0] if failed else 'valid'), 'config::parse: ' + bad, {'events': evs},
                       {'commands': [{'op': 'reload_invalid', 'kind': failed[0].split(':')[0] if failed else 'validate'}], 'expect': ['c14_static']})
        if len(ob.samples) < 3:
            ob.samples.append({'events': evs, 'result': res})
    ip.explore(harness)
    chk.absorb(ob, ip)
    chk.end(ob)


def o1_reload(chk, prog):
    ob = chk.begin('O1-reload', 'config::reload_config with the same symbolic environment: when reading / parsing / validating the file fails nothing is '
                   'stored and the pools are not rebuilt; pools are rebuilt only when the new configuration differs from the old one', {})
    rl = fn(prog, 'config::reload_config')
    ip = chk.interp(prog, 'O1-reload')
    install_stats_noops(ip)
    install_env(ip)

    def harness(ip_):
        ip_.env['config_current'] = mk_config(prog, 'old')
        csm = Ptr(Cell(Agg([MapV('hashmap')], 'Lock'), 'csmap'))
        r = ip_.drive(ip_.call_function(rl, [csm]))
        ob.nontrivial += 1
        evs = ip_.env.get('events', [])
        res = variant(ip_, r, 'Result')
        file_failed = [e for e in evs if e.endswith(':err') and e.split(':')[0] in STAGES]
        rebuilt = any(e.startswith('from_config') for e in evs)
        bad = None
        if file_failed and ('CONFIG.store' in evs or rebuilt or res != 'Err'):
            bad = 'after %s: stored=%s pools rebuilt=%s result=%s' % (file_failed[0].replace(':err', ' failed'), 'CONFIG.store' in evs, rebuilt, res)
        elif not file_failed:
            if 'equal' in evs and rebuilt:
                bad = 'pools are rebuilt although the configuration did not change'
            if 'differ' in evs and not rebuilt:
                bad = 'the configuration changed but the pools are not rebuilt'
        if bad:
            chk.report(ob, 'C14/O1/reload/' + (file_failed[0].split(':')[0] if file_failed else 'valid'), 'reload_config: ' + bad, {'events': evs},
                       {'commands': [{'op': 'reload_invalid', 'kind': file_failed[0].split(':')[0] if file_failed else 'valid'}], 'expect': ['c14_static']})
        if len(ob.samples) < 3:
            ob.samples.append({'events': evs, 'result': res})
    ip.explore(harness)
    chk.absorb(ob, ip)
    chk.end(ob)


# ------------------------------------------------------------------------------------------------ O1b which reloads rebuild the pools
@expectation('c14_reload_diff')
def c14_reload_diff():
    def f(res):
        r = res[0]
        if 'panic' in r or 'error' in r:
            return ('panic' in r), 'native: %r' % (r,)
        return (not r.get('as_in_new_file', True), 'native: after reload_config (%s) returned %s the pools in force are %r' % (r.get('scenario'), r.get('result'), r.get('pools_in_force')))
    return f


def o1_reload_diff(chk, prog, scenario):
    """reload_config on STRUCTURED old / new configurations (pools as a real map of placeholder definitions compared by identity): the pools
    are rebuilt (ConnectionPool::from_config is called) iff the accepted new file differs from the old one -- in a changed, a removed OR an
    added pool, or in the general section."""
    ob = chk.begin('O1b-reload-%s' % scenario, 'config::reload_config, old file = pools {a, b}; new file: %s. from_config must run iff the new configuration differs' %
                   {'same': 'identical', 'changed': 'pool a redefined', 'removed': 'pool b removed', 'added': 'pool c added, a and b untouched',
                    'general': 'only the general section differs'}[scenario], {'scenario': scenario})
    rl = fn(prog, 'config::reload_config')
    ip = chk.interp(prog, 'O1b-reload-%s' % scenario)
    install_stats_noops(ip)
    install_env(ip)
    ip.overrides[:] = [(rx, h) for rx, h in ip.overrides if 'Config as PartialEq' not in rx.pattern and 'toml::from_str' not in rx.pattern]

    def cfg(pools, gen):
        names = prog.src.structs['Config']
        pm = MapV('hashmap')
        for n, pid in pools:
            pm.entries.append([rstring(n), Cell(Opaque('Fld', 'pool', ('pool', n, pid)), 'pool')])
        vals = {'path': rstring('pgcat.toml'), 'general': Opaque('Fld', 'general', ('general', gen)), 'plugins': Opaque('Fld', 'plugins', ('plugins', 0)), 'pools': pm}
        return Agg([vals[n] for n in names], 'Config', list(names))
    old_pools = [('a', 1), ('b', 1)]
    new_pools, new_gen = {'same': (old_pools, 0), 'changed': ([('a', 2), ('b', 1)], 0), 'removed': ([('a', 1)], 0),
                          'added': (old_pools + [('c', 1)], 0), 'general': (old_pools, 1)}[scenario]

    def ph(ip_, v):
        for _ in range(3):
            if isinstance(v, Ptr):
                v = deref(ip_, v)
        return v

    def fall(c, args):
        from mirsym.interp import MODELS, CallCtx
        for rx, h in MODELS:
            m = rx.search(c.callee)
            if m:
                return h(CallCtx(c.ip, c.callee, c.dest_ty, m, c.frame, c.argops), *args)
        cands = c.ip.prog.lookup(c.callee)
        if cands:
            return c.ip.call_function(c.ip.pick_candidate(c.callee, cands, args, c.dest_ty, c.frame, c.argops), args)
        raise Inconclusive('no MIR and no model for callee: ' + c.callee)

    def m_eq(c, a, b):
        x, y = ph(c.ip, a), ph(c.ip, b)
        neg = c.m.group(1) == 'ne'
        if isinstance(x, Opaque) and x.ty == 'Fld' and isinstance(y, Opaque) and y.ty == 'Fld':
            return BV(1, int((x.data == y.data) != neg))
        if neg and not c.ip.prog.lookup(c.callee):
            # (`ne` is the provided method of PartialEq: !eq)
            cands = c.ip.prog.lookup(c.callee[:-2] + 'eq')
            if cands:
                r = c.ip.call_function(c.ip.pick_candidate(c.callee[:-2] + 'eq', cands, [a, b], c.dest_ty, c.frame, c.argops), [a, b])
                return BV(1, 1 - r.v) if r.concrete else bv(1, ~r.z())
        if isinstance(x, MapV) and isinstance(y, MapV):
            def key(e):
                return bytes(b_.v for b_ in e[0].items)
            dx = {key(e): e[1].val.data for e in x.entries}
            dy = {key(e): e[1].val.data for e in y.entries}
            return BV(1, int((dx == dy) != neg))
        return fall(c, [a, b])

    def m_hash_value(c, p):
        v = ph(c.ip, p)
        if isinstance(v, Opaque) and v.ty == 'Fld':
            ids = c.ip.env.setdefault('hash_ids', {})
            return BV(64, 1000 + ids.setdefault(v.data[1:] if v.data[0] == 'pool' else v.data, len(ids)))
        return fall(c, [p])
    ip.overrides[:0] = [(re.compile(r'^<.* as (?:std::cmp::)?PartialEq(?:<.*>)?>::(eq|ne)$'), m_eq),
                        (re.compile(r'^(?:config::)?Pool::hash_value$'), m_hash_value),
                        (re.compile(r'^toml::from_str::<'), lambda c, s: EnumV(BV(64, 0), {'Ok': [cfg(new_pools, new_gen)]}, 'Result'))]
    ip.env_defaults = None

    def harness(ip_):
        ip_.env['config_current'] = cfg(old_pools, 0)
        csm = Ptr(Cell(Agg([MapV('hashmap')], 'Lock'), 'csmap'))
        r = ip_.drive(ip_.call_function(rl, [csm]))
        evs = ip_.env.get('events', [])
        if any(e.endswith(':err') and e.split(':')[0] in STAGES for e in evs):
            return          # the file was not accepted: O1-reload's subject
        ob.nontrivial += 1
        rebuilt = any(e.startswith('from_config') for e in evs)
        want = scenario != 'same'
        if rebuilt != want:
            chk.report(ob, 'C14/O1b/reload-diff/' + scenario, 'reload_config with a valid file (%s): the pools are %s' %
                       (scenario, 'NOT rebuilt although the configuration changed: the new definition is not in effect' if want else 'rebuilt although nothing changed'),
                       {'events': evs}, {'commands': [{'op': 'reload_diff', 'scenario': scenario}], 'expect': ['c14_reload_diff']})
        if len(ob.samples) < 2:
            ob.samples.append({'events': evs, 'rebuilt': rebuilt})
    try:
        ip.explore(harness)
    except Inconclusive as e:
        chk.note_inconclusive('O1b-reload-%s: %s' % (scenario, e))
    chk.absorb(ob, ip)
    chk.end(ob)


# ------------------------------------------------------------------------------------------------ O2 pool reuse / removal
@expectation('c14_pools')
def c14_pools():
    def f(res):
      bad = []
      for r, mode in zip(res, ('a reload that only removes a pool', 'a reload that removes one pool and changes another')):
        if 'panic' in r or 'error' in r:
            return ('panic' in r), 'native: %r' % (r,)
        if r['removed_still_served']:
            bad.append(mode + ':')
            bad.append('a pool removed from the configuration is still served after the reload')
        if not r['unchanged_reused']:
            bad.append('an unchanged pool was rebuilt (its connections are dropped)')
        if not r['changed_rebuilt']:
            bad.append('a changed pool kept its old definition')
      return bool(bad), '; '.join(bad) or 'native reload keeps unchanged pools, rebuilds changed ones and drops removed ones'
    return f


def o2_pools(chk, prog):
    from checks import fromconfig as FC
    from checks.c07 import mk_pool, mk_addr
    ob = chk.begin('O2-pools', 'ConnectionPool::from_config (real coroutine, nothing connected) with the previous pool map holding a pool for the same '
                   '(database, user) whose definition hash is symbolic, plus a pool that is no longer configured: afterwards exactly the configured '
                   'pools are registered; the old pool object is kept iff its hash equals the new definition\'s, otherwise a new pool with the new '
                   'hash is registered; the removed pool is gone', {})
    ip = chk.interp(prog, 'O2-pools')
    install_stats_noops(ip)

    def harness(ip_):
        cfg = FC.base_config(ip_, prog)
        srv = [FC.mk_srvcfg(ip_, prog, rstring('h'), BV(16, 5432), BV(64, 1))]
        pool = FC.mk_pool_cfg(ip_, prog, [('0', srv, None)])
        pm = MapV('hashmap')
        pm.entries.append([rstring('db'), Cell(pool, 'pool')])
        setf(prog, cfg, 'Config', 'pools', pm)
        FC.install(ip_, cfg)
        # previous POOLS: (db,u) with symbolic hash, (gone,u)
        old_hash = ip_.fresh(64, 'old_hash')
        old_db, _ = mk_pool(ip_, prog, [[mk_addr(ip_, prog, 0, 1)]], [MapV('hashmap')])
        setf(prog, old_db, 'ConnectionPool', 'config_hash', old_hash)
        old_gone, _ = mk_pool(ip_, prog, [[mk_addr(ip_, prog, 0, 1)]], [MapV('hashmap')])
        m = FC.current_pools(ip_)

        def ident(db, user):
            names = prog.src.structs['PoolIdentifier']
            vals = {'db': rstring(db), 'user': rstring(user)}
            return Agg([vals[n] for n in names], 'PoolIdentifier', list(names))
        marker_db = getf(prog, old_db, 'ConnectionPool', 'databases')
        m.entries.append([ident('db', 'u'), Cell(old_db, 'old_db')])
        m.entries.append([ident('gone', 'u'), Cell(old_gone, 'old_gone')])
        try:
            FC.run_from_config(ip_, prog)
        except Panic as p:
            raise Inconclusive('from_config panic: ' + p.msg)
        ob.nontrivial += 1
        ents = FC.pool_entries(ip_, prog)
        names = sorted((d, u) for d, u, _ in ents)
        problems = []
        if ('gone', 'u') in names:
            problems.append(('removed-pool-served', 'the pool that was removed from the configuration is still registered'))
        if ('db', 'u') not in names:
            problems.append(('configured-pool-missing', 'the configured pool is not registered'))
        else:
            cp = [c for d, u, c in ents if d == 'db'][0]
            new_hash = getf(prog, cp, 'ConnectionPool', 'config_hash')
            reused = getf(prog, cp, 'ConnectionPool', 'databases') is marker_db
            # the reference decision: same definition <=> hashes equal
            hashes = ip_.env.get('hash_inputs')
            same = decide(ip_, old_hash.z() == last_hash(ip_)) if last_hash(ip_) is not None else None
            if same is True and not reused:
                problems.append(('unchanged-pool-rebuilt', 'the pool definition did not change but a new pool replaced it'))
            if same is False and reused:
                problems.append(('changed-pool-kept', 'the pool definition changed but the old pool is kept'))
            if same is False and not reused and ip_.model_for(new_hash.z() != last_hash(ip_)) is not None:
                problems.append(('wrong-hash', 'the rebuilt pool does not carry the hash of its definition'))
        for k, what in problems:
            chk.report(ob, 'C14/O2/' + k, 'reload: ' + what, {}, {'commands': [{'op': 'reload_pools', 'mode': 'remove_only'}, {'op': 'reload_pools', 'mode': 'mixed'}], 'expect': ['c14_pools']})
        if len(ob.samples) < 2:
            ob.samples.append({'registered': names})
    ip.explore(harness)
    chk.absorb(ob, ip)
    chk.end(ob)


def o5_admin_reload(chk, prog):
    """The admin console's RELOAD: handle_admin runs reload_config once, and claims success only if it succeeded."""
    from mirsym.models.util import ok as _ok, err as _err
    ob = chk.begin('O5-admin-reload', 'admin::handle_admin (real coroutine) on RELOAD (several spellings) with reload_config succeeding (changed / unchanged) or failing (solver\'s choice): '
                   'reload_config runs exactly once, with the cancel map the console was given; CommandComplete RELOAD + ReadyForQuery is sent iff it succeeded; a failure is '
                   'returned to the caller and not reported as success; other commands do not reload', {})
    ha = prog.funcs.get('handle_admin')
    if ha is None:
        raise Inconclusive('cannot locate admin::handle_admin')
    ip = chk.interp(prog, 'O5-admin-reload')
    install_stats_noops(ip)
    base = list(ip.overrides)
    cases = [(b'RELOAD', True), (b'reload;', True), (b'  Reload ', True), (b'SET x TO 1', False)]

    def harness(ip_):
        ip_.overrides[:] = base
        q, is_reload = cases[ip_.choose(len(cases), 'admin_command')]
        calls = []
        csm = Ptr(Cell(Agg([MapV('hashmap')], 'Lock'), 'csmap'))
        outcome = {}

        def reload_config(c, m):
            calls.append(m)
            return Opaque('HookFuture', 'reload')

        def poll_hook(ip2, co, ptr):
            if isinstance(co, Opaque) and co.ty == 'HookFuture' and co.tag == 'reload':
                k = ip2.choose(3, 'reload_outcome')
                outcome['k'] = k
                r_ = _err(ip2, ip2.make_enum('Error', 'BadConfig')) if k == 2 else _ok(ip2, BV(1, k))
                return EnumV(BV(64, 0), {'Ready': [r_]}, 'Poll')
            raise Inconclusive('poll of %r' % (co,))
        ip_.poll_hook = poll_hook
        ip_.overrides[:0] = [
            (re.compile(r'^(?:config::)?reload_config$'), reload_config),
            (re.compile(r'^(?:config::)?get_config$'), lambda c: Opaque('Config', 'current')),
            (re.compile(r'Config::show$'), lambda c, *a: unit()),
        ]
        st = StreamV([], 'admin_client')
        body = [BV(8, x) for x in b'Q' + (len(q) + 5).to_bytes(4, 'big') + q + b'\0']
        try:
            r = ip_.drive(ip_.call_function(ha, [Ptr(Cell(st, 'stream')), Seq(body, 'bytesmut'), csm]))
        except Panic as p:
            raise Inconclusive('handle_admin panic: ' + p.msg)
        ob.nontrivial += 1
        out = bytes(b.v for b in st.out if b.concrete)
        res = variant(ip_, r, 'Result')
        what = None
        if not is_reload:
            if calls:
                what = 'the admin command %r reloads the configuration' % (q.decode(),)
        elif len(calls) != 1:
            what = 'RELOAD runs reload_config %d times' % len(calls)
        elif not (isinstance(calls[0], Ptr) and calls[0].cell is csm.cell):
            what = 'RELOAD rebuilds the pools with a cancel map that is not the one in use'
        elif outcome.get('k') == 2 and (res == 'Ok' or b'RELOAD\x00' in out):
            what = 'reload_config failed (invalid file) and the admin console reports success (result %s, reply %r)' % (res, out[:40])
        elif outcome.get('k') in (0, 1) and (res != 'Ok' or b'RELOAD\x00' not in out or not out.endswith(b'Z\x00\x00\x00\x05I')):
            what = 'reload_config succeeded and the admin client is not answered with CommandComplete RELOAD + ReadyForQuery'
        if what:
            chk.report(ob, 'C14/O5/admin-reload', 'admin console: ' + what, {'command': q.decode()}, {'commands': [{'op': 'admin_reload'}], 'expect': ['c14_admin_reload']})
        if len(ob.samples) < 3:
            ob.samples.append({'command': q.decode(), 'reload_config_calls': len(calls), 'outcome': outcome.get('k'), 'result': res})
    ip.explore(harness)
    chk.absorb(ob, ip)
    chk.end(ob)


@expectation('c14_admin_reload')
def c14_admin_reload():
    """Native: the real handle_admin on RELOAD with the file unchanged, then invalid: success is claimed iff the reload succeeded."""
    def f(res):
        for r in res:
            if 'error' in r or 'panic' in r:
                return False, 'native: %r' % (r,)
            for run in r.get('runs', []):
                want = run['kind'] == 'same'
                if run['ok'] != want or run['says_reload'] != want:
                    return True, 'native: RELOAD with the file %s: handle_admin returns %s and %s CommandComplete RELOAD' % (
                        'unchanged' if want else 'INVALID', 'Ok' if run['ok'] else 'Err', 'sends' if run['says_reload'] else 'does not send')
        return False, 'native: %r' % (res,)
    return f


def o2_rebuild(chk, prog, variant, props=('C14',)):
    """What a pool that a reload (re)creates may share with the pool it replaces and with its siblings.
    variant 'auth-query': auth_query is configured (its lookup fails or succeeds: solver's choice) -- an unchanged pool is still kept.
    variant 'grow':       the definition changed from one shard to two while a server of the old pool was banned -- the new pool's ban list
                          has one (empty) slot per NEW shard and is not the old pool's.
    variant 'swap':       the only server of the section is replaced while the old one was banned -- same, with the shard count unchanged.
    variant 'two-users':  two users in the section -- each (db, user) pool has its own auth_hash cell."""
    from checks import fromconfig as FC
    from checks.c07 import mk_pool, mk_addr, ban_entry
    name = 'O2-rebuild-' + variant
    ob = chk.begin(name, 'ConnectionPool::from_config (real coroutine) replacing / keeping a pool, variant %r: %s' % (variant, {
        'auth-query': 'auth_query configured on the section, the lookup succeeding or failing (solver\'s choice), previous pool with a symbolic hash: kept iff the hashes are equal',
        'grow': 'the section grows from one shard to two and the old pool had a banned server: the re-created pool has a ban list of its own, one empty slot per shard of the NEW definition',
        'swap': 'the section\'s only server is replaced by another one while the old one was banned: the re-created pool has an empty ban list of its own',
        'two-users': 'two users under auth_query: the two (db, user) pools do not share their auth_hash cell (a hash obtained or refreshed for one user must not become the other\'s secret)'}[variant]),
        {'variant': variant})
    ip = chk.interp(prog, name)
    install_stats_noops(ip)

    def harness(ip_):
        cfg = FC.base_config(ip_, prog)
        nsh = 2 if variant == 'grow' else 1
        specs = [(str(i), [FC.mk_srvcfg(ip_, prog, rstring('h%d' % i), BV(16, 5432), BV(64, 1))], None) for i in range(nsh)]
        users = ('u', 'v') if variant == 'two-users' else ('u',)
        pool = FC.mk_pool_cfg(ip_, prog, specs, users=users)
        if variant in ('auth-query', 'two-users'):
            for k in ('auth_query', 'auth_query_user', 'auth_query_password'):
                setf(prog, pool, 'Pool', k, some(ip_, rstring('x')))
            if variant == 'two-users':
                # the second user has no password of its own: its secret is whatever its auth_hash cell holds
                u2 = pool_users(prog, pool)[1]
                setf(prog, u2, 'User', 'password', none(ip_))
        pm = MapV('hashmap')
        pm.entries.append([rstring('db'), Cell(pool, 'pool')])
        setf(prog, cfg, 'Config', 'pools', pm)
        FC.install(ip_, cfg)
        fetched = []

        def fetch(c, *a):
            return Opaque('HookFuture', 'fetch')
        ip_.overrides.append((re.compile(r'AuthPassthrough::fetch_hash$'), fetch))

        def poll_hook(ip2, co, ptr):
            if isinstance(co, Opaque) and co.ty == 'HookFuture' and co.tag == 'fetch':
                okk = ip2.choose(2, 'fetch_ok') == 1
                fetched.append(okk)
                from mirsym.models.util import ok as _ok, err as _err
                r_ = _ok(ip2, rstring('md5hash%d' % len(fetched))) if okk else _err(ip2, ip2.make_enum('Error', 'AuthPassthroughError', [rstring('down')]))
                return EnumV(BV(64, 0), {'Ready': [r_]}, 'Poll')
            raise Inconclusive('poll of %r' % (co,))
        ip_.poll_hook = poll_hook
        old_hash = ip_.fresh(64, 'old_hash')
        a_old = mk_addr(ip_, prog, 0, 1)
        bans = MapV('hashmap')
        if variant in ('grow', 'swap'):
            e, _ = ban_entry(ip_, prog, a_old, 0)
            bans.entries.append(e)
        old_db, _ = mk_pool(ip_, prog, [[a_old]], [bans])
        setf(prog, old_db, 'ConnectionPool', 'config_hash', old_hash)
        old_banlist = getf(prog, old_db, 'ConnectionPool', 'banlist')
        m = FC.current_pools(ip_)

        def ident(db, user):
            names = prog.src.structs['PoolIdentifier']
            vals = {'db': rstring(db), 'user': rstring(user)}
            return Agg([vals[n] for n in names], 'PoolIdentifier', list(names))
        marker_db = getf(prog, old_db, 'ConnectionPool', 'databases')
        m.entries.append([ident('db', 'u'), Cell(old_db, 'old_db')])
        try:
            FC.run_from_config(ip_, prog)
        except Panic as p:
            raise Inconclusive('from_config panic: ' + p.msg)
        ob.nontrivial += 1
        ents = {(d, u): c for d, u, c in FC.pool_entries(ip_, prog)}
        problems = []
        cp = ents.get(('db', 'u'))
        if cp is None:
            problems.append(('configured-pool-missing', 'the configured pool is not registered'))
        else:
            reused = getf(prog, cp, 'ConnectionPool', 'databases') is marker_db
            lh = last_hash(ip_)
            same = decide(ip_, old_hash.z() == lh) if lh is not None else None
            if same is True and not reused:
                problems.append(('unchanged-pool-rebuilt', 'the pool definition did not change but a new pool replaced it: the old one lives on in every client that holds it, '
                                 'and the server sees the connections of both (up to 2 x pool_size)'))
            if same is False and reused:
                problems.append(('changed-pool-kept', 'the pool definition changed but the old pool is kept'))
            if not reused and variant in ('grow', 'swap'):
                bl = getf(prog, cp, 'ConnectionPool', 'banlist')
                if isinstance(bl, Ptr) and isinstance(old_banlist, Ptr) and bl.cell is old_banlist.cell:
                    problems.append(('banlist-inherited', 'the re-created pool shares the ban list of the pool it replaces: one slot per OLD shard (indexing it with a new shard '
                                     'panics), holding bans of addresses the new pool does not have (they never expire, cannot be lifted and count towards "all replicas banned")'))
                else:
                    lock = deref(ip_, bl) if isinstance(bl, Ptr) else bl
                    slots = lock.fields[0]
                    n_slots = len(slots.items) if isinstance(slots, Seq) else None
                    if n_slots != nsh:
                        problems.append(('banlist-inherited', 'the re-created pool has %r ban-list slots for %d shards' % (n_slots, nsh)))
                    elif any(len(s_.entries) for s_ in slots.items):
                        problems.append(('banlist-inherited', 'the re-created pool starts with bans it did not issue'))
        if variant == 'two-users':
            cu, cv = ents.get(('db', 'u')), ents.get(('db', 'v'))
            if cu is not None and cv is not None:
                hu, hv = getf(prog, cu, 'ConnectionPool', 'auth_hash'), getf(prog, cv, 'ConnectionPool', 'auth_hash')
                if isinstance(hu, Ptr) and isinstance(hv, Ptr) and hu.cell is hv.cell:
                    problems.append(('auth-hash-shared', 'the pools of two users of one section share one auth_hash cell: the hash fetched (or refreshed at a login) for one user '
                                     'is accepted as the other user\'s secret'))
        mode = {'auth-query': 'auth_query', 'grow': 'grow', 'swap': 'swap', 'two-users': 'two_users'}[variant]
        for k, what in problems:
            for prop_ in props:
                chk.report(ob, '%s/O2/%s' % (prop_, k), 'reload (%s): %s' % (variant, what), {'variant': variant},
                           {'commands': [{'op': 'reload_pools', 'mode': mode}], 'expect': ['c14_rebuild']})
        if len(ob.samples) < 2:
            ob.samples.append({'registered': sorted(ents), 'fetches': list(fetched)})
    ip.explore(harness)
    chk.absorb(ob, ip)
    chk.end(ob)


def pool_users(prog, pool):
    um = getf(prog, pool, 'Pool', 'users')
    return [c.val for _, c in um.entries]


@expectation('c14_rebuild')
def c14_rebuild():
    def f(res):
        bad = []
        for r in res:
            if 'panic' in r or 'error' in r:
                return ('panic' in r), 'native: %r' % (r,)
            if r.get('unchanged_reused') is False:
                bad.append('an unchanged pool (auth_query configured) was rebuilt: two pools now serve the same (database, user)')
            if r.get('rebuilt_banlist_ok') is False:
                bad.append('the re-created pool carries the ban list of the pool it replaces (slots %r for %r shards, %r bans)' % (r.get('banlist_slots'), r.get('shards'), r.get('bans')))
            if r.get('auth_hash_distinct') is False:
                bad.append('the pools of two users share one auth_hash cell')
        return bool(bad), '; '.join(bad) or 'native: %r' % (res,)
    return f


# ------------------------------------------------------------------------------------------------ O3 identity of a definition
# reload_config rebuilds the pools only if `old_config != new_config`, and from_config keeps an existing pool iff Pool::hash_value of the
# new definition equals the hash the pool was built from.  Both are the PartialEq / Hash impls of the configuration structs (derived or
# hand-written): a field that one of them leaves out is a setting whose change never takes effect.
PRIMS = {'bool': 1, 'u8': 8, 'u16': 16, 'i16': 16, 'u32': 32, 'i32': 32, 'u64': 64, 'i64': 64, 'usize': 64, 'isize': 64}
POOL_TREE = ['Pool', 'User', 'Shard', 'ServerConfig', 'MirrorServerConfig', 'Plugins', 'Intercept', 'TableAccess', 'QueryLogger', 'Prewarmer', 'Query']
PATHS = {'Pool': [], 'User': ['users', '0'], 'Shard': ['shards', '0'], 'ServerConfig': ['shards', '0', 'servers', 0], 'MirrorServerConfig': ['shards', '0', 'mirrors', 0],
         'Plugins': ['plugins'], 'Intercept': ['plugins', 'intercept'], 'TableAccess': ['plugins', 'table_access'], 'QueryLogger': ['plugins', 'query_logger'],
         'Prewarmer': ['plugins', 'prewarmer'], 'Query': ['plugins', 'intercept', 'queries', 'q0']}
POOL_PATCH = {'plugins': {'intercept': {'enabled': True, 'queries': {'q0': {'query': 'select 1', 'schema': [['c', 'text']], 'result': [['1']]}}},
                          'table_access': {'enabled': True, 'tables': ['t']}, 'query_logger': {'enabled': True}, 'prewarmer': {'enabled': True, 'queries': ['select 1']}},
              'shards': {'0': {'database': 'db', 'mirrors': [{'host': 'm', 'port': 5433, 'mirroring_target_index': 0}],
                               'servers': [{'host': 'h', 'port': 5432, 'role': 'primary'}, {'host': 'h2', 'port': 5432, 'role': 'replica'}]}},
              'users': {'0': {'username': 'u', 'password': 'p', 'auth_type': 'md5', 'pool_size': 5, 'statement_timeout': 0}}}
CANDIDATES = [True, False, 'zz', 'replica', 'primary', 'session', 'transaction', 'sha1', 'pg_bigint_hash', 'trust', 'md5', 'loc', 'random', 'shard_1', 7, 8,
              ['zz'], [['zz']], [], {}, None]


@expectation('c14_identity')
def c14_identity(which):
    def f(res):
        r = res[0]
        if 'panic' in r or 'error' in r:
            return ('panic' in r), 'native: %r' % (r,)
        bad = r.get(which)
        return bool(bad), 'native: two definitions that differ in that field (%s vs %s): == says %s, Pool::hash_value equal: %s, Config == says %s' % (
            r.get('a'), r.get('b'), r.get('eq'), r.get('hash_eq'), r.get('config_eq'))
    return f


def o3_identity(chk, prog, structs, report_as='C14'):
    for S in structs:
        names = prog.src.structs.get(S)
        tys = prog.src.struct_types.get(S)
        eqf = prog.lookup('<%s as PartialEq>::eq' % S)
        hashf = prog.lookup('<%s as Hash>::hash' % S)
        in_pool = S in POOL_TREE
        ob = chk.begin('O3-identity-%s' % S, 'config::%s: its PartialEq::eq%s executed from MIR on two values that are identical except for ONE field (every field in '
                       'turn; integer and bool fields symbolic and different, other fields distinct placeholders compared by identity): eq must be false%s' %
                       (S, ' and Hash::hash' if in_pool else '', ' and the sequences written to the hasher must differ for every pair of different values' if in_pool else ''),
                       {'fields': len(names or [])})
        if not names or len(eqf) != 1 or (in_pool and len(hashf) != 1):
            chk.note_inconclusive('O3-identity-%s: cannot locate the struct or its PartialEq / Hash impl' % S)
            chk.end(ob)
            continue
        for fi, (fname, fty) in enumerate(zip(names, tys)):
            ip = chk.interp(prog, 'O3-identity-%s' % S)

            def fall(c, args):
                cands = c.ip.prog.lookup(c.callee)
                if cands:
                    return c.ip.call_function(c.ip.pick_candidate(c.callee, cands, args, c.dest_ty, c.frame, c.argops), args)
                raise Inconclusive('no MIR and no model for callee: ' + c.callee)

            def ph(ip_, v):
                for _ in range(3):
                    if isinstance(v, Ptr):
                        v = deref(ip_, v)
                return v

            def m_eq(c, a, b):
                x, y = ph(c.ip, a), ph(c.ip, b)
                if isinstance(x, Opaque) and x.ty == 'Fld' and isinstance(y, Opaque) and y.ty == 'Fld':
                    r = BV(1, int(x.data == y.data))
                    return r if c.m.group(1) == 'eq' else BV(1, 1 - r.v)
                if isinstance(x, BV) and isinstance(y, BV):
                    r = bv(1, z3.If(x.z() == y.z(), z3.BitVecVal(1, 1), z3.BitVecVal(0, 1)))
                    return r if c.m.group(1) == 'eq' else bv(1, ~r.z())
                return fall(c, [a, b])

            def m_hash(c, a, st):
                x = ph(c.ip, a)
                if (isinstance(x, Opaque) and x.ty == 'Fld') or isinstance(x, BV):
                    ph(c.ip, st).data.append(x)
                    return unit()
                return fall(c, [a, st])
            ip.overrides += [(re.compile(r'^<.* as (?:std::cmp::)?PartialEq(?:<.*>)?>::(eq|ne)$'), m_eq),
                             (re.compile(r'^<.* as (?:std::hash::)?Hash>::hash::<.*>$'), m_hash)]

            def harness(ip_):
                sides = []
                for side in (0, 1):
                    vals = []
                    for k, (n, ty) in enumerate(zip(names, tys)):
                        w = PRIMS.get(ty.strip())
                        if w:
                            vals.append(ip_.fresh(w, '%s_%d' % (n, side if k == fi else 0)) if k == fi else ip_.env.setdefault('shared', {}).setdefault(n, ip_.fresh(w, n)))
                        else:
                            vals.append(Opaque('Fld', '%s.%s' % (S, n), (n, side if k == fi else 0)))
                    sides.append(Agg(vals, S, list(names)))
                a, b = sides
                va, vb = a.fields[fi], b.fields[fi]
                if isinstance(va, BV):
                    ip_.assume(va.z() != vb.z())
                r = ip_.call_function(eqf[0], [Ptr(Cell(a, 'a')), Ptr(Cell(b, 'b'))])
                ob.nontrivial += 1
                rep = {'commands': [{'op': 'config_identity', 'pool_patch': POOL_PATCH, 'path': PATHS.get(S, []) + [fname], 'candidates': CANDIDATES,
                                     'general_field': fname if S == 'General' else None, 'config_field': fname if S == 'Config' else None}]}
                if ip_.is_sat(as_cond(r)):
                    gate = 'reload_config compares the old and the new configuration with it: a reload that changes only this setting is taken for "nothing changed"'
                    chk.report(ob, '%s/O3/eq-ignores-field/%s.%s' % (report_as, S, fname), '%s == %s although they differ in `%s` (%s)' % (S, S, fname, gate), {},
                               dict(rep, expect=['c14_identity', 'eq' if S not in ('Config', 'General') else 'config_eq']))
                if in_pool:
                    logs = []
                    for v in (a, b):
                        st = Opaque('Hasher', 'rec', [])
                        ip_.call_function(hashf[0], [Ptr(Cell(v, 'v')), Ptr(Cell(st, 'st'))])
                        logs.append(st.data)
                    la, lb = logs
                    same = None
                    if len(la) == len(lb):
                        conds = []
                        for x, y in zip(la, lb):
                            if isinstance(x, BV) and isinstance(y, BV) and x.w == y.w:
                                conds.append(x.z() == y.z())
                            elif isinstance(x, Opaque) and isinstance(y, Opaque):
                                conds.append(z3.BoolVal(x.data == y.data))
                            else:
                                conds.append(z3.BoolVal(False))
                        same = ip_.is_sat(z3.And(*conds)) if conds else True
                    if same:
                        chk.report(ob, '%s/O3/hash-ignores-field/%s.%s' % (report_as, S, fname), 'two %s values that differ in `%s` write the same sequence to the hasher: '
                                   'Pool::hash_value is unchanged, from_config keeps the pool built from the OLD definition and the new value never takes effect' % (S, fname), {},
                                   dict(rep, expect=['c14_identity', 'hash_eq']))
                    if len(ob.samples) < 2:
                        ob.samples.append({'field': fname, 'hasher_writes': len(la)})
            try:
                ip.explore(harness)
            except Inconclusive as e:
                chk.note_inconclusive('O3-identity-%s.%s: %s' % (S, fname, e))
            chk.absorb(ob, ip)
        chk.end(ob)


def last_hash(ip_):
    h = ip_.env.get('last_hash_value')
    return h.z() if h is not None else None


def main(chk):
    chk.explanation = (
        'Solver-based checking of the "invalid file changes nothing" half of C14, executed from MIR: config::parse and config::reload_config '
        'run with file IO, TOML parsing, validation, DNS-cache and pool construction replaced by models whose outcome the solver chooses, and '
        'with the global CONFIG store / pool rebuild as recorders: on every path where reading, parsing or validating fails, nothing is stored, '
        'the pools are not rebuilt and Err is returned; pools are rebuilt only when the configuration changed. What counts as a valid '
        'configuration is decided under C15; which pools survive a rebuild is decided where ConnectionPool::from_config is encoded (O2). '
        '(O3) What counts as "the definition changed": the PartialEq impls behind `old_config != new_config` and the Hash impls behind '
        'Pool::hash_value are executed from MIR for every struct of the configuration tree, on pairs of values that differ in exactly one field: '
        'no field may be left out of either. (O2-rebuild) what a pool kept or re-created by a reload shares with its predecessor and its siblings: an unchanged pool is kept also under auth_query; '
        'a re-created pool has its own ban list shaped after the NEW definition; two users of a section have separate auth_hash cells. (O5) the admin console\'s RELOAD: handle_admin runs reload_config once and claims success iff it succeeded. (O4) SIGHUP: the select! loop of src/main.rs, from the MIR of the binary target, under event scripts that '
        'contain SIGHUPs: each one calls reload_config exactly once and does not end the loop (native replay: the real binary, the file rewritten before the signal, '
        'a login only the new file allows).')
    chk.assumptions += [
        'in-flight transactions, connection survival, removed pools and every timing question are schedules over global state and bb8: outside the claim',
        'toml::from_str / Config::validate / from_config are symbolic-outcome stubs in this check (their own behaviour: C15 and DESIGN.md)',
        'O3: std String / Option / Vec / BTreeMap / HashMap equality and hashing are structural (library contract); DefaultHasher maps different write sequences to different values (collisions outside the claim)',
        'O3 decides that a changed POOL definition is noticed; General settings baked into a pool that is kept (ban_time, timeouts) are not re-applied to it -- outside the property (it requires unchanged pools to be kept)',
    ]
    prog = chk.program('on')
    o1_parse(chk, prog)
    try:
        o1_reload(chk, prog)
    except Inconclusive as e:
        # (this obligation keeps the two configurations opaque; a reload that looks INTO them is judged by O1b below)
        chk.note_inconclusive('O1-reload: %s' % e)
    for sc in ('same', 'changed', 'removed', 'added', 'general'):
        o1_reload_diff(chk, prog, sc)
    o2_pools(chk, prog)
    for variant in ('auth-query', 'grow', 'swap', 'two-users'):
        o2_rebuild(chk, prog, variant)
    try:
        o5_admin_reload(chk, prog)
    except Inconclusive as e:
        chk.note_inconclusive('O5-admin-reload: %s' % e)
    o3_identity(chk, prog, POOL_TREE + ['Config', 'General'])
    # a file that validation ACCEPTS is stored before the pools are rebuilt: if building them then fails the reload is half applied (new CONFIG,
    # old pools) -- so what validation accepts must be buildable.  The C15 build obligation (real Pool::validate, then the real from_config) for
    # default_role spellings, instantiated for this property
    import checks.c15 as c15
    for role in ('Primary', 'ANY', 'replica', 'nobody'):
        c15.o3_build(chk, prog, ['0'], role, prop='C14')
    # SIGHUP: the signal arm of main.rs's select! loop, from the MIR of the binary target -- every SIGHUP delivered calls reload_config once
    # (whatever else is going on: clients connecting and leaving, a shutdown in progress) and never ends the loop
    from mirsym import build
    try:
        c17.o3_main_loop(chk, build.load_bin_program('on'), 'hup', 4 if chk.thorough else 3, prop='C14', only=('sighup-reload', 'exit-without-cause'), oname='O4')
    except Inconclusive as e:
        chk.note_inconclusive('O4-main-loop: %s' % e)


if __name__ == '__main__':
    run_check('C14', main)
