#!/usr/bin/env python3-vt
"""C12 -- a client's session parameters follow it across server connections (sync + tracking)."""
import os, sys, itertools, re
sys.path.insert(0, os.path.dirname(os.path.dirname(os.path.abspath(__file__))))
import z3
from harness.common import run_check, expectation
from checks.serverfam import *
from checks.c03 import srv_expect
from native import oracle
from checks import hobl

ALPHABET = [ord("'"), ord('\\'), ord(' '), ord(';'), ord('a'), ord('A'), ord('"')]
DEFAULTS = {'client_encoding': 'UTF8', 'DateStyle': 'ISO, MDY', 'TimeZone': 'Etc/UTC', 'standard_conforming_strings': 'on', 'application_name': 'pgcat'}


def sym_value(ip, n, hint):
    out = []
    for i in range(n):
        b = ip.fresh(8, '%s%d' % (hint, i))
        ip.assume(z3.Or(*[b.v == c for c in ALPHABET]))
        out.append(b)
    return out


class LexError(Exception):
    pass


def lex_sets(ip, bs, scs='on'):
    """A small PostgreSQL lexer for a sequence of `SET name TO 'literal';` statements.  '' is an embedded quote.  In a plain literal a backslash
    is an ordinary character when the connection's standard_conforming_strings is on and an escape character when it is off; in an E'...'
    literal it is an escape character either way (\\\\ -> backslash, \\' -> quote, backslash + any other character of the alphabet used here -> that character).
    The whole Query string is lexed under the setting in force when it arrives.  Control flow on symbolic bytes forks.  Returns
    [(name_bytes, value_bytes)] or raises LexError at the first thing PostgreSQL would not read as such a statement."""
    i = 0
    n = len(bs)
    out = []

    def is_(k, ch):
        b = bs[k]
        return decide(ip, (b.v == ord(ch)) if not b.concrete else (b.v == ord(ch)))

    def is_space(k):
        return is_(k, ' ')

    def ident_char(k):
        b = bs[k]
        if b.concrete:
            return chr(b.v).isalnum() or b.v == ord('_')
        return decide(ip, z3.Or(z3.And(z3.UGE(b.v, 97), z3.ULE(b.v, 122)), z3.And(z3.UGE(b.v, 65), z3.ULE(b.v, 90)),
                                z3.And(z3.UGE(b.v, 48), z3.ULE(b.v, 57)), b.v == 95))

    def skip_ws():
        nonlocal i
        while i < n and is_space(i):
            i += 1

    def word():
        nonlocal i
        s = i
        while i < n and ident_char(i):
            i += 1
        return bs[s:i]

    def expect_word(w):
        got = word()
        if len(got) != len(w):
            raise LexError('expected %s' % w)
        for b, ch in zip(got, w):
            lo, up = ord(ch.lower()), ord(ch.upper())
            if not decide(ip, z3.Or(b.z() == lo, b.z() == up)):
                raise LexError('expected %s' % w)
    while True:
        skip_ws()
        if i >= n:
            return out
        expect_word('SET')
        skip_ws()
        name = word()
        if not name:
            raise LexError('missing parameter name')
        skip_ws()
        expect_word('TO')
        skip_ws()
        esc = scs == 'off'
        if i + 1 < n and (is_(i, 'E') or is_(i, 'e')) and is_(i + 1, "'"):
            esc = True
            i += 1
        if i >= n or not is_(i, "'"):
            raise LexError('expected string literal')
        i += 1
        val = []
        while True:
            if i >= n:
                raise LexError('unterminated string literal')
            if esc and is_(i, '\\'):
                if i + 1 >= n:
                    raise LexError('unterminated string literal')
                val.append(bs[i + 1])
                i += 2
                continue
            if is_(i, "'"):
                if i + 1 < n and is_(i + 1, "'"):
                    val.append(bs[i])
                    i += 2
                    continue
                i += 1
                break
            val.append(bs[i])
            i += 1
        skip_ws()
        if i >= n or not is_(i, ';'):
            raise LexError('expected ; after SET')
        i += 1
        out.append((name, val))


@expectation('c12_sync')
def c12_sync(expected_assignments, scs='on'):
    """Native replay: lex the SQL the compiled Server::sync_parameters wrote (concretely, same lexer rules) and compare."""
    def f(res):
        r = res[0]
        if 'panic' in r:
            return True, 'native panic: ' + r['panic']
        w = bytes.fromhex(r.get('written_hex', ''))
        sql = b''
        if w:
            sql = w[5:-1] if w[:1] == b'Q' else w
        try:
            got = sorted(conc_lex(sql, scs))
        except ValueError as e:
            return True, 'SQL sent %r is not a sequence of SET name TO literal; statements: %s' % (sql, e)
        want = sorted((k, v) for k, v in expected_assignments)
        return (got != want, 'SQL sent %r assigns %r, client expects %r' % (sql, got, want))
    return f


def conc_lex(sql, scs='on'):
    s = sql.decode('latin1')
    i = 0
    out = []
    n = len(s)
    while True:
        while i < n and s[i] == ' ':
            i += 1
        if i >= n:
            return out
        m = re.match(r'(?i)SET +([A-Za-z0-9_]+) +TO +(E?)\'', s[i:])
        if not m:
            raise ValueError('unexpected text at offset %d' % i)
        name = m.group(1)
        esc = bool(m.group(2)) or scs == 'off'
        i += m.end()
        val = ''
        while True:
            if i >= n:
                raise ValueError('unterminated literal')
            if esc and s[i] == '\\':
                if i + 1 >= n:
                    raise ValueError('unterminated literal')
                val += s[i + 1]
                i += 2
                continue
            if s[i] == "'":
                if i + 1 < n and s[i + 1] == "'":
                    val += "'"
                    i += 2
                    continue
                i += 1
                break
            val += s[i]
            i += 1
        while i < n and s[i] == ' ':
            i += 1
        if i >= n or s[i] != ';':
            raise ValueError('expected ; at offset %d' % i)
        i += 1
        out.append([name, val])


def o1_sync(chk, prog, lens, server_lens=None, scs='on'):
    """lens: dict key -> client value length (symbolic value); server_lens: dict key -> length of a symbolic value the
    server connection currently has (default: the pooler defaults)."""
    server_lens = server_lens or {}
    name = 'O1-sync-' + '_'.join('%s%d' % (k[:4], v) for k, v in sorted(lens.items())) + \
        ('-srv-' + '_'.join('%s%d' % (k[:4], v) for k, v in sorted(server_lens.items())) if server_lens else '')
    if scs != 'on':
        name += '-scs_' + scs
    ob = chk.begin(name, 'Server::sync_parameters: client values of %r are symbolic strings over the alphabet {quote, backslash, space, ;, a, '
                   'double quote}; the SQL sent, lexed as PostgreSQL would, assigns exactly the client values of the differing tracked '
                   'parameters and nothing else; nothing is sent when nothing differs; standard_conforming_strings on this connection (and wanted by this client): %s' % (sorted(lens), scs), {'symbolic_values': lens, 'alphabet': "'\\\\ ;a\"", 'standard_conforming_strings': scs})
    sp = fn(prog, 'Server::sync_parameters')
    ip = chk.interp(prog, name)
    install_stats_noops(ip)

    def harness(ip_):
        cvals = dict(DEFAULTS)
        cvals['standard_conforming_strings'] = scs
        sym = {}
        for k, ln in lens.items():
            sym[k] = sym_value(ip_, ln, k[:3])
            cvals[k] = Seq(list(sym[k]), 'string')
        client = mk_server_params(prog, cvals)
        svals = dict(DEFAULTS)
        svals['standard_conforming_strings'] = scs
        ssym = {}
        for k, ln in server_lens.items():
            ssym[k] = sym_value(ip_, ln, 's' + k[:3])
            svals[k] = Seq(list(ssym[k]), 'string')
        # the server acknowledges every statement; supply enough replies
        reply = []
        for _ in range(len(lens)):
            reply += [BV(8, x) for x in b'C\x00\x00\x00\x08SET\x00']
        reply += [BV(8, x) for x in b'Z\x00\x00\x00\x05I']
        st = StreamV(reply, 'server')
        srv = mk_server(ip_, prog, st, server_parameters=mk_server_params(prog, svals))
        try:
            r = ip_.drive(ip_.call_function(sp, [Ptr(Cell(srv, 'server')), Ptr(Cell(client, 'client_params'))]))
        except Panic as p:
            raise Inconclusive('sync_parameters panic: ' + p.msg)
        ob.nontrivial += 1
        # reference: which parameters differ
        differing = []
        for k in lens:
            if k in ssym:
                same = len(ssym[k]) == len(sym[k]) and all(decide(ip_, b.v == c.v) for b, c in zip(sym[k], ssym[k]))
            else:
                dflt = DEFAULTS[k].encode()
                same = len(dflt) == len(sym[k]) and all(decide(ip_, b.v == c) for b, c in zip(sym[k], dflt))
            if not same:
                differing.append(k)
        out = list(st.out)

        def rep(key, what):
            m = ip_.model_for()
            params = {k: bytes(m.eval(b.z(), True).as_long() for b in v).decode('latin1') for k, v in sym.items()}
            sparams = {k: bytes(m.eval(b.z(), True).as_long() for b in v).decode('latin1') for k, v in ssym.items()}
            want = [[k, params[k]] for k in differing]
            chk.report(ob, key, what + ' (client values %r, server values %r)' % (params, sparams), {'client_params': params, 'server_params': sparams},
                       {'commands': [{'op': 'server_script', 'pre': {'server_params': dict(sparams, standard_conforming_strings=scs)}, 'inbound_hex': bytes(b.v for b in reply).hex(),
                                      'steps': [{'do': 'sync_parameters', 'params': dict(DEFAULTS, standard_conforming_strings=scs, **params)}]}],
                        'expect': ['c12_sync', want, scs]})
        if not differing:
            if out:
                rep('C12/O1/sql-when-nothing-differs', 'sync_parameters sends SQL although no tracked parameter differs')
            return
        if len(out) < 6 or not (out[0].concrete and out[0].v == ord('Q')):
            rep('C12/O1/no-sql', 'sync_parameters sends no Query although tracked parameters differ')
            return
        sql = out[5:-1]
        try:
            assigns = lex_sets(ip_, sql, scs)
        except LexError as e:
            rep('C12/O1/malformed-sql' + ('' if scs == 'on' else '/scs-off'), 'the SQL built from the client values is not a sequence of SET name TO literal; statements (%s)' % e)
            return
        # compare as multisets
        got = []
        for nm, val in assigns:
            nmb = bytes(b.v for b in nm) if all(b.concrete for b in nm) else None
            got.append((nmb.decode() if nmb is not None else None, val))
        okk = len(got) == len(differing) and sorted(g[0] for g in got) == sorted(differing)
        if okk:
            for nm, val in got:
                if ip_.model_for(z3.Not(seq_equal(val, sym[nm]))) is not None:
                    okk = False
        if not okk:
            rep('C12/O1/wrong-assignment' + ('' if scs == 'on' else '/scs-off'), 'the SQL assigns something other than the client values')
        if len(ob.samples) < 3:
            m = ip_.model_for()
            ob.samples.append({'sql': bytes(m.eval(b.z(), True).as_long() for b in sql).decode('latin1')})
    ip.explore(harness, max_paths=60000)
    chk.absorb(ob, ip)
    chk.end(ob)


@expectation('c12_resync')
def c12_resync():
    """Native: sync_parameters twice on one connection whose server REFUSES the first batch: both calls must write a Query."""
    def f(res):
        r = res[0]
        if 'panic' in r:
            return True, 'native panic: ' + r['panic']
        w = bytes.fromhex(r.get('written_hex', ''))
        n, i = 0, 0
        while i + 5 <= len(w):
            ln = int.from_bytes(w[i + 1:i + 5], 'big')
            n += w[i:i + 1] == b'Q'
            i += 1 + ln
        return n < 2, 'native: %d Query message(s) written by the two sync_parameters calls (the server refused the first batch)' % n
    return f


def o1_sync_refused(chk, prog):
    """The server refuses the SET batch (one value it does not accept aborts the whole implicit transaction; Server::query returns Ok all the
    same).  The connection then holds NONE of the requested values: the next client that wants one of them must get its SET sent."""
    name = 'O1-sync-refused'
    ob = chk.begin(name, 'Server::sync_parameters twice on one connection, the same client values both times (application_name and TimeZone differ from the '
                   'connection\'s); the server answers the first batch with ErrorResponse + ReadyForQuery (refused: nothing took effect) or with CommandComplete + '
                   'ParameterStatus + ReadyForQuery (applied) -- solver\'s choice: after a refusal the second call sends the SETs again; what the pooler believes the '
                   'connection holds follows the server\'s ParameterStatus reports only', {'calls': 2})
    sp = fn(prog, 'Server::sync_parameters')
    ip = chk.interp(prog, name)
    install_stats_noops(ip)

    def harness(ip_):
        cvals = dict(DEFAULTS)
        cvals['application_name'] = 'reports'
        cvals['TimeZone'] = 'Mars/Phobos'
        client = mk_server_params(prog, cvals)
        refused = ip_.choose(2, 'server_refuses') == 1

        def m_(code, body):
            return [BV(8, x) for x in code + (len(body) + 4).to_bytes(4, 'big') + body]
        if refused:
            first = m_(b'E', b'SERROR\0C22023\0Minvalid value for parameter "TimeZone"\0\0') + m_(b'Z', b'I')
        else:
            first = m_(b'C', b'SET\0') + m_(b'S', b'application_name\0reports\0') + m_(b'C', b'SET\0') + m_(b'S', b'TimeZone\0Mars/Phobos\0') + m_(b'Z', b'I')
        second = m_(b'E', b'SERROR\0C22023\0Minvalid value for parameter "TimeZone"\0\0') + m_(b'Z', b'I')
        st = StreamV(first + second, 'server')
        st.eof_pending = True
        srv = Ptr(Cell(mk_server(ip_, prog, st, server_parameters=mk_server_params(prog, dict(DEFAULTS))), 'server'))
        try:
            ip_.drive(ip_.call_function(sp, [srv, Ptr(Cell(client, 'client_params'))]))
            n1 = len(st.out)
            ip_.drive(ip_.call_function(sp, [srv, Ptr(Cell(client, 'client_params'))]))
        except Panic as p:
            raise Inconclusive('sync_parameters panic: ' + p.msg)
        ob.nontrivial += 1
        n2 = len(st.out) - n1
        if refused and (n1 == 0 or n2 == 0):
            chk.report(ob, 'C12/O1/refused-set-believed', 'the server refused the SET batch (nothing took effect) but the pooler believes the connection holds the requested values: '
                       'the next client that wants them gets no SET (%d bytes sent by the first call, %d by the second) and runs with the connection\'s real values' % (n1, n2), {},
                       {'commands': [{'op': 'server_script', 'pre': {'server_params': {}}, 'inbound_hex': bytes(b.v for b in first + second).hex(),
                                      'steps': [{'do': 'sync_parameters', 'params': cvals}, {'do': 'sync_parameters', 'params': cvals}]}], 'expect': ['c12_resync']})
        if not refused and n2 != 0:
            chk.report(ob, 'C12/O1/applied-set-repeated', 'the server applied and reported the values, yet the second call sends them again', {}, {'commands': [], 'expect': ['c12_never']})
        if len(ob.samples) < 2:
            ob.samples.append({'refused': refused, 'first_call_bytes': n1, 'second_call_bytes': n2})
    ip.explore(harness)
    chk.absorb(ob, ip)
    chk.end(ob)


@expectation('c12_never')
def c12_never():
    return lambda res: (False, 'no native replay is defined for this report')


@expectation('c12_status')
def c12_status(exp_server, exp_client):
    def f(res):
        r = res[0]
        if 'panic' in r:
            return True, 'native panic: ' + r['panic']
        fs, fc = r['final']['server_params'], r['final']['client_params']
        d = []
        for k, v in exp_server.items():
            if fs.get(k) != v:
                d.append('server copy %s=%r, expected %r' % (k, fs.get(k), v))
        for k, v in exp_client.items():
            if fc.get(k) != v:
                d.append('client copy %s=%r, expected %r' % (k, fc.get(k), v))
        return bool(d), '; '.join(d) or 'agrees'
    return f


KEYS = ['client_encoding', 'DateStyle', 'TimeZone', 'standard_conforming_strings', 'application_name', 'timezone', 'datestyle',
        'server_version', 'is_superuser', 'Timezone']
NORMAL = {'timezone': 'TimeZone', 'datestyle': 'DateStyle'}


def o2_status(chk, prog, key, vlen, with_client):
    name = 'O2-status-%s-v%d-%s' % (key, vlen, 'client' if with_client else 'noclient')
    ob = chk.begin(name, 'Server::recv on ParameterStatus(%r, %d-byte symbolic value) + ReadyForQuery%s: tracked parameters update the server copy '
                   'and the client copy (with timezone/datestyle spelling normalised), others change nothing'
                   % (key, vlen, ' with a client attached' if with_client else ' with no client'), {'key': key, 'value_len': vlen})
    recv = fn(prog, 'Server::recv')
    ip = chk.interp(prog, name)
    install_stats_noops(ip)

    def harness(ip_):
        val = sym_value(ip_, vlen, 'v')
        body = [BV(8, c) for c in key.encode()] + [BV(8, 0)] + val + [BV(8, 0)]
        msgs = [Msg(BV(8, ord('S')), body), Msg(BV(8, ord('Z')), [BV(8, ord('I'))])]
        st = StreamV([b for m in msgs for b in m.bytes], 'server')
        srv = mk_server(ip_, prog, st)
        client = mk_server_params(prog)
        arg = some(ip_, Ptr(Cell(client, 'client_params'))) if with_client else none(ip_)
        try:
            r = ip_.drive(ip_.call_function(recv, [Ptr(Cell(srv, 'server')), arg]))
        except Panic as p:
            raise Inconclusive('recv panic: ' + p.msg)
        ob.nontrivial += 1
        k = NORMAL.get(key, key)
        tracked = k in TRACKED

        def read(pm, kk):
            m = getf(prog, pm, 'ServerParameters', 'parameters')
            for ek, cell in m.entries:
                if bytes(b.v for b in ek.items) == kk.encode():
                    return list(cell.val.items)
            return None
        sp = sfield(prog, srv, 'server_parameters')
        bad = []
        for who, pm in (('server', sp), ('client', client)):
            if who == 'client' and not with_client:
                want_changed = False
            else:
                want_changed = tracked
            for kk in set(TRACKED + [key, k]):
                cur = read(pm, kk)
                if kk == k and want_changed:
                    if cur is None or ip_.model_for(z3.Not(seq_equal(cur, val))) is not None:
                        bad.append('%s copy of %s not updated' % (who, kk))
                else:
                    dflt = DEFAULTS.get(kk)
                    if dflt is None:
                        if cur is not None:
                            bad.append('%s copy gained untracked key %s' % (who, kk))
                    elif cur is None or bytes(b.v if b.concrete else 0 for b in cur) != dflt.encode() or not all(b.concrete for b in cur):
                        bad.append('%s copy of %s changed' % (who, kk))
        if bad:
            m = ip_.model_for()
            v = bytes(m.eval(b.z(), True).as_long() for b in val).decode('latin1')
            exp_s = dict(DEFAULTS)
            exp_c = dict(DEFAULTS)
            if tracked:
                exp_s[k] = v
                if with_client:
                    exp_c[k] = v
            chk.report(ob, 'C12/O2/tracking/%s' % key, 'ParameterStatus %s=%r: %s' % (key, v, '; '.join(bad)), {'key': key, 'value': v},
                       {'commands': [{'op': 'server_script', 'pre': {}, 'inbound_hex': stream_hex(m, msgs),
                                      'steps': [{'do': 'recv', 'with_client_params': with_client}]}], 'expect': ['c12_status', exp_s, exp_c]})
        if len(ob.samples) < 2:
            ob.samples.append({'key': key, 'tracked': tracked})
    ip.explore(harness)
    chk.absorb(ob, ip)
    chk.end(ob)


def _dispatch(chk, f, args):
    f(chk, *args)


def main(chk):
    chk.explanation = (
        'Solver-based checking of session-parameter handling executed from MIR: Server::sync_parameters (compare_params, query, send, '
        'recv underneath) for symbolic client values over an alphabet containing quote, backslash, space, semicolon and double quote -- '
        'the SQL actually written to the server is lexed the way PostgreSQL reads string literals and must assign exactly the client '
        'values of the differing tracked parameters -- lexed under standard_conforming_strings = on AND off (the connection may still hold a previous client\'s setting; E\'\' literals '
        'are understood); a SET batch the server REFUSES (ErrorResponse, nothing took effect) is not taken for applied: the next sync sends the values again; '
        'Server::recv on ParameterStatus for tracked, untracked and alternative spellings. '
        'Counterexamples are replayed against the compiled Server over loopback.')
    chk.assumptions += [
        'standard_conforming_strings = on on the server (backslash is an ordinary character in literals)',
        'values up to 2 (3 thorough) bytes over a 6-character alphabet; the backend GUC table itself is not modelled',
        'that sync_parameters is called at every checkout and isolation between clients beyond per-client structs live in Client::handle: outside',
    ]
    prog = chk.program('on')
    tasks = []
    L = (0, 1, 2) if not chk.thorough else (0, 1, 2, 3)
    for n in L:
        tasks.append((o1_sync, (prog, {'application_name': n})))
    tasks.append((o1_sync, (prog, {'TimeZone': 1, 'application_name': 1})))
    tasks.append((o1_sync, (prog, {'application_name': 1}, {'application_name': 1})))
    tasks.append((o1_sync_refused, (prog,)))
    # a connection whose standard_conforming_strings is OFF (a tracked parameter: a legacy client sets it, and the connection keeps it until the
    # next client's batch -- which is lexed under the OLD setting): backslash is an escape character there
    for n in (1, 2):
        tasks.append((o1_sync, (prog, {'application_name': n}, None, 'off')))
    tasks.append((o1_sync, (prog, {'application_name': 2}, {'application_name': 2})))
    tasks.append((o1_sync, (prog, {'application_name': 5})) if False else (o1_sync, (prog, {'DateStyle': 2})))
    for k in KEYS:
        tasks.append((o2_status, (prog, k, 1, True)))
    tasks.append((o2_status, (prog, 'application_name', 2, False)))
    tasks.append((o2_status, (prog, 'TimeZone', 0, True)))
    chk.parallel(_dispatch, tasks)

    # whole sessions (Client::handle executed): before each statement of the client runs, the backend's tracked parameters are the client's
    hobl.handle_obligations(chk, chk.program('on'), {'C12'}, ['params', 'two-clients'])

if __name__ == '__main__':
    run_check('C12', main)
