"""Shared machinery for the Server-family obligations (C02, C03, C08-O3, C12, C20): symbolic Server
pre-states, scripted server replies, and a reference model of `Server::recv`'s contract written from the
PostgreSQL protocol documentation (message flow) and the pooler's documented buffering rules."""
import os, sys
sys.path.insert(0, os.path.dirname(os.path.dirname(os.path.abspath(__file__))))
import z3
from harness.pgcat_state import *
from harness.server_state import *
from harness import wire
from mirsym.interp import Panic, Inconclusive
from mirsym.values import *
from mirsym.models.io import StreamV
from mirsym.models.util import items, deref, variant, payload, some, none, unit

FLUSH_LIMIT = 8196     # documented in src/server.rs: "buffer until we reach limit"


def sym_flag(ip, name):
    return ip.fresh(1, name)


def fn(prog, name, n=1):
    c = prog.lookup(name)
    if len(c) != 1:
        raise Inconclusive("cannot locate %s (%d candidates)" % (name, len(c)))
    return c[0]


def decide(ip, cond):
    """Truth value of a predicate on this path (forks if the implementation left it undecided)."""
    return ip.branch(cond, 'ref')


class Msg:
    def __init__(self, code, body):
        self.code = code
        self.body = body
        self.bytes = [code] + wire.be(len(body) + 4, 4) + list(body)

    def code_is(self, ip, ch):
        c = self.code
        return decide(ip, (c.v == ord(ch)) if not c.concrete else (c.v == ord(ch)))

    def klass(self, ip):
        for ch in 'ZECSDGHdc1':
            if self.code_is(ip, ch):
                return ch
        return '?'

    def cstring(self, ip, text):
        """Does the body start with the NUL-terminated string `text`?"""
        t = text.encode() + b'\0'
        if len(self.body) < len(t):
            return False
        for b, ch in zip(self.body, t):
            if not decide(ip, (b.v == ch) if not b.concrete else (b.v == ch)):
                return False
        return True


def sym_messages(ip, shape, exclude=('S',), hint='m'):
    """shape: list of body lengths; codes and bodies symbolic.  Malformed-by-construction cases that only a broken
    *server* could send (ReadyForQuery without status byte; ParameterStatus without two strings) are assumed away."""
    out = []
    for i, bl in enumerate(shape):
        code = ip.fresh(8, '%s%d_code' % (hint, i))
        body = [ip.fresh(8, '%s%d_b%d' % (hint, i, j)) for j in range(bl)]
        for ch in exclude:
            ip.assume(code.v != ord(ch))
        if bl == 0:
            ip.assume(code.v != ord('Z'))
        out.append(Msg(code, body))
    return out


class RefState:
    """Reference (specification) state of a server connection as the pooler must track it."""

    def __init__(self, in_tx, data_avail, copy, bad, cl_set, cl_prep, buflen):
        self.in_tx, self.data_avail, self.copy, self.bad = in_tx, data_avail, copy, bad
        self.cl_set, self.cl_prep, self.buflen = cl_set, cl_prep, buflen


def ref_recv(ip, st, msgs, start):
    """Reference for one `recv` call.  Returns ('ok', n_consumed) | ('err', n_consumed).  Mutates st.
    Contract (PostgreSQL protocol + the pooler's buffering rule): consume whole messages, in order, until a flush point --
    ReadyForQuery; CopyInResponse; CopyOutResponse; DataRow/CopyData once >= 8196 bytes are buffered -- and hand back
    exactly those bytes; track transaction status from ReadyForQuery; stream failure => connection marked bad."""
    i = start
    while True:
        if i >= len(msgs):
            st.bad = True
            return 'err', i - start
        m = msgs[i]
        i += 1
        st.buflen += len(m.bytes)
        k = m.klass(ip)
        if k == 'Z':
            s = m.body[0]
            if decide(ip, z3.Or(s.z() == ord('T'), s.z() == ord('E'))):
                st.in_tx = True
            elif decide(ip, s.z() == ord('I')):
                st.in_tx = False
            else:
                st.bad = True
                return 'err', i - start
            st.data_avail = False
            return 'ok', i - start
        if k == 'E':
            st.copy = False
        elif k == 'C':
            st.copy = False
            if m.cstring(ip, 'SET'):
                if not st.in_tx:
                    st.cl_set = True
            elif m.cstring(ip, 'PREPARE'):
                st.cl_prep = True
        elif k == 'D':
            st.data_avail = True
            if st.buflen >= FLUSH_LIMIT:
                return 'ok', i - start
        elif k == 'G':
            st.copy = True
            return 'ok', i - start
        elif k == 'H':
            st.copy = True
            st.data_avail = True
            return 'ok', i - start
        elif k == 'd':
            if st.buflen >= FLUSH_LIMIT:
                return 'ok', i - start


def seq_equal(a, b):
    """z3 Bool: two byte lists are equal (identity / concrete pairs are decided in Python)."""
    if len(a) != len(b):
        return z3.BoolVal(False)
    cs = []
    for x, y in zip(a, b):
        if x is y:
            continue
        if x.concrete and y.concrete:
            if x.v != y.v:
                return z3.BoolVal(False)
            continue
        cs.append(x.z() == y.z())
    return z3.And(*cs) if cs else z3.BoolVal(True)


_PREBUF_CACHE = {}


def flag_val(ip, v):
    """Concrete bool of a BV1 on this path (forking if undecided)."""
    if v.concrete:
        return bool(v.v)
    return ip.branch(v.v == 1, 'flag')


def server_flags(ip, prog, srv):
    cs = sfield(prog, srv, 'cleanup_state')
    return {
        'in_transaction': sfield(prog, srv, 'in_transaction'), 'data_available': sfield(prog, srv, 'data_available'),
        'in_copy_mode': sfield(prog, srv, 'in_copy_mode'), 'bad': sfield(prog, srv, 'bad'),
        'needs_cleanup_set': getf(prog, cs, 'CleanupState', 'needs_cleanup_set'),
        'needs_cleanup_prepare': getf(prog, cs, 'CleanupState', 'needs_cleanup_prepare'),
    }


def mk_symbolic_server(ip, prog, stream, buffer_len=0, concrete_flags=None, **over):
    """Server with symbolic status flags (not bad), `buffer_len` bytes already buffered (symbolic; for large fills
    only the last 8 bytes are symbolic and the rest is a fixed pattern)."""
    if concrete_flags is None:
        pre = {
            'in_transaction': sym_flag(ip, 'pre_in_tx'), 'data_available': sym_flag(ip, 'pre_data_avail'),
            'in_copy_mode': sym_flag(ip, 'pre_copy'), 'needs_cleanup_set': sym_flag(ip, 'pre_cl_set'),
            'needs_cleanup_prepare': sym_flag(ip, 'pre_cl_prep'),
        }
    else:
        pre = {k: BV(1, int(bool(concrete_flags.get(k, False)))) for k in
               ('in_transaction', 'data_available', 'in_copy_mode', 'needs_cleanup_set', 'needs_cleanup_prepare')}
    if buffer_len <= 64:
        prebuf = [ip.fresh(8, 'buf%d' % i) for i in range(buffer_len)]
    else:
        fixed = _PREBUF_CACHE.get(buffer_len - 8)
        if fixed is None:
            fixed = _PREBUF_CACHE[buffer_len - 8] = [BV(8, 0x30 + (i % 10)) for i in range(buffer_len - 8)]
        prebuf = fixed + [ip.fresh(8, 'buf%d' % i) for i in range(8)]
    vals = dict(
        in_transaction=pre['in_transaction'], data_available=pre['data_available'], in_copy_mode=pre['in_copy_mode'],
        cleanup_state=mk_struct(prog, 'CleanupState', needs_cleanup_set=pre['needs_cleanup_set'],
                                needs_cleanup_prepare=pre['needs_cleanup_prepare']),
        buffer=Seq(list(prebuf), 'bytesmut'),
    )
    vals.update(over)
    srv = mk_server(ip, prog, stream, **vals)
    return srv, pre, prebuf


def pre_json(m, pre, prebuf=(), extra=None):
    def ev(x):
        return m.eval(x.z(), True).as_long()
    d = {k: bool(ev(v)) for k, v in pre.items()}
    d['buffer_hex'] = bytes(ev(b) for b in prebuf).hex()
    if extra:
        d.update(extra)
    return d


def stream_hex(m, msgs):
    return bytes(m.eval(b.z(), True).as_long() for mm in msgs for b in mm.bytes).hex()
