#!/usr/bin/env python3-vt
"""C20 -- mirroring never affects the primary path (send path)."""
import os, sys, itertools, re
sys.path.insert(0, os.path.dirname(os.path.dirname(os.path.abspath(__file__))))
import z3
from harness.common import run_check, expectation
from checks.serverfam import *
from checks.c03 import srv_expect
from mirsym.models.io import ChanV
from mirsym.models.util import ok, err
from mirsym.interp import Infeasible
from native import oracle


@expectation('c20_send')
def c20_send(msg_hex, want_mirrors, want_err):
    def f(res):
        r = res[0]
        if 'panic' in r:
            return True, 'native panic: ' + r['panic']
        d = []
        if r['steps'][0].get('blocked'):
            d.append('Server::send did not return within 2 s: the request path waits on a mirror')
        if ('err' in r['steps'][0]) != want_err:
            d.append('send result %r' % (r['steps'][0],))
        if r.get('written_hex') != msg_hex:
            d.append('server received %s, request %s' % (r.get('written_hex'), msg_hex))
        got = [[m for m in ms if m != '66696c6c'] for ms in r['final']['mirrors']]
        if got != want_mirrors:
            d.append('mirrors received %r, required %r' % (got, want_mirrors))
        return bool(d), '; '.join(d) or 'agrees'
    return f


def o1_send(chk, prog, nmirrors, nbytes):
    name = 'O1-send-%dmirrors-%dbytes' % (nmirrors, nbytes)
    ob = chk.begin(name, 'Server::send with %d mirror channel(s), each with symbolic remaining capacity (0..10) and closed flag, message of %d '
                   'symbolic bytes, server write may fail: the server receives exactly the request and the result is the same for EVERY mirror '
                   'state; an open, non-full mirror channel receives exactly one byte-exact copy, a full or closed one nothing; no awaiting '
                   'operation on a mirror channel' % (nmirrors, nbytes), {'mirrors': nmirrors, 'bytes': nbytes, 'capacity': '0..10'})
    send = fn(prog, 'Server::send')
    ip = chk.interp(prog, name)
    install_stats_noops(ip)

    def harness(ip_):
        data = [ip_.fresh(8, 'd%d' % i) for i in range(nbytes)]
        chans = []
        for i in range(nmirrors):
            cap = ip_.fresh(64, 'cap%d' % i)
            ip_.assume(z3.ULE(cap.v, 10))
            chans.append(ChanV(cap, sym_flag(ip_, 'closed%d' % i), 'mirror%d' % i))
        precap = [c.capacity for c in chans]
        mm = mk_struct(prog, 'MirroringManager', byte_senders=Seq(list(chans), 'vec'),
                       disconnect_senders=Seq([ChanV(BV(64, 1), BV(1, 0), 'exit%d' % i) for i in range(nmirrors)], 'vec'))
        st = StreamV([], 'server', fail_writes=True)
        srv = mk_server(ip_, prog, st, mirror_manager=some(ip_, mm))
        try:
            r = ip_.drive(ip_.call_function(send, [Ptr(Cell(srv, 'server')), Ptr(Cell(Seq(list(data), 'bytesmut'), 'msg'))]))
        except Panic as p:
            raise Inconclusive('Server::send panic: ' + p.msg)
        ob.nontrivial += 1
        res = variant(ip_, r, 'Result')
        problems = []
        if ip_.env.get('awaited_channels'):
            problems.append(('awaits-mirror', 'the request path awaits a mirror channel operation (%r): a hung mirror would block the client' % ip_.env['awaited_channels']))
        if st.failed:
            if res != 'Err':
                problems.append(('result', 'a failed server write is reported as Ok'))
        else:
            if res != 'Ok' or ip_.model_for(z3.Not(seq_equal(st.out, data))) is not None:
                problems.append(('server-bytes', 'bytes written to the mirrored server differ from the request'))
        want = []
        for i, ch in enumerate(chans):
            closed = flag_val(ip_, ch.closed)
            full = decide(ip_, precap[i].v == 0)
            exp = 0 if (closed or full) else 1
            want.append(exp)
            if len(ch.sent) != exp:
                problems.append(('mirror-copies', 'mirror %d (closed=%s, full=%s) received %d copies, required %d' % (i, closed, full, len(ch.sent), exp)))
            elif exp == 1:
                got = items(ip_, ch.sent[0])
                if ip_.model_for(z3.Not(seq_equal(got, data))) is not None:
                    problems.append(('mirror-bytes', 'mirror %d received bytes that differ from the request' % i))
        for k, what in problems:
            m = ip_.model_for()
            hx = bytes(m.eval(b.z(), True).as_long() for b in data).hex()
            mirrors = [{'prefilled': 10 - m.eval(precap[i].z(), True).as_long(), 'closed': bool(m.eval(chans[i].closed.z(), True).as_long())} for i in range(nmirrors)]
            chk.report(ob, 'C20/O1/' + k, what, {'message_hex': hx, 'mirrors': mirrors},
                       {'commands': [{'op': 'server_script', 'pre': {'mirrors': mirrors}, 'inbound_hex': '', 'steps': [{'do': 'send', 'hex': hx}]}],
                        'expect': ['c20_send', hx, [[hx] * w for w in want], False]})
        if len(ob.samples) < 3:
            ob.samples.append({'mirror_copies': [len(c.sent) for c in chans], 'server_write_failed': st.failed, 'result': res})
    ip.explore(harness)
    chk.absorb(ob, ip)
    chk.end(ob)


# ------------------------------------------------------------------------------------------------ O2 mirror -> server mapping
from checks import fromconfig as FC


@expectation('c20_mapping')
def c20_mapping(want):
    def f(res):
        r = res[0]
        if 'panic' in r or 'error' in r:
            return ('panic' in r), 'native: %r' % (r,)
        return (r['mirrors'] != want, 'native mirrors per server %r, configured %r' % (r['mirrors'], want))
    return f


def o2_mapping(chk, prog, nservers, nmirrors):
    name = 'O2-mapping-%dservers-%dmirrors' % (nservers, nmirrors)
    ob = chk.begin(name, 'ConnectionPool::from_config (real coroutine, nothing connected) on a shard with %d servers and %d mirror entries whose '
                   'host byte, port and mirroring_target_index are symbolic: the mirrors attached to server i are exactly the entries '
                   'targeting i, with the MIRROR\'s host and port, in order; no server inherits another server\'s mirrors'
                   % (nservers, nmirrors), {'servers': nservers, 'mirrors': nmirrors})
    ip = chk.interp(prog, name)
    install_stats_noops(ip)

    def harness(ip_):
        cfg = FC.base_config(ip_, prog)
        servers = [FC.mk_srvcfg(ip_, prog, rstring('s%d' % i), BV(16, 5432 + i), BV(64, 0 if i == 0 else 1)) for i in range(nservers)]
        mirrors, meta = [], []
        for j in range(nmirrors):
            hb = ip_.fresh(8, 'mhost%d' % j)
            ip_.assume(z3.And(z3.UGE(hb.v, 97), z3.ULE(hb.v, 99)))
            port = ip_.fresh(16, 'mport%d' % j)
            tgt = ip_.fresh(64, 'mtarget%d' % j)
            ip_.assume(z3.ULE(tgt.v, nservers))          # nservers itself = dangling target
            mirrors.append(FC.mk_mirror(prog, Seq([hb], 'string'), port, tgt))
            meta.append((hb, port, tgt))
        pool = FC.mk_pool_cfg(ip_, prog, [('0', servers, mirrors)])
        pm = MapV('hashmap')
        pm.entries.append([rstring('db'), Cell(pool, 'pool')])
        setf(prog, cfg, 'Config', 'pools', pm)
        FC.install(ip_, cfg)
        try:
            r = FC.run_from_config(ip_, prog)
        except Panic as p:
            raise Inconclusive('from_config panic: ' + p.msg)
        ob.nontrivial += 1
        ents = FC.pool_entries(ip_, prog)
        if len(ents) != 1:
            raise Inconclusive('expected one pool, got %d' % len(ents))
        addrs = FC.addresses_of(ip_, prog, ents[0][2])[0]
        # reference mapping on this path
        tg = []
        for (hb, port, tgt) in meta:
            k = [x for x in range(nservers + 1) if decide(ip_, tgt.v == x)][0]
            tg.append(k)
        problems = None
        conds = []
        for i, a in enumerate(addrs):
            ms = getf(prog, a, 'Address', 'mirrors').items
            want = [j for j in range(nmirrors) if tg[j] == i]
            if len(ms) != len(want):
                problems = 'server %d has %d mirrors attached, %d configured for it' % (i, len(ms), len(want))
                break
            for mval, j in zip(ms, want):
                hb, port, tgt = meta[j]
                h = getf(prog, mval, 'Address', 'host').items
                conds.append(z3.And(getf(prog, mval, 'Address', 'port').z() == port.z(), h[0].z() == hb.z()) if len(h) == 1 else z3.BoolVal(False))
        m = None
        if problems is None and conds:
            m = ip_.model_for(z3.Not(z3.And(*conds)))
            if m is not None:
                problems = 'a mirror is attached with a host/port other than the configured one'
        if problems:
            m = m or ip_.model_for()
            mj = [{'host': chr(m.eval(hb.z(), True).as_long()), 'port': m.eval(port.z(), True).as_long(), 'target': m.eval(tgt.z(), True).as_long()}
                  for hb, port, tgt in meta]
            want_all = [[[x['host'], x['port']] for x in mj if x['target'] == i] for i in range(nservers)]
            chk.report(ob, 'C20/O2/mapping', 'mirror mapping: ' + problems + ' (mirrors %r)' % (mj,), {'servers': nservers, 'mirrors': mj},
                       {'commands': [{'op': 'mirror_mapping', 'servers': nservers, 'mirrors': mj}], 'expect': ['c20_mapping', want_all]})
        if len(ob.samples) < 2:
            ob.samples.append({'targets': tg, 'attached': [len(getf(prog, a, 'Address', 'mirrors').items) for a in addrs]})
    ip.explore(harness)
    chk.absorb(ob, ip)
    chk.end(ob)


# ------------------------------------------------------------------------------------------------ O3 the mirror task
@expectation('c20_mirror_task')
def c20_mirror_task():
    def f(res):
        r = res[0]
        if 'panic' in r or 'error' in r:
            return ('panic' in r), 'native: %r' % (r,)
        return (not r.get('whole_requests_only', True), 'native (slow mirror, real MirroredClient task over loopback): %s' % r.get('detail'))
    return f


def o3_mirror_task(chk, prog, nmsgs, fault):
    """MirroredClient::start's task (the real coroutine, select! and all) fed `nmsgs` requests through its channel, its connection(s) to the
    mirror scripted: what each mirror connection receives."""
    name = 'O3-mirror-task-%dmsgs-%s' % (nmsgs, fault)
    ob = chk.begin(name, 'the task MirroredClient::start spawns (real coroutine: bb8 checkout, select! over exit signal / mirror replies / request channel, '
                   'Server::send) fed %d requests with symbolic bytes; faults: %s. Every connection to the mirror must carry a concatenation of WHOLE '
                   'requests, in order, each at most once; a request cut short may only be the last thing ever written on its connection' %
                   (nmsgs, {'none': 'none', 'answers': 'none; the mirror ANSWERS every request (an ordinary result, BEGIN -> in transaction, SET -> session state: solver\'s choice)', 'write-error': 'any write to the mirror may fail (solver\'s choice)',
                            'timeout': 'any tokio timeout on the path may elapse after the mirror has taken only part of the bytes (solver\'s choice of where)'}[fault]),
                   {'requests': nmsgs, 'fault': fault})
    st_fn = [f for n, f in prog.funcs.items() if re.search(r'mirrors::<impl at [^>]*>::start$', n)]
    hb = [f for n, f in prog.funcs.items() if n.endswith('::has_broken')]
    if len(st_fn) != 1 or len(hb) != 1:
        raise Inconclusive('cannot locate MirroredClient::start / ServerPool::has_broken')
    ip = chk.interp(prog, name)
    install_stats_noops(ip)
    base = list(ip.overrides)
    from checks.c07 import mk_addr
    from mirsym.models.io import poll_pending, poll_ready

    found = []

    def harness(ip_):
        if found:
            return
        ip_.overrides[:] = base
        msgs = []
        for k in range(nmsgs):
            body = [ip_.fresh(8, 'm%d_%d' % (k, i)) for i in range(3)]
            msgs.append([BV(8, ord('Q'))] + wire.be(4 + len(body) + 1, 4) + body + [BV(8, 0)])
        conns = []              # [{'stream', 'server', 'cell', 'held'}]
        state = {'next': 0, 'spawned': None, 'gets': 0}

        def answer(ip2, st, data):
            # a live mirror answers every request it has received completely: an ordinary result, BEGIN (the session is now inside a
            # transaction) or SET (session state changed) -- solver's choice; its replies are read and discarded by the task
            is_client = any(len(data) == len(m_) and ip2.model_for(z3.Not(z3.And(*[a.z() == b.z() for a, b in zip(data, m_)]))) is None for m_ in msgs)
            # (whatever the pooler sends on its own is answered plainly: it is reported anyway)
            kind = (1 + ip2.choose(2, 'mirror_reply')) if is_client else 0
            tag = [b'SELECT 1\0', b'BEGIN\0', b'SET\0'][kind]
            status = b'T' if kind == 1 else b'I'
            for code, body in ((b'C', tag), (b'Z', status)):
                st.inbound.extend([BV(8, x) for x in code + (len(body) + 4).to_bytes(4, 'big') + body])

        def new_conn():
            st = StreamV([], 'mirror%d' % len(conns), fail_writes=(fault == 'write-error'))
            st.eof_pending = True            # a read past what the mirror has sent waits
            if fault == 'answers':
                st.on_write = answer
            srv = mk_server(ip_, prog, st, address=mk_addr(ip_, prog, 0, 1))
            c_ = {'stream': st, 'server': srv, 'cell': Cell(srv, 'mirror_server%d' % len(conns)), 'held': False, 'discarded': False}
            conns.append(c_)
            return c_

        def spawn(c, fut):
            state['spawned'] = fut
            return Opaque('JoinHandle', 'task')

        def pool_get(c, p):
            return Opaque('HookFuture', 'get')

        def recv_bytes(c, p):
            return Opaque('HookFuture', 'bytes')

        def recv_exit(c, p):
            return Opaque('HookFuture', 'exit')
        ip_.overrides[:0] = [
            (re.compile(r'^tokio::(?:task::)?spawn::<'), spawn),
            (re.compile(r'MirroredClient::create_pool$'), lambda c, p: Opaque('HookFuture', 'pool')),
            (re.compile(r'^(?:bb8::)?Pool::<.*>::get$'), pool_get),
            (re.compile(r'^(?:tokio::sync::mpsc::)?(?:bounded::)?Receiver::<(?:bytes::)?Bytes>::recv$'), recv_bytes),
            (re.compile(r'^(?:tokio::sync::mpsc::)?(?:bounded::)?Receiver::<\(\)>::recv$'), recv_exit),
            (re.compile(r'^<(?:bb8::)?PooledConnection<.*> as (?:std::ops::)?(?:Deref|DerefMut)>::(deref|deref_mut)$'), lambda c, g: (deref(c.ip, g) if isinstance(g, Ptr) else g).fields[0]),
            # tokio::select!: executed as the macro lowers it; the branch polled first is the solver's choice
            (re.compile(r'^tokio::macros::support::thread_rng_n$'), lambda c, n: BV(32, c.ip.choose(3, 'select_start'))),
            (re.compile(r'^tokio::future::poll_fn::poll_fn::<'), lambda c, f_: Opaque('PollFn', 'pollfn', f_)),
            (re.compile(r'^<tokio::future::poll_fn::PollFn<.*> as (?:futures::|std::future::)?Future>::poll$'),
             lambda c, pin, cx: c.ip.call_value(c.ip.load(pin.fields[0].cell, pin.fields[0].path).data, [cx])),
            (re.compile(r'CachedResolver::enabled$'), lambda c, *a: BV(1, 0)),
            (re.compile(r'^(?:arc_swap::)?ArcSwapAny::<.*>::load$'), lambda c, *a: Opaque('Guard', 'resolver')),
            (re.compile(r'^<(?:arc_swap::)?Guard<.*> as (?:std::ops::)?Deref>::deref$'), lambda c, *a: Ptr(Cell(Ptr(Cell(Opaque('CachedResolver', 'r'), 'r')), 'g'))),
        ]
        ip_.lazy_hook = lambda ip3, p, c: Ptr(Cell(Opaque('ArcSwap', 'CACHED_RESOLVER'), 'lazy'))

        def poll_hook(ip2, co, ptr):
            if not (isinstance(co, Opaque) and co.ty == 'HookFuture'):
                raise Inconclusive('poll of %r' % (co,))
            if co.tag == 'pool':
                return poll_ready(ip2, Opaque('Bb8Pool', 'mirror_pool'))
            if co.tag == 'get':
                state['gets'] += 1
                if state['gets'] > nmsgs + 3:
                    raise Infeasible('mirror task keeps looping')          # (bounded exploration: the channel is closed by then)
                cur = [x for x in conns if not x['discarded']]
                c_ = cur[0] if cur else new_conn()
                c_['held'] = True
                return poll_ready(ip2, ok(ip2, Agg([Ptr(c_['cell'], ())], 'PooledConnection')))
            if co.tag == 'exit':
                return poll_pending(ip2)
            if co.tag == 'bytes':
                k = state['next']
                state['next'] += 1
                if k < nmsgs:
                    return poll_ready(ip2, some(ip2, Seq(list(msgs[k]), 'bytes')))
                return poll_ready(ip2, none(ip2))
            raise Inconclusive('poll of hook future ' + co.tag)
        ip_.poll_hook = poll_hook

        def drop_hook(ip2, frame, place):
            ty = ip2.place_type(frame, place) or ''
            if 'PooledConnection<' in ty and not ty.startswith('&') and not ty.startswith('*'):
                try:
                    v = ip2.read_place(frame, place)
                except Inconclusive:
                    return
                if isinstance(v, Agg) and v.ty == 'PooledConnection':
                    for c_ in conns:
                        if c_['cell'] is v.fields[0].cell and c_['held']:
                            c_['held'] = False
                            broken = flag_val(ip2, ip2.call_function(hb[0], [Ptr(Cell(Opaque('ServerPool', 'mgr'), 'mgr')), Ptr(c_['cell'], ())]))
                            c_['discarded'] = bool(broken)
        ip_.drop_hook = drop_hook
        if fault == 'timeout':
            def partial(ip2, dur, fut):
                # the deadline passes while the mirror has taken only the first k bytes of what is being written (k: solver's choice)
                k = [0, 2, 5][ip2.choose(3, 'mirror_took')]
                for c_ in conns:
                    c_['stream'].stall_after = k
                try:
                    r = ip2.poll(Ptr(Cell(fut, 'timed_future'), ()))
                finally:
                    for c_ in conns:
                        c_['stream'].stall_after = None
                return r
            ip_.env['elapsed_after_partial_progress'] = partial
        else:
            ip_.env['no_timeouts'] = True
        names = prog.src.structs['MirroredClient']
        vals = {'address': mk_addr(ip_, prog, 0, 1), 'user': Opaque('User', 'u'), 'database': rstring('db'),
                'bytes_rx': Opaque('Receiver', 'bytes_rx'), 'disconnect_rx': Opaque('Receiver', 'exit_rx')}
        mc = Agg([vals[n] for n in names], 'MirroredClient', list(names))
        try:
            ip_.call_function(st_fn[0], [mc])
            if state['spawned'] is None:
                raise Inconclusive('MirroredClient::start did not spawn a task')
            ip_.drive(state['spawned'], max_polls=16 * (nmsgs + 2))
        except Panic as p:
            raise Inconclusive('mirror task panic: ' + p.msg)
        ob.nontrivial += 1
        # ---- reference: every connection carries whole requests, in order, at most once; a cut request only as a connection's last bytes
        nxt = 0
        problems = []
        for ci, c_ in enumerate(conns):
            out = c_['stream'].out
            pos = 0
            while pos < len(out):
                hit = None
                for k in range(nxt, nmsgs):
                    m_ = msgs[k]
                    if out[pos:pos + len(m_)] and len(out) - pos >= len(m_) and ip_.model_for(z3.Not(z3.And(*[a.z() == b.z() for a, b in zip(out[pos:pos + len(m_)], m_)]))) is None:
                        hit = k
                        break
                if hit is None:
                    rest = out[pos:]
                    whole_later = any(len(rest) < len(msgs[k]) and ip_.model_for(z3.Not(z3.And(*[a.z() == b.z() for a, b in zip(rest, msgs[k])]))) is None for k in range(nxt, nmsgs))
                    if whole_later:
                        # a request cut short: fine only if nothing follows it on this connection (we are at the end of `out` by construction)
                        break
                    problems.append('connection %d carries bytes that are not a whole request of the client at offset %d' % (ci, pos))
                    break
                nxt = hit + 1
                pos += len(msgs[hit])
            # a cut request followed by more bytes shows up above as "not a whole request" at the position of the cut
        # explicit: partial prefix followed by a later request on the same connection
        for ci, c_ in enumerate(conns):
            out = c_['stream'].out
            calls = c_['stream'].write_calls
            if any(getattr(w, 'partial', False) for w in calls[:-1]):
                problems.append('connection %d: a request was cut short and the connection was used again afterwards' % ci)
        for what in problems[:1]:
            found.append(1)
            m = ip_.model_for()
            chk.report(ob, 'C20/O3/mirror-stream', 'the mirror task sends a mirror something that is not a sequence of whole requests: %s (streams: %s)' %
                       (what, [bytes(m.eval(b.z(), True).as_long() for b in c_['stream'].out).hex() for c_ in conns]), {},
                       {'commands': [{'op': 'mirror_task_slow', 'mode': 'answers' if fault == 'answers' else 'slow'}], 'expect': ['c20_mirror_task']})
        if len(ob.samples) < 2:
            ob.samples.append({'connections': len(conns), 'bytes_per_connection': [len(c_['stream'].out) for c_ in conns]})
    ip.explore(harness, max_paths=4000)
    chk.absorb(ob, ip)
    chk.end(ob)


def _dispatch(chk, f, args):
    f(chk, *args)


def main(chk):
    chk.explanation = (
        'Solver-based checking of the mirrored request path executed from MIR: Server::send -> mirror_send -> MirroringManager::send '
        'with 0-2 (3 thorough) mirror channels whose remaining capacity and closed flag are symbolic, symbolic message bytes and '
        'write faults on the real server: the real server gets exactly the request and the same Result for every mirror state; each '
        'mirror channel gets one byte-exact copy iff it is open and has capacity; any awaiting channel operation on the path is flagged. '
        'tokio mpsc try_send/capacity/is_closed are modelled by contract. (O2) mirror -> server mapping in from_config. (O3) THE MIRROR TASK: the coroutine '
        'MirroredClient::start spawns (bb8 checkout, tokio::select! over exit signal / mirror replies / request channel, Server::send, has_broken at guard drop) is '
        'executed from MIR on requests with symbolic bytes against a mirror that is silent, answers (result / BEGIN / SET: solver\'s choice), fails writes, or '
        'stalls so that a timeout elapses after part of a request was written: each mirror connection carries whole requests of the client only, in order, each at '
        'most once; a request cut short is the last thing written on its connection. Counterexamples are replayed on the compiled code with real '
        'tokio channels and a real MirroringManager.')
    chk.assumptions += [
        'tokio::sync::mpsc::Sender::{try_send, capacity, is_closed} contracts',
        'mirror task: bb8 = one connection at a time, replaced when has_broken says so; added latency on the primary path is not measured',
    ]
    prog = chk.program('on')
    tasks = []
    for nm in (0, 1, 2) + ((3,) if chk.thorough else ()):
        for nb in (0, 3):
            tasks.append((o1_send, (prog, nm, nb)))
    for ns, nm in ((1, 1), (2, 1), (2, 2)) + (((3, 2),) if chk.thorough else ()):
        tasks.append((o2_mapping, (prog, ns, nm)))
    for nmsg, fault in ((2, 'none'), (2, 'answers'), (2, 'write-error'), (2, 'timeout')) + (((3, 'write-error'), (3, 'timeout')) if chk.thorough else ()):
        tasks.append((o3_mirror_task, (prog, nmsg, fault)))
    chk.parallel(_dispatch, tasks)
    # a mirror's pool is built without plugins: its connections must not run the general [plugins] block (prewarm queries are not copies of
    # anything the mirrored server got) -- bb8's connect hook from MIR (the C18 obligation instantiated for this property)
    import checks.c18 as c18mod
    try:
        c18mod.o4_connect(chk, prog, props=('C20',))
    except Inconclusive as e:
        chk.note_inconclusive('O4-connect: %s' % e)


if __name__ == '__main__':
    run_check('C20', main)
