#!/usr/bin/env python3-vt
"""C20 -- mirroring never affects the primary path (send path)."""
import os, sys, itertools, re
sys.path.insert(0, os.path.dirname(os.path.dirname(os.path.abspath(__file__))))
import z3
from harness.common import run_check, expectation
from checks.serverfam import *
from checks.c03 import srv_expect
from mirsym.models.io import ChanV
from native import oracle


@expectation('c20_send')
def c20_send(msg_hex, want_mirrors, want_err):
    def f(res):
        r = res[0]
        if 'panic' in r:
            return True, 'native panic: ' + r['panic']
        d = []
        if r['steps'][0].get('blocked'):
            d.append('Server::send did not return within 2 s: the request path waits on a mirror')
        if ('err' in r['steps'][0]) != want_err:
            d.append('send result %r' % (r['steps'][0],))
        if r.get('written_hex') != msg_hex:
            d.append('server received %s, request %s' % (r.get('written_hex'), msg_hex))
        got = [[m for m in ms if m != '66696c6c'] for ms in r['final']['mirrors']]
        if got != want_mirrors:
            d.append('mirrors received %r, required %r' % (got, want_mirrors))
        return bool(d), '; '.join(d) or 'agrees'
    return f


def o1_send(chk, prog, nmirrors, nbytes):
    name = 'O1-send-%dmirrors-%dbytes' % (nmirrors, nbytes)
    ob = chk.begin(name, 'Server::send with %d mirror channel(s), each with symbolic remaining capacity (0..10) and closed flag, message of %d '
                   'symbolic bytes, server write may fail: the server receives exactly the request and the result is the same for EVERY mirror '
                   'state; an open, non-full mirror channel receives exactly one byte-exact copy, a full or closed one nothing; no awaiting '
                   'operation on a mirror channel' % (nmirrors, nbytes), {'mirrors': nmirrors, 'bytes': nbytes, 'capacity': '0..10'})
    send = fn(prog, 'Server::send')
    ip = chk.interp(prog, name)
    install_stats_noops(ip)

    def harness(ip_):
        data = [ip_.fresh(8, 'd%d' % i) for i in range(nbytes)]
        chans = []
        for i in range(nmirrors):
            cap = ip_.fresh(64, 'cap%d' % i)
            ip_.assume(z3.ULE(cap.v, 10))
            chans.append(ChanV(cap, sym_flag(ip_, 'closed%d' % i), 'mirror%d' % i))
        precap = [c.capacity for c in chans]
        mm = mk_struct(prog, 'MirroringManager', byte_senders=Seq(list(chans), 'vec'),
                       disconnect_senders=Seq([ChanV(BV(64, 1), BV(1, 0), 'exit%d' % i) for i in range(nmirrors)], 'vec'))
        st = StreamV([], 'server', fail_writes=True)
        srv = mk_server(ip_, prog, st, mirror_manager=some(ip_, mm))
        try:
            r = ip_.drive(ip_.call_function(send, [Ptr(Cell(srv, 'server')), Ptr(Cell(Seq(list(data), 'bytesmut'), 'msg'))]))
        except Panic as p:
            raise Inconclusive('Server::send panic: ' + p.msg)
        ob.nontrivial += 1
        res = variant(ip_, r, 'Result')
        problems = []
        if ip_.env.get('awaited_channels'):
            problems.append(('awaits-mirror', 'the request path awaits a mirror channel operation (%r): a hung mirror would block the client' % ip_.env['awaited_channels']))
        if st.failed:
            if res != 'Err':
                problems.append(('result', 'a failed server write is reported as Ok'))
        else:
            if res != 'Ok' or ip_.model_for(z3.Not(seq_equal(st.out, data))) is not None:
                problems.append(('server-bytes', 'bytes written to the mirrored server differ from the request'))
        want = []
        for i, ch in enumerate(chans):
            closed = flag_val(ip_, ch.closed)
            full = decide(ip_, precap[i].v == 0)
            exp = 0 if (closed or full) else 1
            want.append(exp)
            if len(ch.sent) != exp:
                problems.append(('mirror-copies', 'mirror %d (closed=%s, full=%s) received %d copies, required %d' % (i, closed, full, len(ch.sent), exp)))
            elif exp == 1:
                got = items(ip_, ch.sent[0])
                if ip_.model_for(z3.Not(seq_equal(got, data))) is not None:
                    problems.append(('mirror-bytes', 'mirror %d received bytes that differ from the request' % i))
        for k, what in problems:
            m = ip_.model_for()
            hx = bytes(m.eval(b.z(), True).as_long() for b in data).hex()
            mirrors = [{'prefilled': 10 - m.eval(precap[i].z(), True).as_long(), 'closed': bool(m.eval(chans[i].closed.z(), True).as_long())} for i in range(nmirrors)]
            chk.report(ob, 'C20/O1/' + k, what, {'message_hex': hx, 'mirrors': mirrors},
                       {'commands': [{'op': 'server_script', 'pre': {'mirrors': mirrors}, 'inbound_hex': '', 'steps': [{'do': 'send', 'hex': hx}]}],
                        'expect': ['c20_send', hx, [[hx] * w for w in want], False]})
        if len(ob.samples) < 3:
            ob.samples.append({'mirror_copies': [len(c.sent) for c in chans], 'server_write_failed': st.failed, 'result': res})
    ip.explore(harness)
    chk.absorb(ob, ip)
    chk.end(ob)


# ------------------------------------------------------------------------------------------------ O2 mirror -> server mapping
from checks import fromconfig as FC


@expectation('c20_mapping')
def c20_mapping(want):
    def f(res):
        r = res[0]
        if 'panic' in r or 'error' in r:
            return ('panic' in r), 'native: %r' % (r,)
        return (r['mirrors'] != want, 'native mirrors per server %r, configured %r' % (r['mirrors'], want))
    return f


def o2_mapping(chk, prog, nservers, nmirrors):
    name = 'O2-mapping-%dservers-%dmirrors' % (nservers, nmirrors)
    ob = chk.begin(name, 'ConnectionPool::from_config (real coroutine, nothing connected) on a shard with %d servers and %d mirror entries whose '
                   'host byte, port and mirroring_target_index are symbolic: the mirrors attached to server i are exactly the entries '
                   'targeting i, with the MIRROR\'s host and port, in order; no server inherits another server\'s mirrors'
                   % (nservers, nmirrors), {'servers': nservers, 'mirrors': nmirrors})
    ip = chk.interp(prog, name)
    install_stats_noops(ip)

    def harness(ip_):
        cfg = FC.base_config(ip_, prog)
        servers = [FC.mk_srvcfg(ip_, prog, rstring('s%d' % i), BV(16, 5432 + i), BV(64, 0 if i == 0 else 1)) for i in range(nservers)]
        mirrors, meta = [], []
        for j in range(nmirrors):
            hb = ip_.fresh(8, 'mhost%d' % j)
            ip_.assume(z3.And(z3.UGE(hb.v, 97), z3.ULE(hb.v, 99)))
            port = ip_.fresh(16, 'mport%d' % j)
            tgt = ip_.fresh(64, 'mtarget%d' % j)
            ip_.assume(z3.ULE(tgt.v, nservers))          # nservers itself = dangling target
            mirrors.append(FC.mk_mirror(prog, Seq([hb], 'string'), port, tgt))
            meta.append((hb, port, tgt))
        pool = FC.mk_pool_cfg(ip_, prog, [('0', servers, mirrors)])
        pm = MapV('hashmap')
        pm.entries.append([rstring('db'), Cell(pool, 'pool')])
        setf(prog, cfg, 'Config', 'pools', pm)
        FC.install(ip_, cfg)
        try:
            r = FC.run_from_config(ip_, prog)
        except Panic as p:
            raise Inconclusive('from_config panic: ' + p.msg)
        ob.nontrivial += 1
        ents = FC.pool_entries(ip_, prog)
        if len(ents) != 1:
            raise Inconclusive('expected one pool, got %d' % len(ents))
        addrs = FC.addresses_of(ip_, prog, ents[0][2])[0]
        # reference mapping on this path
        tg = []
        for (hb, port, tgt) in meta:
            k = [x for x in range(nservers + 1) if decide(ip_, tgt.v == x)][0]
            tg.append(k)
        problems = None
        conds = []
        for i, a in enumerate(addrs):
            ms = getf(prog, a, 'Address', 'mirrors').items
            want = [j for j in range(nmirrors) if tg[j] == i]
            if len(ms) != len(want):
                problems = 'server %d has %d mirrors attached, %d configured for it' % (i, len(ms), len(want))
                break
            for mval, j in zip(ms, want):
                hb, port, tgt = meta[j]
                h = getf(prog, mval, 'Address', 'host').items
                conds.append(z3.And(getf(prog, mval, 'Address', 'port').z() == port.z(), h[0].z() == hb.z()) if len(h) == 1 else z3.BoolVal(False))
        m = None
        if problems is None and conds:
            m = ip_.model_for(z3.Not(z3.And(*conds)))
            if m is not None:
                problems = 'a mirror is attached with a host/port other than the configured one'
        if problems:
            m = m or ip_.model_for()
            mj = [{'host': chr(m.eval(hb.z(), True).as_long()), 'port': m.eval(port.z(), True).as_long(), 'target': m.eval(tgt.z(), True).as_long()}
                  for hb, port, tgt in meta]
            want_all = [[[x['host'], x['port']] for x in mj if x['target'] == i] for i in range(nservers)]
            chk.report(ob, 'C20/O2/mapping', 'mirror mapping: ' + problems + ' (mirrors %r)' % (mj,), {'servers': nservers, 'mirrors': mj},
                       {'commands': [{'op': 'mirror_mapping', 'servers': nservers, 'mirrors': mj}], 'expect': ['c20_mapping', want_all]})
        if len(ob.samples) < 2:
            ob.samples.append({'targets': tg, 'attached': [len(getf(prog, a, 'Address', 'mirrors').items) for a in addrs]})
    ip.explore(harness)
    chk.absorb(ob, ip)
    chk.end(ob)


def _dispatch(chk, f, args):
    f(chk, *args)


def main(chk):
    chk.explanation = (
        'Solver-based checking of the mirrored request path executed from MIR: Server::send -> mirror_send -> MirroringManager::send '
        'with 0-2 (3 thorough) mirror channels whose remaining capacity and closed flag are symbolic, symbolic message bytes and '
        'write faults on the real server: the real server gets exactly the request and the same Result for every mirror state; each '
        'mirror channel gets one byte-exact copy iff it is open and has capacity; any awaiting channel operation on the path is flagged. '
        'tokio mpsc try_send/capacity/is_closed are modelled by contract. Counterexamples are replayed on the compiled code with real '
        'tokio channels.')
    chk.assumptions += [
        'tokio::sync::mpsc::Sender::{try_send, capacity, is_closed} contracts',
        'mirror task behaviour under faults/timing and added latency are outside the claim',
    ]
    prog = chk.program('on')
    tasks = []
    for nm in (0, 1, 2) + ((3,) if chk.thorough else ()):
        for nb in (0, 3):
            tasks.append((o1_send, (prog, nm, nb)))
    for ns, nm in ((1, 1), (2, 1), (2, 2)) + (((3, 2),) if chk.thorough else ()):
        tasks.append((o2_mapping, (prog, ns, nm)))
    chk.parallel(_dispatch, tasks)


if __name__ == '__main__':
    run_check('C20', main)
