#!/usr/bin/env python3-vt
"""C15 -- an accepted configuration is a servable configuration (the validators)."""
import os, sys, itertools, json
sys.path.insert(0, os.path.dirname(os.path.dirname(os.path.abspath(__file__))))
import z3
from harness.common import run_check, expectation
from harness.pgcat_state import *
from mirsym.interp import Panic, Inconclusive
from mirsym.values import *
from mirsym.models.util import mkstr, deref, some, none
from native import oracle

IDS = ['0', '1', '2', '00', '01', '+1', 'x', '', '9223372036854775808', '18446744073709551616']
ROLES = ['any', 'primary', 'replica', 'Primary', 'ANY', '', 'mirror', 'replica ']
AUTO_KEYS = [None, 't.id', 'id', 'a.b.c', '"t"."id"', '.', 't.']
REGEXES = [None, r'/\* k: (\d+) \*/', '(']


def id_value(s):
    """Rust `str::parse::<usize>`: optional '+', one or more ASCII digits, value <= 2^64-1."""
    t = s[1:] if s.startswith('+') else s
    if not t or not all('0' <= ch <= '9' for ch in t):
        return None
    v = int(t)
    return v if v <= (1 << 64) - 1 else None


def ids_reason(ids):
    """None when the shard table is servable, else the reason (property: 'bad shard numbering')."""
    vals = [id_value(s) for s in ids]
    if any(v is None for v in vals):
        return 'ids-not-numeric'
    if not ids:
        return 'no-shards'
    if any(v > (1 << 63) - 1 for v in vals):
        return 'ids-above-i64'
    if sorted(vals) != list(range(len(ids))):
        return 'ids-not-0..n-1'
    return None


def auto_key_ok(k):
    if k is None:
        return True
    return len(k.replace('"', '').split('.')) == 2


def rstring(s):
    return mkstr(s, 'string')


def mk_server(ip, prog, host, port, role_discr):
    names = prog.src.structs['ServerConfig']
    vals = {'host': host, 'port': port, 'role': EnumV(role_discr, {}, 'Role')}
    return Agg([vals[n] for n in names], 'ServerConfig', names)


def mk_shard(ip, prog, servers):
    names = prog.src.structs['Shard']
    vals = {'database': rstring('db'), 'mirrors': opt_none(), 'servers': Seq(servers, 'vec')}
    return Agg([vals[n] for n in names], 'Shard', names)


@expectation('c15_pool')
def expect_pool(pool_json, impl_ok, spec_ok):
    def f(res):
        r = res[0]
        if 'panic' in r:
            return True, 'Pool::validate panics: ' + r['panic']
        return (r['ok'] == impl_ok and impl_ok != spec_ok,
                'native Pool::validate -> %s; property demands %s' % ('Ok' if r['ok'] else 'Err', 'Ok' if spec_ok else 'Err'))
    return f


@expectation('c15_shard')
def expect_shard(shard_json, impl_ok, spec_ok):
    def f(res):
        r = res[0]
        if 'panic' in r:
            return True, 'Shard::validate panics: ' + r['panic']
        return (r['ok'] == impl_ok and impl_ok != spec_ok,
                'native Shard::validate -> %s; property demands %s' % ('Ok' if r['ok'] else 'Err', 'Ok' if spec_ok else 'Err'))
    return f


def result_is_ok(r):
    d = r.discr
    if not d.concrete:
        raise Inconclusive("symbolic Result discriminant")
    return d.v == 0


def o1_pool(chk, prog, ids, role, auto_key, regex_a, regex_b):
    name = 'O1-pool-ids[%s]-role[%s]-key[%s]-rx[%s,%s]' % (','.join(ids), role, auto_key, REGEXES.index(regex_a), REGEXES.index(regex_b))
    ob = chk.begin(name, 'Pool::validate accepts exactly the servable pools: shard ids %r, default_role %r, automatic_sharding_key %r, '
                   'regexes (%r, %r); default_shard, parser/plugin/activity flags, user pool sizes symbolic' % (ids, role, auto_key, regex_a, regex_b),
                   {'shard_ids': list(ids), 'symbolic': ['default_shard', 'query_parser_enabled', 'read_write_splitting', 'plugins',
                                                         'db_activity_*', 'pool_size', 'min_pool_size']})
    fn_default = prog.lookup('<Pool as Default>::default')
    fn_validate = [f for f in prog.lookup('Pool::validate') if f.params and 'config::Pool' in f.params[0][1]]
    if len(fn_default) != 1 or len(fn_validate) != 1:
        raise Inconclusive("cannot locate Pool::default / Pool::validate")
    ip = chk.interp(prog, name)
    ir = ids_reason(ids)

    def harness(ip_):
        pool = ip_.call_function(fn_default[0], [])
        S = 'Pool'
        setf(prog, pool, S, 'default_role', rstring(role))
        qpe = sym_bool(ip_, 'qpe'); setf(prog, pool, S, 'query_parser_enabled', qpe)
        rw = sym_bool(ip_, 'rw'); setf(prog, pool, S, 'query_parser_read_write_splitting', rw)
        plug = ip_.fresh(64, 'plugins_is_some'); ip_.assume(z3.ULE(plug.v, 1))
        setf(prog, pool, S, 'plugins', EnumV(plug, {'Some': [Opaque('Plugins', 'plugins')]}, 'Option'))
        setf(prog, pool, S, 'automatic_sharding_key', opt_none() if auto_key is None else opt_some(rstring(auto_key)))
        setf(prog, pool, S, 'shard_id_regex', opt_none() if regex_a is None else opt_some(rstring(regex_a)))
        setf(prog, pool, S, 'sharding_key_regex', opt_none() if regex_b is None else opt_some(rstring(regex_b)))
        dsk = ip_.fresh(64, 'default_shard_kind'); ip_.assume(z3.ULE(dsk.v, 2))
        dsn = ip_.fresh(64, 'default_shard_n')
        setf(prog, pool, S, 'default_shard', EnumV(dsk, {'Shard': [dsn]}, 'DefaultShard'))
        act = sym_bool(ip_, 'activity'); setf(prog, pool, S, 'db_activity_based_routing', act)
        a1 = ip_.fresh(64, 'act_init_delay'); setf(prog, pool, S, 'db_activity_init_delay', a1)
        a2 = ip_.fresh(64, 'act_ttl'); setf(prog, pool, S, 'db_activity_ttl', a2)
        a3 = ip_.fresh(64, 'mut_ttl'); setf(prog, pool, S, 'table_mutation_cache_ms_ttl', a3)
        shards = MapV('btreemap')
        for sid in sorted(ids):
            srv = mk_server(ip_, prog, rstring('h'), BV(16, 5432), BV(64, 1))
            shards.entries.append([rstring(sid), Cell(mk_shard(ip_, prog, [srv]), 'shard')])
        setf(prog, pool, S, 'shards', shards)
        user = ip_.call_function(prog.lookup('<User as Default>::default')[0], [])
        psz = ip_.fresh(32, 'pool_size'); setf(prog, user, 'User', 'pool_size', psz)
        mn = ip_.fresh(32, 'min_pool_size')
        mopt = sym_option(ip_, mn, 'min_pool_size'); setf(prog, user, 'User', 'min_pool_size', mopt)
        users = MapV('btreemap'); users.entries.append([rstring('u'), Cell(user, 'user')])
        setf(prog, pool, S, 'users', users)
        try:
            r = ip_.call_function(fn_validate[0], [Ptr(Cell(pool, 'pool'))])
        except Panic as p:
            m = ip_.model_for()
            chk.report(ob, 'C15/O1/validate-panics', 'Pool::validate panics: ' + p.msg, {'ids': list(ids)},
                       {'commands': [{'op': 'pool_validate', 'pool': pool_json(m)}], 'expect': ['c15_pool', pool_json(m), None, False]})
            return
        ok = result_is_ok(r)
        ob.nontrivial += 1
        clauses = [
            ('default-role', z3.BoolVal(role in ('any', 'primary', 'replica'))),
            (ir or 'ids', z3.BoolVal(ir is None)),
            ('regex-invalid', z3.BoolVal(regex_a != '(' and regex_b != '(')),
            ('rw-splitting-without-parser', z3.Implies(rw.z() == 1, qpe.z() == 1)),
            ('plugins-without-parser', z3.Implies(plug.z() == 1, qpe.z() == 1)),
            ('automatic-sharding-key', z3.BoolVal(auto_key_ok(auto_key))),
            ('default-shard-out-of-range', z3.Implies(dsk.z() == 0, z3.ULT(dsn.z(), len(ids)))),
            ('min-pool-size', z3.Implies(mopt.discr.z() == 1, z3.ULE(mn.z(), psz.z()))),
            ('db-activity-params', z3.Implies(act.z() == 1, z3.And(a1.z() != 0, a2.z() != 0, a3.z() != 0))),
        ]
        spec = z3.And(*[c for _, c in clauses])

        def pool_json(m):
            def ev(x):
                return m.eval(x.z(), True).as_long()
            d = {'default_role': role, 'query_parser_enabled': bool(ev(qpe)), 'query_parser_read_write_splitting': bool(ev(rw)),
                 'plugins': bool(ev(plug)), 'db_activity_based_routing': bool(ev(act)), 'db_activity_init_delay': ev(a1),
                 'db_activity_ttl': ev(a2), 'table_mutation_cache_ms_ttl': ev(a3),
                 'default_shard': ['shard_%d' % ev(dsn), 'random', 'random_healthy'][ev(dsk)],
                 'shards': [{'id': sid, 'servers': [['h', 5432, 'replica']]} for sid in ids],
                 'users': [dict({'pool_size': ev(psz), 'password': 'x'}, **({'min_pool_size': ev(mn)} if ev(mopt.discr) == 1 else {}))]}
            if auto_key is not None:
                d['automatic_sharding_key'] = auto_key
            if regex_a is not None:
                d['shard_id_regex'] = regex_a
            if regex_b is not None:
                d['sharding_key_regex'] = regex_b
            return d

        if ok:
            # accepted: which clause of the spec can fail?
            for reason, c in clauses:
                m = ip_.model_for(z3.Not(c))
                if m is not None:
                    pj = pool_json(m)
                    chk.report(ob, 'C15/O1/accepts-unservable/' + reason,
                               'Pool::validate accepts a pool that cannot be served (%s)' % reason, {'pool': pj},
                               {'commands': [{'op': 'pool_validate', 'pool': pj}], 'expect': ['c15_pool', pj, True, False]})
        else:
            m = ip_.model_for(spec)
            if m is not None:
                pj = pool_json(m)
                chk.report(ob, 'C15/O1/rejects-servable', 'Pool::validate rejects a servable pool', {'pool': pj},
                           {'commands': [{'op': 'pool_validate', 'pool': pj}], 'expect': ['c15_pool', pj, False, True]})
        if len(ob.samples) < 2:
            ob.samples.append({'accepted': ok, 'example': pool_json(ip_.model_for())})

    ip.explore(harness)
    chk.absorb(ob, ip)
    chk.end(ob)


def o2_shard(chk, prog, nservers):
    name = 'O2-shard-%dservers' % nservers
    ob = chk.begin(name, 'Shard::validate accepts exactly: >= 1 server, <= 1 primary, no duplicate (host, port, role); '
                   '%d servers with symbolic 1-byte hosts, ports and roles' % nservers, {'servers': nservers})
    fn = [f for f in prog.lookup('Shard::validate')]
    if len(fn) != 1:
        raise Inconclusive("cannot locate Shard::validate")
    ip = chk.interp(prog, name)

    def harness(ip_):
        hosts, ports, roles, servers = [], [], [], []
        for i in range(nservers):
            h = ip_.fresh(8, 'host%d' % i)
            ip_.assume(z3.And(z3.UGE(h.v, 97), z3.ULE(h.v, 99)))
            p = ip_.fresh(16, 'port%d' % i)
            r = ip_.fresh(64, 'role%d' % i)
            ip_.assume(z3.ULE(r.v, 1))
            hosts.append(h); ports.append(p); roles.append(r)
            servers.append(mk_server(ip_, prog, Seq([h], 'string'), p, r))
        shard = mk_shard(ip_, prog, servers)
        try:
            res = ip_.call_function(fn[0], [Ptr(Cell(shard, 'shard'))])
        except Panic as p:
            raise Inconclusive('Shard::validate panic: ' + p.msg)
        ok = result_is_ok(res)
        ob.nontrivial += 1
        nprim = z3.Sum([z3.If(r.z() == 0, 1, 0) for r in roles]) if roles else z3.IntVal(0)
        nodup = z3.And(*[z3.Not(z3.And(hosts[i].z() == hosts[j].z(), ports[i].z() == ports[j].z(), roles[i].z() == roles[j].z()))
                         for i in range(nservers) for j in range(i + 1, nservers)]) if nservers > 1 else z3.BoolVal(True)
        spec = z3.And(z3.BoolVal(nservers >= 1), nprim <= 1, nodup)

        def sj(m):
            return {'id': '0', 'servers': [[chr(m.eval(hosts[i].z(), True).as_long()), m.eval(ports[i].z(), True).as_long(),
                                            'primary' if m.eval(roles[i].z(), True).as_long() == 0 else 'replica'] for i in range(nservers)]}
        m = ip_.model_for(spec if not ok else z3.Not(spec))
        if m is not None:
            j = sj(m)
            chk.report(ob, 'C15/O2/' + ('accepts-unservable-shard' if ok else 'rejects-servable-shard'),
                       'Shard::validate %s' % ('accepts a shard with duplicate servers / several primaries / no server' if ok else 'rejects a servable shard'),
                       {'shard': j}, {'commands': [{'op': 'shard_validate', 'shard': j}], 'expect': ['c15_shard', j, ok, not ok]})
        if len(ob.samples) < 2:
            ob.samples.append({'accepted': ok, 'example': sj(ip_.model_for())})

    ip.explore(harness)
    chk.absorb(ob, ip)
    chk.end(ob)


@expectation('c15_fc')
def c15_fc(ids, role):
    """Native: Pool::validate then the real ConnectionPool::from_config: an accepted pool must be built without panicking and
    every server's shard number must be the index of its shard."""
    def f(res):
        r = res[0]
        if 'panic' in r:
            return True, 'native panic while building the accepted pool: ' + r['panic']
        if not r.get('validated'):
            return False, 'native Pool::validate rejects it: %r' % (r,)
        if 'error' in r:
            return True, 'native from_config fails for an accepted pool: %r' % (r,)
        want = [[k] for k in range(len(ids))]
        okk = r['address_shards'] == want and r['settings_shards'] == len(ids) and r['databases'] == len(ids)
        return (not okk, 'native pool: address shards %r, shards %r, databases %r for ids %r' % (r['address_shards'], r['settings_shards'], r['databases'], ids))
    return f


@expectation('c15_authq')
def c15_authq():
    def f(res):
        r = res[0]
        if 'error' in r:
            return False, 'native: %r' % (r,)
        return (bool(r.get('accepted')) and bool(r.get('build_panics')), 'native: Config::validate %s the configuration; building its auth pass-through %s' %
                ('accepts' if r.get('accepted') else 'rejects', 'PANICS (%s)' % r.get('build_panics') if r.get('build_panics') else 'succeeds'))
    return f


def o4_auth_query(chk, prog):
    """The auth_query triple: whatever combination of auth_query / auth_query_user / auth_query_password validation lets through (every user has a
    password, so none of them is required), the pool builder's AuthPassthrough::from_pool_config does not panic on it."""
    ob = chk.begin('O4-auth-query', 'AuthPassthrough::from_pool_config (what ConnectionPool::from_config calls for every server) on a pool whose auth_query, auth_query_user '
                   'and auth_query_password are each present or absent (solver\'s choice), restricted to the combinations Config::validate accepts when every user '
                   'has a password (auth_query present => user and password present): no panic', {})
    from checks.serverfam import fn as _fn
    f_ = _fn(prog, 'AuthPassthrough::from_pool_config')
    fn_default = prog.lookup('<Pool as Default>::default')
    ip = chk.interp(prog, 'O4-auth-query')

    def harness(ip_):
        pool = ip_.call_function(fn_default[0], [])
        present = {}
        for k in ('auth_query', 'auth_query_user', 'auth_query_password'):
            present[k] = ip_.choose(2, k) == 1
            setf(prog, pool, 'Pool', k, some(ip_, rstring('x')) if present[k] else none(ip_))
        if present['auth_query'] and not (present['auth_query_user'] and present['auth_query_password']):
            return          # Config::validate rejects this one
        ob.nontrivial += 1
        try:
            ip_.call_function(f_, [Ptr(Cell(pool, 'pool'))])
        except Panic as p:
            chk.report(ob, 'C15/O4/auth-query-accepted-but-unbuildable', 'a pool with %s is accepted by Config::validate (every user has a password) but building the pool panics '
                       'in AuthPassthrough::from_pool_config: %s' % (', '.join('%s %s' % (k, 'set' if v else 'unset') for k, v in present.items()), p.msg), {'present': present},
                       {'commands': [{'op': 'auth_query_config', 'present': present}], 'expect': ['c15_authq']})
        if len(ob.samples) < 2:
            ob.samples.append({'present': present})
    ip.explore(harness)
    chk.absorb(ob, ip)
    chk.end(ob)


def o3_build(chk, prog, ids, role, prop='C15'):
    """accepted => servable, end to end: the real Pool::validate, then (if accepted) the real ConnectionPool::from_config."""
    from checks import fromconfig as FC
    name = 'O3-build-ids[%s]-role[%s]' % (','.join(ids), role)
    ob = chk.begin(name, 'Pool::validate followed by ConnectionPool::from_config (real coroutine, nothing connected) for shard ids %r and default_role %r: '
                   'if the pool is accepted it is built without panic, it has one database slot per shard and every server\'s shard number equals the '
                   'position of its shard (so that client-selected shard k reaches shard k)' % (ids, role), {'shard_ids': list(ids), 'default_role': role})
    fn_validate = [f for f in prog.lookup('Pool::validate') if f.params and 'config::Pool' in f.params[0][1]][0]
    ip = chk.interp(prog, name)
    from checks.serverfam import install_stats_noops
    install_stats_noops(ip)

    def harness(ip_):
        cfg = FC.base_config(ip_, prog)
        specs = [(sid, [mk_server(ip_, prog, rstring('h'), BV(16, 5432), BV(64, 1))], None) for sid in sorted(ids)]
        pool = FC.mk_pool_cfg(ip_, prog, specs, default_role=rstring(role))
        r = ip_.call_function(fn_validate, [Ptr(Cell(pool, 'pool'))])
        ob.nontrivial += 1
        if not result_is_ok(r):
            return
        pm = MapV('hashmap')
        pm.entries.append([rstring('db'), Cell(pool, 'pool')])
        setf(prog, cfg, 'Config', 'pools', pm)
        FC.install(ip_, cfg)

        def rep(what):
            chk.report(ob, prop + '/O3/' + what.split(':')[0], 'accepted pool (shard ids %r, default_role %r) %s' % (ids, role, what),
                       {'shard_ids': list(ids), 'default_role': role},
                       {'commands': [{'op': 'from_config_probe', 'shard_ids': list(ids), 'servers': 1, 'default_role': role}], 'expect': ['c15_fc', list(ids), role]})
        try:
            FC.run_from_config(ip_, prog)
        except Panic as p:
            rep('panics: pool construction panics (%s)' % p.msg[:80])
            return
        ents = FC.pool_entries(ip_, prog)
        if len(ents) != 1:
            rep('missing: no pool is registered')
            return
        cp = ents[0][2]
        addrs = FC.addresses_of(ip_, prog, cp)
        shards_ok = len(addrs) == len(ids) and all(getf(prog, a, 'Address', 'shard').v == k for k, sh in enumerate(addrs) for a in sh)
        ps = deref(ip_, getf(prog, cp, 'ConnectionPool', 'settings'))
        nsh = getf(prog, ps, 'PoolSettings', 'shards').v
        ndb = len(deref(ip_, getf(prog, cp, 'ConnectionPool', 'databases')).items)
        if not shards_ok or nsh != len(ids) or ndb != len(ids):
            rep('misindexed: server shard numbers %r, settings.shards %d, database slots %d'
                % ([[getf(prog, a, 'Address', 'shard').v for a in sh] for sh in addrs], nsh, ndb))
        if not ob.samples:
            ob.samples.append({'accepted': True, 'shards': nsh})
    ip.explore(harness)
    chk.absorb(ob, ip)
    chk.end(ob)


def validate_translation(chk, prog):
    """Concrete pools through interpreter and native build."""
    cases = []
    for ids in (['0'], ['1'], ['0', '1'], ['0', '00'], ['x'], [], ['+1', '0']):
        for role in ('any', 'Primary'):
            cases.append({'default_role': role, 'shards': [{'id': i, 'servers': [['h', 5432, 'replica']]} for i in ids],
                          'users': [{'pool_size': 5, 'password': 'x'}], 'default_shard': 'shard_0'})
    cases.append({'default_role': 'any', 'shards': [{'id': '0', 'servers': [['h', 5432, 'replica']]}], 'users': [{'pool_size': 5, 'min_pool_size': 9}]})
    cases.append({'default_role': 'any', 'shards': [{'id': '0', 'servers': [['h', 5432, 'replica']]}], 'users': [{'pool_size': 5}], 'default_shard': 'random',
                  'automatic_sharding_key': 'a.b.c'})
    native = oracle.run([{'op': 'pool_validate', 'pool': c} for c in cases])
    fn_default = prog.lookup('<Pool as Default>::default')[0]
    fn_validate = [f for f in prog.lookup('Pool::validate') if f.params and 'config::Pool' in f.params[0][1]][0]
    bad = 0
    for c, nat in zip(cases, native):
        ip = chk.interp(prog, 'validate')
        out = {}

        def h(ip_):
            pool = ip_.call_function(fn_default, [])
            setf(prog, pool, 'Pool', 'default_role', rstring(c['default_role']))
            shards = MapV('btreemap')
            for s in sorted(c['shards'], key=lambda s: s['id']):
                srv = [mk_server(ip_, prog, rstring(x[0]), BV(16, x[1]), BV(64, 0 if x[2] == 'primary' else 1)) for x in s['servers']]
                shards.entries.append([rstring(s['id']), Cell(mk_shard(ip_, prog, srv), 'shard')])
            setf(prog, pool, 'Pool', 'shards', shards)
            users = MapV('btreemap')
            for i, u in enumerate(c['users']):
                user = ip_.call_function(prog.lookup('<User as Default>::default')[0], [])
                setf(prog, user, 'User', 'pool_size', BV(32, u['pool_size']))
                if 'min_pool_size' in u:
                    setf(prog, user, 'User', 'min_pool_size', opt_some(BV(32, u['min_pool_size'])))
                users.entries.append([rstring(str(i)), Cell(user, 'user')])
            setf(prog, pool, 'Pool', 'users', users)
            ds = c.get('default_shard', 'shard_0')
            if ds == 'random':
                setf(prog, pool, 'Pool', 'default_shard', EnumV(BV(64, 1), {}, 'DefaultShard'))
            if 'automatic_sharding_key' in c:
                setf(prog, pool, 'Pool', 'automatic_sharding_key', opt_some(rstring(c['automatic_sharding_key'])))
            try:
                out['ok'] = result_is_ok(ip_.call_function(fn_validate, [Ptr(Cell(pool, 'pool'))]))
            except Panic:
                out['ok'] = 'panic'
        ip.explore(h)
        if out.get('ok') != nat.get('ok'):
            bad += 1
            chk.validation['notes'].append('pool %r: interpreter %r native %r' % (c, out.get('ok'), nat))
    chk.validated(len(cases), bad, 'Pool::validate on %d concrete pools: interpreter vs native' % len(cases) if bad else '')


def _dispatch(chk, fn, args):
    fn(chk, *args)


def main(chk):
    chk.explanation = (
        'Solver-based checking: Pool::validate, Shard::validate and User::validate are executed symbolically from the MIR of this '
        'build on pools drawn from a bounded grammar (shard-id tables over a 10-spelling alphabet, default_role spellings, key/regex '
        'options enumerated; default_shard, flags, sizes and server endpoints symbolic) and the verdict is compared, by z3, with the '
        'servability predicate taken from the property (ids are exactly 0..n-1, n >= 1, default shard < n, known role, <= 1 primary, no '
        'duplicate server, ...): accepted <=> servable. Counterexamples are replayed against the natively compiled validators.')
    chk.assumptions += [
        'servability of shard numbering = numeric ids are a permutation of 0..n-1 and fit i64 (Address.shard is used as a Vec index and '
        'from_config unwraps parse::<i64>), read from src/pool.rs; from_config itself is outside the claim',
        'regex validity decided for the three enumerated options only; TLS and auth_query rules of Config::validate outside the claim',
    ]
    prog = chk.program('on')
    validate_translation(chk, prog)
    tasks = []
    maxk = 2 if not chk.thorough else 3
    id_sets = [c for k in range(0, maxk + 1) for c in itertools.combinations(IDS, k)]
    if not chk.thorough:
        id_sets = [s for s in id_sets if len(s) < 2 or ('0' in s or '00' in s)] + [('1', '2')]
    for ids in id_sets:
        tasks.append((o1_pool, (prog, list(ids), 'any', None, None, None)))
    for role in ROLES[1:]:
        tasks.append((o1_pool, (prog, ['0'], role, None, None, None)))
    for k in AUTO_KEYS[1:]:
        tasks.append((o1_pool, (prog, ['0', '1'], 'primary', k, None, None)))
    for ra, rb in ((REGEXES[1], None), (None, REGEXES[1]), (REGEXES[2], None), (None, REGEXES[2])):
        tasks.append((o1_pool, (prog, ['0'], 'replica', None, ra, rb)))
    for n in (0, 1, 2) + ((3,) if chk.thorough else ()):
        tasks.append((o2_shard, (prog, n)))
    for ids in id_sets:
        tasks.append((o3_build, (prog, list(ids), 'any')))
    for role in ROLES[1:]:
        tasks.append((o3_build, (prog, ['0'], role)))
    tasks.append((o4_auth_query, (prog,)))
    chk.parallel(_dispatch, tasks)


if __name__ == '__main__':
    run_check('C15', main)
