#!/usr/bin/env python3-vt
"""C19 -- plugin verdicts are enforced before anything reaches a server (the table-name match of table_access)."""
import os, sys, itertools, re
sys.path.insert(0, os.path.dirname(os.path.dirname(os.path.abspath(__file__))))
import z3
from harness.common import run_check, expectation
from harness.pgcat_state import *
from mirsym.interp import Panic, Inconclusive
from mirsym.values import *
from mirsym.models.util import items, deref, variant, payload, some, none, unit, mkstr
from native import oracle
from checks import hobl

ALPHA = [ord('a'), ord('A'), ord('b')]


def sym_ident(ip, n, i):
    bs = []
    for j in range(n):
        b = ip.fresh(8, 'id%d_%d' % (i, j))
        ip.assume(z3.Or(*[b.v == c for c in ALPHA]))
        bs.append(b)
    q = ip.fresh(1, 'quoted%d' % i)
    return bs, q


def display_object_name(ip, ty, v):
    """Model of sqlparser's Display for ObjectName / Ident (0.52): parts joined by '.', an identifier written with its
    quote character when it was quoted (alphabet has no quote characters, so no escaping arises)."""
    if ty != 'ObjectName':
        return None
    on = deref(ip, v)
    idents = on.fields[0].items
    out = []
    for k, idn in enumerate(idents):
        if k:
            out.append(BV(8, ord('.')))
        val, qs = idn.fields[0], idn.fields[1]
        quoted = ip.branch(qs.discr.v == 1, 'quoted')
        if quoted:
            out.append(BV(8, ord('"')))
        out.extend(val.items)
        if quoted:
            out.append(BV(8, ord('"')))
    return out


@expectation('c19_verdict')
def c19_verdict(want_deny):
    def f(res):
        r = res[0]
        if 'panic' in r:
            return True, 'native panic: ' + r['panic']
        if 'parse_error' in r:
            return False, 'SQL not accepted by the parser: ' + r['parse_error']
        denied = r['verdict'].startswith('deny')
        return (denied != want_deny, 'native verdict %r for relations %r; PostgreSQL name resolution requires %s'
                % (r['verdict'], r['relations'], 'deny' if want_deny else 'allow'))
    return f


def o1_match(chk, prog, lens, listed):
    name = 'O1-match-%s-listed-%s' % ('_'.join(map(str, lens)), listed)
    ob = chk.begin(name, 'the relation visitor of table_access on a relation name of %d identifier(s) (lengths %r over {a, A, b}, each quoted or not -- '
                   'symbolic) with %r on the deny list: denied iff PostgreSQL would resolve the name to that table (unquoted identifiers fold to '
                   'lower case, quoted ones are literal, the last component is the table)' % (len(lens), list(lens), listed),
                   {'identifier_lengths': list(lens), 'deny_list': [listed]})
    cl = [f for n, f in prog.funcs.items() if 'table_access' in n and n.endswith('::run::{closure#0}::{closure#0}')]
    if len(cl) != 1:
        raise Inconclusive('cannot locate the relation visitor closure of TableAccess::run')
    ip = chk.interp(prog, name)
    ip.display_hook = display_object_name

    def harness(ip_):
        ids = [sym_ident(ip_, n, i) for i, n in enumerate(lens)]
        idents = [Agg([Seq(list(bs), 'string'), EnumV(BV(64, 0) if False else bv(64, z3.ZeroExt(63, q.v)), {'Some': [BV(32, ord('"'))]}, 'Option')], 'Ident')
                  for bs, q in ids]
        on = Agg([Seq(idents, 'vec')], 'ObjectName')
        tables = Seq([mkstr(listed, 'string')], 'vec')
        found = Cell(none(ip_), 'found')
        env = Closure('{closure@visit}', [Ptr(Cell(tables, 'tables')), Ptr(found, ())], ['tables', 'found'], cl[0], False)
        try:
            r = ip_.call_function(cl[0], [Ptr(Cell(env, 'closure')), Ptr(Cell(on, 'relation'))])
        except Panic as p:
            raise Inconclusive('visitor panic: ' + p.msg)
        ob.nontrivial += 1
        denied = r.discr.v == 1            # ControlFlow::Break
        # PostgreSQL resolution of the last component
        bs, q = ids[-1]
        quoted = ip_.branch(q.v == 1, 'lastq')
        tgt = listed.encode()
        if len(bs) != len(tgt):
            want = False
        else:
            conds = []
            for b, c in zip(bs, tgt):
                if quoted:
                    conds.append(b.v == c)
                else:
                    conds.append(z3.If(z3.And(z3.UGE(b.v, 65), z3.ULE(b.v, 90)), b.v + 32, b.v) == c)
            want = ip_.branch(z3.And(*conds), 'resolves')
        if denied != want:
            m = ip_.model_for()

            def render(bs_, q_):
                s = bytes(m.eval(b.z(), True).as_long() for b in bs_).decode()
                return '"%s"' % s if m.eval(q_.z(), True).as_long() else s
            rel = '.'.join(render(b_, q_) for b_, q_ in ids)
            lastq = bool(m.eval(ids[-1][1].z(), True).as_long())
            kind = ('quoted' if lastq else 'case-folded') if want else 'false-deny'
            chk.report(ob, 'C19/O1/match/%s%s' % (kind, '' if len(lens) < 3 else '-3part'),
                       'relation %s is %s although %r is on the deny list and PostgreSQL resolves it to %s' %
                       (rel, 'denied' if denied else 'allowed', listed, 'that table' if want else 'another table'),
                       {'relation': rel, 'deny_list': [listed]},
                       {'commands': [{'op': 'table_access', 'tables': [listed], 'sql': 'SELECT * FROM ' + rel}], 'expect': ['c19_verdict', want]})
        if len(ob.samples) < 2:
            ob.samples.append({'denied': denied, 'required': want})
    ip.explore(harness, max_paths=60000)
    chk.absorb(ob, ip)
    chk.end(ob)


def _dispatch(chk, f, args):
    f(chk, *args)


def main(chk):
    chk.explanation = (
        'Solver-based checking of the table-name match of the table_access plugin executed from MIR: the relation-visitor closure of '
        'TableAccess::run runs on symbolic relation names of 1-3 identifiers (bytes over {a, A, b}, each quoted or not) against a deny list; '
        'the verdict must agree with PostgreSQL name resolution. Counterexamples are rendered to SQL and replayed through the real '
        'parser + visit_relations + plugin.')
    chk.assumptions += [
        "sqlparser's Display for ObjectName/Ident as modelled in checks/c19.py (parts joined by '.', quoted identifiers written with their quotes)",
        'coverage of statement shapes by sqlparser::visit_relations, plugin ordering in execute_plugins, the enforcement points in Client::handle '
        'and the intercept plugin are outside the claim',
    ]
    prog = chk.program('on', with_sqlparser=True)
    tasks = []
    for listed in ('ab', 'a'):
        for lens in [(len(listed),), (1, len(listed)), (2, len(listed))] + ([(1, 1, len(listed))]):
            tasks.append((o1_match, (prog, lens, listed)))
        tasks.append((o1_match, (prog, (len(listed) + 1,), listed)))
    if chk.thorough:
        tasks.append((o1_match, (prog, (3,), 'aba')))
        tasks.append((o1_match, (prog, (2, 2, 2), 'ab')))
    chk.parallel(_dispatch, tasks)

    hobl.handle_obligations(chk, chk.program('on'), {'C19'}, ['plugins'])

if __name__ == '__main__':
    run_check('C19', main)
