#!/usr/bin/env python3-vt
"""C19 -- plugin verdicts are enforced before anything reaches a server (the table-name match of table_access)."""
import os, sys, itertools, re
sys.path.insert(0, os.path.dirname(os.path.dirname(os.path.abspath(__file__))))
import z3
from harness.common import run_check, expectation
from harness.pgcat_state import *
from mirsym.interp import Panic, Inconclusive
from mirsym.values import *
from mirsym.models.util import items, deref, variant, payload, some, none, unit, mkstr
from native import oracle
from mirsym.interp import last_seg
from checks import hobl

ALPHA = [ord('a'), ord('A'), ord('b')]


def sym_ident(ip, n, i):
    bs = []
    for j in range(n):
        b = ip.fresh(8, 'id%d_%d' % (i, j))
        ip.assume(z3.Or(*[b.v == c for c in ALPHA]))
        bs.append(b)
    q = ip.fresh(1, 'quoted%d' % i)
    return bs, q


def display_object_name(ip, ty, v):
    """Model of sqlparser's Display for ObjectName / Ident (0.52): parts joined by '.', an identifier written with its
    quote character when it was quoted (alphabet has no quote characters, so no escaping arises)."""
    if ty != 'ObjectName':
        return None
    on = deref(ip, v)
    idents = on.fields[0].items
    out = []
    for k, idn in enumerate(idents):
        if k:
            out.append(BV(8, ord('.')))
        val, qs = idn.fields[0], idn.fields[1]
        quoted = ip.branch(qs.discr.v == 1, 'quoted')
        if quoted:
            out.append(BV(8, ord('"')))
        out.extend(val.items)
        if quoted:
            out.append(BV(8, ord('"')))
    return out


@expectation('c19_verdict')
def c19_verdict(want_deny):
    def f(res):
        r = res[0]
        if 'panic' in r:
            return True, 'native panic: ' + r['panic']
        if 'parse_error' in r:
            return False, 'SQL not accepted by the parser: ' + r['parse_error']
        denied = r['verdict'].startswith('deny')
        return (denied != want_deny, 'native verdict %r for relations %r; PostgreSQL name resolution requires %s'
                % (r['verdict'], r['relations'], 'deny' if want_deny else 'allow'))
    return f


# ------------------------------------------------------------------------------------------------ the plugin run on abstract statement trees
# sqlparser's traversal is the ENVIRONMENT of the plugin: its documented contract (ast::Visitor) is modelled, the plugin's own code -- whatever it
# hands to visit_relations / Visit::visit -- is executed from MIR.  A tree is
#   ('query', [(cte name ident, subtree), ...], [item, ...])      item = ('rel', ObjectName) | ('target', ObjectName) | subtree
# and the traversal order is the one #[derive(Visit)] produces for ast::Query: pre_visit_query, the WITH list in order (each definition is a
# nested Query), the body (relations in source order; a DML target is visited like any relation), post_visit_query.
def sql_struct(prog, sname, **vals):
    name = sname
    names = prog.src.structs.get('sqlparser::' + name) or prog.src.structs.get(name)
    if not names:
        raise Inconclusive('sqlparser struct %s not found in the vendored source' % name)
    for k in vals:
        if k not in names:
            raise Inconclusive('sqlparser::%s has no field %s' % (name, k))
    return Agg([vals.get(n, Opaque('sql.' + name + '.' + n, 'unmodelled')) for n in names], name, list(names))


def mk_ident(ip, prog, bs, q):
    qs = EnumV(bv(64, z3.ZeroExt(63, q.v)) if not q.concrete else BV(64, q.v), {'Some': [BV(32, ord('"'))]}, 'Option')
    return sql_struct(prog, 'Ident', value=Seq(list(bs), 'string'), quote_style=qs)


def mk_query(ip, prog, ctes):
    """ast::Query as far as a visitor may look at it here: the WITH clause (names of the CTEs)."""
    if not ctes:
        return sql_struct(prog, 'Query', **{'with': none(ip)})
    cts = [sql_struct(prog, 'Cte', alias=sql_struct(prog, 'TableAlias', name=idn, columns=Seq([], 'vec'))) for idn in ctes]
    return sql_struct(prog, 'Query', **{'with': some(ip, sql_struct(prog, 'With', recursive=BV(1, 0), cte_tables=Seq(cts, 'vec')))})


def cf_continue():
    return EnumV(BV(64, 0), {'Continue': [unit()]}, 'ControlFlow')


def is_break(ip, r):
    return isinstance(r, EnumV) and ip.branch(r.discr.v == 1, 'break')


def drive_tree(ip, prog, tree, on_query_pre, on_query_post, on_relation):
    """Returns the ControlFlow::Break value the visitor produced, or None."""
    kind, ctes, body = tree
    q = Ptr(Cell(mk_query(ip, prog, [idn for idn, _ in ctes]), 'query'))
    r = on_query_pre(q)
    if r is not None:
        return r
    for _idn, sub in ctes:
        r = drive_tree(ip, prog, sub, on_query_pre, on_query_post, on_relation)
        if r is not None:
            return r
    for it in body:
        if it[0] in ('rel', 'target'):
            r = on_relation(Ptr(Cell(it[1], 'relation')))
        else:
            r = drive_tree(ip, prog, it, on_query_pre, on_query_post, on_relation)
        if r is not None:
            return r
    return on_query_post(q)


def install_traversal(ip, prog):
    def tree_of(ip_, ast):
        v = ast
        for _ in range(3):
            if isinstance(v, Ptr):
                v = deref(ip_, v)
        if not (isinstance(v, Opaque) and v.ty == 'Ast'):
            raise Inconclusive('the plugin traverses something that is not the statement list it was given')
        return v.data

    def m_visit_relations(c, ast, closure):
        ip_ = c.ip
        cell = Cell(closure, 'visitor_fn')

        def rel(p):
            r = ip_.call_value(Ptr(cell, ()), [p])
            return r if is_break(ip_, r) else None
        r = drive_tree(ip_, prog, tree_of(ip_, ast), lambda q: None, lambda q: None, rel)
        return r if r is not None else cf_continue()

    def m_visit(c, ast, visitor):
        ip_ = c.ip
        vty = None
        m = re.search(r'::visit::<(.*)>$', c.callee)
        if m:
            vty = last_seg(re.sub(r"<.*>$", '', m.group(1).strip()))
        if not vty:
            raise Inconclusive('cannot tell the visitor type in ' + c.callee)

        def method(name):
            fs = prog.lookup('<%s as Visitor>::%s' % (vty, name))
            return fs[0] if len(fs) == 1 else None
        unknown = [n for n in ('pre_visit_statement', 'post_visit_statement', 'pre_visit_expr', 'post_visit_expr', 'pre_visit_table_factor', 'post_visit_table_factor')
                   if method(n) is not None]
        if unknown:
            raise Inconclusive('the visitor of table_access overrides %s: that part of the traversal contract is not modelled' % unknown)

        def call(name, p):
            fn_ = method(name)
            if fn_ is None:
                return None             # default method: ControlFlow::Continue(())
            r = ip_.call_function(fn_, [visitor, p])
            return r if is_break(ip_, r) else None

        def rel(p):
            r = call('pre_visit_relation', p)
            return r if r is not None else call('post_visit_relation', p)
        r = drive_tree(ip_, prog, tree_of(ip_, ast), lambda q: call('pre_visit_query', q), lambda q: call('post_visit_query', q), rel)
        return r if r is not None else cf_continue()
    ip.overrides += [(re.compile(r'^(?:sqlparser::ast::(?:visitor::)?)?visit_relations::<'), m_visit_relations),
                     (re.compile(r'^<.* as (?:sqlparser::ast::(?:visitor::)?)?Visit>::visit::<'), m_visit)]


def run_table_access(ip, prog, tree, listed):
    """TableAccess::run (the real async fn) on an abstract statement list; returns True iff the verdict is Deny."""
    runs = prog.lookup('<TableAccess as Plugin>::run')
    if len(runs) != 1:
        raise Inconclusive('cannot locate <TableAccess as Plugin>::run')
    tables = Seq([mkstr(t, 'string') for t in listed], 'vec')
    names = prog.src.structs['TableAccess']
    ta = Agg([{'enabled': BV(1, 1), 'tables': Ptr(Cell(tables, 'tables'))}[n] for n in names], 'TableAccess', list(names))
    ast = Ptr(Cell(Opaque('Ast', 'statements', tree), 'ast'))
    fut = ip.call_function(runs[0], [Ptr(Cell(ta, 'plugin')), Ptr(Cell(Opaque('QueryRouter', 'qr'), 'qr')), ast])
    for _ in range(3):
        if isinstance(fut, Ptr):            # #[async_trait]: Pin<Box<dyn Future>>
            fut = deref(ip, fut)
    r = ip.drive(fut)
    if variant(ip, r, 'Result') != 'Ok':
        raise Inconclusive('TableAccess::run returned Err')
    return variant(ip, payload(r, 'Ok')[0], 'PluginOutput') == 'Deny'


def folded_eq(ip, bs, q, target):
    """Does identifier (bytes, quoted flag) denote `target` under PostgreSQL's folding?  Decided on the current path."""
    tgt = target.encode() if isinstance(target, str) else target
    if len(bs) != len(tgt):
        return False
    quoted = ip.branch(q.v == 1, 'q') if not q.concrete else bool(q.v)
    conds = []
    for b, c in zip(bs, tgt):
        conds.append(b.z() == c if quoted else z3.If(z3.And(z3.UGE(b.z(), 65), z3.ULE(b.z(), 90)), b.z() + 32, b.z()) == c)
    return ip.branch(z3.And(*conds), 'denotes')


def same_ident(ip, a, b):
    """Two identifiers denote the same name after folding."""
    (ba, qa), (bb, qb) = a, b
    if len(ba) != len(bb):
        return False

    def fold(bs, q):
        qd = ip.branch(q.v == 1, 'q') if not q.concrete else bool(q.v)
        return [x.z() if qd else z3.If(z3.And(z3.UGE(x.z(), 65), z3.ULE(x.z(), 90)), x.z() + 32, x.z()) for x in bs]
    fa, fb = fold(ba, qa), fold(bb, qb)
    return ip.branch(z3.And(*[x == y for x, y in zip(fa, fb)]), 'same-name')


def o1_match(chk, prog, lens, listed):
    name = 'O1-match-%s-listed-%s' % ('_'.join(map(str, lens)), listed)
    ob = chk.begin(name, 'the relation visitor of table_access on a relation name of %d identifier(s) (lengths %r over {a, A, b}, each quoted or not -- '
                   'symbolic) with %r on the deny list: denied iff PostgreSQL would resolve the name to that table (unquoted identifiers fold to '
                   'lower case, quoted ones are literal, the last component is the table)' % (len(lens), list(lens), listed),
                   {'identifier_lengths': list(lens), 'deny_list': [listed]})
    ip = chk.interp(prog, name)
    ip.display_hook = display_object_name
    install_traversal(ip, prog)

    def harness(ip_):
        ids = [sym_ident(ip_, n, i) for i, n in enumerate(lens)]
        idents = [mk_ident(ip_, prog, bs, q) for bs, q in ids]
        on = Agg([Seq(idents, 'vec')], 'ObjectName')
        try:
            denied = run_table_access(ip_, prog, ('query', [], [('rel', on)]), [listed])
        except Panic as p:
            raise Inconclusive('visitor panic: ' + p.msg)
        ob.nontrivial += 1
        # PostgreSQL resolution of the last component
        bs, q = ids[-1]
        quoted = ip_.branch(q.v == 1, 'lastq')
        tgt = listed.encode()
        if len(bs) != len(tgt):
            want = False
        else:
            conds = []
            for b, c in zip(bs, tgt):
                if quoted:
                    conds.append(b.v == c)
                else:
                    conds.append(z3.If(z3.And(z3.UGE(b.v, 65), z3.ULE(b.v, 90)), b.v + 32, b.v) == c)
            want = ip_.branch(z3.And(*conds), 'resolves')
        if denied != want:
            m = ip_.model_for()

            def render(bs_, q_):
                s = bytes(m.eval(b.z(), True).as_long() for b in bs_).decode()
                return '"%s"' % s if m.eval(q_.z(), True).as_long() else s
            rel = '.'.join(render(b_, q_) for b_, q_ in ids)
            lastq = bool(m.eval(ids[-1][1].z(), True).as_long())
            kind = ('quoted' if lastq else 'case-folded') if want else 'false-deny'
            chk.report(ob, 'C19/O1/match/%s%s' % (kind, '' if len(lens) < 3 else '-3part'),
                       'relation %s is %s although %r is on the deny list and PostgreSQL resolves it to %s' %
                       (rel, 'denied' if denied else 'allowed', listed, 'that table' if want else 'another table'),
                       {'relation': rel, 'deny_list': [listed]},
                       {'commands': [{'op': 'table_access', 'tables': [listed], 'sql': 'SELECT * FROM ' + rel}], 'expect': ['c19_verdict', want]})
        if len(ob.samples) < 2:
            ob.samples.append({'denied': denied, 'required': want})
    ip.explore(harness, max_paths=60000)
    chk.absorb(ob, ip)
    chk.end(ob)


SHAPES = {
    # name: (identifier slots, tree builder, SQL template)
    'cte-ref': (['c', 'r1', 'r2'], lambda R, I: ('query', [(I['c'], ('query', [], [('rel', R['r1'])]))], [('rel', R['r2'])]),
                'WITH {c} AS (SELECT * FROM {r1}) SELECT * FROM {r2}'),
    'sibling': (['c1', 'c2', 'r1', 'r2', 'r3'],
                lambda R, I: ('query', [(I['c1'], ('query', [], [('rel', R['r1'])])), (I['c2'], ('query', [], [('rel', R['r2'])]))], [('rel', R['r3'])]),
                'WITH {c1} AS (SELECT * FROM {r1}), {c2} AS (SELECT * FROM {r2}) SELECT * FROM {r3}'),
    'dml-target': (['c', 't'], lambda R, I: ('query', [(I['c'], ('query', [], []))], [('target', R['t'])]),
                   'WITH {c} AS (SELECT 1 AS id) UPDATE {t} SET v = 1'),
    'nested': (['c', 'r1', 'r2', 'r3'],
               lambda R, I: ('query', [], [('query', [(I['c'], ('query', [], [('rel', R['r1'])]))], [('rel', R['r2'])]), ('rel', R['r3'])]),
               'SELECT * FROM (WITH {c} AS (SELECT * FROM {r1}) SELECT * FROM {r2}) AS sq, {r3}'),
    'qualified': (['c', 's.r'], lambda R, I: ('query', [(I['c'], ('query', [], []))], [('rel', R['s.r'])]),
                  'WITH {c} AS (SELECT 1 AS id) SELECT * FROM {s.r}'),
}


def o2_scope(chk, prog, shape, listed='ab'):
    slots, build, sql = SHAPES[shape]
    name = 'O2-scope-%s' % shape
    ob = chk.begin(name, 'TableAccess::run (real async fn) on the statement shape `%s` with every identifier SYMBOLIC (2 bytes over {a, A, b}, quoted or not) and '
                   '%r on the deny list; sqlparser\'s traversal is modelled by its Visitor contract (pre_visit_query, the WITH list in order, the body, '
                   'post_visit_query). Reference: PostgreSQL scoping -- an unqualified name is a CTE only if a CTE of that (folded) name is visible THERE: '
                   'CTEs of enclosing queries, earlier siblings inside a WITH list, all of the query\'s CTEs in its body; never in the CTE\'s own '
                   'definition, never for a qualified name, never for the target of INSERT/UPDATE/DELETE. If any relation resolves to the listed table the '
                   'verdict must be Deny' % (sql, listed), {'shape': shape, 'identifier_length': 2, 'deny_list': [listed]})
    ip = chk.interp(prog, name)
    ip.display_hook = display_object_name
    install_traversal(ip, prog)

    def harness(ip_):
        ids = {}
        k = 0
        for s in slots:
            for part in s.split('.'):
                ids[(s, part)] = sym_ident(ip_, 2, k)
                k += 1
        I = {s: mk_ident(ip_, prog, *ids[(s, s)]) for s in slots if '.' not in s and s.startswith('c')}
        R = {s: Agg([Seq([mk_ident(ip_, prog, *ids[(s, p)]) for p in s.split('.')], 'vec')], 'ObjectName') for s in slots if not s.startswith('c')}
        tree = build(R, I)
        try:
            denied = run_table_access(ip_, prog, tree, [listed])
        except Panic as p:
            raise Inconclusive('plugin panic: ' + p.msg)
        ob.nontrivial += 1

        # ---- reference: walk the same tree with PostgreSQL's scoping
        must = []

        def walk(tr, outer):
            _k, ctes, body = tr
            mine = []
            for (idn, sub) in ctes:
                slot = walk.slot_of[id(idn)]
                walk_sub_scope = outer + mine            # earlier siblings only; not the CTE itself
                walk(sub, walk_sub_scope)
                mine = mine + [slot]
            for it in body:
                if it[0] in ('rel', 'target'):
                    slot = walk.rslot_of[id(it[1])]
                    parts = slot.split('.')
                    last = ids[(slot, parts[-1])]
                    is_cte = False
                    if it[0] == 'rel' and len(parts) == 1:
                        for cs in outer + mine:
                            if same_ident(ip_, last, ids[(cs, cs)]):
                                is_cte = True
                                break
                    if not is_cte and folded_eq(ip_, last[0], last[1], listed):
                        must.append(slot)
                else:
                    walk(it, outer + mine)
        walk.slot_of = {id(v): s for s, v in I.items()}
        walk.rslot_of = {id(v): s for s, v in R.items()}
        walk(tree, [])
        if must and not denied:
            m = ip_.model_for()

            def render(slot):
                out = []
                for p in slot.split('.'):
                    bs_, q_ = ids[(slot, p)]
                    s_ = bytes(m.eval(b.z(), True).as_long() for b in bs_).decode()
                    out.append('"%s"' % s_ if m.eval(q_.z(), True).as_long() else s_)
                return '.'.join(out)
            text = sql
            for s in slots:
                text = text.replace('{%s}' % s, render(s))
            chk.report(ob, 'C19/O2/scope/%s' % shape, '`%s` is allowed although %s is the listed table %r there (a CTE of that name is not in scope at that position)' %
                       (text, ', '.join(render(s) for s in must), listed), {'sql': text, 'deny_list': [listed]},
                       {'commands': [{'op': 'table_access', 'tables': [listed], 'sql': text}], 'expect': ['c19_verdict', True]})
        if len(ob.samples) < 2:
            ob.samples.append({'denied': denied, 'required': bool(must)})
    ip.explore(harness, max_paths=60000)
    chk.absorb(ob, ip)
    chk.end(ob)


@expectation('c19_resolution')
def c19_resolution():
    """Native: ConnectionPool::from_config on a configuration whose general [plugins] block has table_access DISABLED and whose pool block has it
    ENABLED for t1 (and a second pool without a block of its own): which block does each pool enforce?"""
    def f(res):
        for r in res:
            if 'error' in r or 'panic' in r:
                return False, 'native: %r' % (r,)
            if not r.get('own_block_enforced') or not r.get('general_block_inherited'):
                return True, 'native: the pool with its own [pools.x.plugins] block enforces it: %r; the pool without one inherits the general block: %r' % (
                    r.get('own_block_enforced'), r.get('general_block_inherited'))
        return False, 'native: %r' % (res,)
    return f


def o3_resolution(chk, prog):
    """Which [plugins] block a pool enforces: its own when it has one, the general one otherwise (ConnectionPool::from_config from MIR)."""
    from checks import fromconfig as FC
    from harness.server_state import rstring
    ob = chk.begin('O3-plugin-resolution', 'ConnectionPool::from_config (real coroutine) on a configuration whose general [plugins] block and whose pool-level block differ '
                   '(table_access over different tables); the pool has a block of its own or not (solver\'s choice): the plugins the pool enforces (PoolSettings.plugins, '
                   'what Client::handle consults) are the pool\'s own block when it has one and the general block otherwise', {})
    ip = chk.interp(prog, 'O3-plugin-resolution')
    from harness.server_state import install_stats_noops
    install_stats_noops(ip)

    def harness(ip_):
        pnames = prog.src.structs['Plugins']

        def mk_plugins(table, enabled):
            ta = Agg([BV(1, int(enabled)), Seq([rstring(table)], 'vec')], 'TableAccess', ['enabled', 'tables'])
            vals = {n: none(ip_) for n in pnames}
            vals['table_access'] = some(ip_, ta)
            return Agg([vals[n] for n in pnames], 'Plugins', list(pnames))
        cfg = FC.base_config(ip_, prog)
        setf(prog, cfg, 'Config', 'plugins', some(ip_, mk_plugins('general_t', False)))
        own = ip_.choose(2, 'pool_has_own_block') == 1
        pool = FC.mk_pool_cfg(ip_, prog, [('0', [FC.mk_srvcfg(ip_, prog, rstring('h'), BV(16, 5432), BV(64, 1))], None)])
        setf(prog, pool, 'Pool', 'plugins', some(ip_, mk_plugins('own_t', True)) if own else none(ip_))
        pm = MapV('hashmap')
        pm.entries.append([rstring('db'), Cell(pool, 'pool')])
        setf(prog, cfg, 'Config', 'pools', pm)
        FC.install(ip_, cfg)
        try:
            FC.run_from_config(ip_, prog)
        except Panic as p:
            raise Inconclusive('from_config panic: ' + p.msg)
        ob.nontrivial += 1
        ents = {(d, u): c for d, u, c in FC.pool_entries(ip_, prog)}
        cp = ents.get(('db', 'u'))
        if cp is None:
            raise Inconclusive('the configured pool is not registered')
        ps = deref(ip_, getf(prog, cp, 'ConnectionPool', 'settings'))
        pl = getf(prog, ps, 'PoolSettings', 'plugins')
        got = None
        if variant(ip_, pl, 'Option') == 'Some':
            ta = getf(prog, payload(pl, 'Some')[0], 'Plugins', 'table_access')
            if variant(ip_, ta, 'Option') == 'Some':
                tav = payload(ta, 'Some')[0]
                tables = tav.fields[1]
                got = (bytes(b.v for b in items(ip_, tables.items[0])).decode() if tables.items else None, bool(tav.fields[0].v))
        want = ('own_t', True) if own else ('general_t', False)
        if got != want:
            chk.report(ob, 'C19/O3/wrong-plugin-block', 'a pool %s enforces %s: %s' % (
                'with a [pools.db.plugins] block of its own (table_access enabled for own_t)' if own else 'without a plugins block of its own',
                'table_access%r' % (got,) if got else 'no table_access at all', 'statements on its listed tables are forwarded' if own else 'the general block is not applied'),
                {'own_block': own}, {'commands': [{'op': 'plugin_resolution'}], 'expect': ['c19_resolution']})
        if len(ob.samples) < 2:
            ob.samples.append({'own_block': own, 'enforced': list(got) if got else None})
    ip.explore(harness)
    chk.absorb(ob, ip)
    chk.end(ob)


def _dispatch(chk, f, args):
    f(chk, *args)


def main(chk):
    chk.explanation = (
        'Solver-based checking of the table_access plugin executed from MIR: the real async TableAccess::run is run on abstract statement lists, '
        'with sqlparser\'s traversal (visit_relations / Visit::visit with a Visitor of the plugin\'s own) modelled by its documented call contract and '
        'everything the plugin itself does -- name folding, matching, any scoping logic -- executed symbolically. (O1) a single relation name of 1-3 '
        'identifiers (bytes over {a, A, b}, each quoted or not) against a deny list: the verdict must agree with PostgreSQL name resolution. (O2) '
        'statement shapes with common table expressions (reference to a CTE, a CTE\'s own definition, sibling CTEs, DML target, nested subquery, '
        'qualified name), every identifier symbolic: whenever PostgreSQL would read the listed TABLE at some position the verdict must be Deny. '
        '(H) enforcement in Client::handle. Counterexamples are rendered to SQL and replayed through the real parser + traversal + plugin.')
    chk.explanation += (' (O3-plugin-resolution) ConnectionPool::from_config on a configuration whose general [plugins] block and pool-level block differ: the pool enforces '
                        'its own block when it has one, the general one otherwise.')
    chk.assumptions += [
        "sqlparser's Display for ObjectName/Ident as modelled in checks/c19.py (parts joined by '.', quoted identifiers written with their quotes)",
        'sqlparser traversal contract as modelled in checks/c19.py: ast::Query is visited as pre_visit_query, the WITH list in order (each definition a nested Query), '
        'the body in source order (a DML target like any relation), post_visit_query; that sqlparser reports EVERY relation of every statement shape is its contract, not decided here',
        'a visitor that overrides statement / expression / table-factor hooks is answered inconclusive',
    ]
    prog = chk.program('on', with_sqlparser=True)
    tasks = []
    for listed in ('ab', 'a'):
        for lens in [(len(listed),), (1, len(listed)), (2, len(listed))] + ([(1, 1, len(listed))]):
            tasks.append((o1_match, (prog, lens, listed)))
        tasks.append((o1_match, (prog, (len(listed) + 1,), listed)))
    if chk.thorough:
        tasks.append((o1_match, (prog, (3,), 'aba')))
        tasks.append((o1_match, (prog, (2, 2, 2), 'ab')))
    for shape in SHAPES:
        tasks.append((o2_scope, (prog, shape)))
    chk.parallel(_dispatch, tasks)
    try:
        o3_resolution(chk, chk.program('on'))
    except Inconclusive as e:
        chk.note_inconclusive('O3-plugin-resolution: %s' % e)

    hobl.handle_obligations(chk, chk.program('on'), {'C19'}, ['plugins'])

if __name__ == '__main__':
    run_check('C19', main)
