"""Client::handle obligations: the script families, per tier, and the runner used by C01, C02, C03, C04, C16, C19."""
import os, sys, itertools
sys.path.insert(0, os.path.dirname(os.path.dirname(os.path.abspath(__file__))))
from checks.hfam import Case, run_case
from checks.serverfam import Inconclusive

A1 = ['begin', 'select', 'commit', 'rollback', 'error', 'set', 'setrole', 'prepare', 'setlocal', 'copyin', 'copyout', 'empty', 'd', 'c', 'f', 'multi', 'sync']
CORE = ['begin', 'select', 'commit', 'error', 'set', 'copyin', 'c', 'f', 'sync']
BATCHES = [['P?', 'B?', 'E'], ['P?', 'B?', 'D?', 'E'], ['P?'], ['B?', 'E'], ['C?'], ['P?', 'D?'], ['P?', 'B?', 'E', 'C?'], ['D?'], ['E']]
NAMED = [['Ps', 'Bs', 'E', 'S'], ['Ps', 'S'], ['Bs', 'E', 'S'], ['Cs', 'S'], ['Ps', 'Ds', 'S'], ['P', 'B', 'E', 'S'], ['Ps', 'Bs', 'E', 'H']]
MALFORMED_BODIES = ('', '00', '41', '4100', '530000')


def families(thorough):
    F = {}
    # -- simple protocol: every sequence over the alphabet, both ways of stopping, transaction and session mode
    s = []
    for n in (1, 2):
        for t in itertools.product(A1, repeat=n):
            for stop in ('eof', 'X'):
                s.append(Case(t, stop=stop))
    for t in itertools.product(A1 if thorough else CORE, repeat=2):
        for stop in ('eof', 'X'):
            s.append(Case(('begin',) + t, stop=stop))
    if thorough:
        for t in itertools.product(CORE, repeat=3):
            for stop in ('eof', 'X'):
                s.append(Case(t, stop=stop))
                s.append(Case(('copyin',) + t, stop=stop))
    # replies around the 8 KiB relay threshold: three 3000-byte rows; a first row of 9000 bytes; inside a multi-statement message
    for t in (['bigsel', 'select'], ['hugesel', 'select'], ['begin', 'hugesel', 'commit', 'select'], ['multibig', 'select'], ['hugesel', 'hugesel']):
        for stop in ('eof', 'X'):
            s.append(Case(t, stop=stop))
    s.append(Case(['hugesel', 'select'], stop='X', mode='session'))
    F['simple'] = s
    s = []
    for n in (1, 2):
        for t in itertools.product(A1 if thorough else CORE, repeat=n):
            for stop in ('eof', 'X'):
                s.append(Case(t, stop=stop, mode='session'))
    if thorough:
        for t in itertools.product(CORE, repeat=2):
            s.append(Case(('begin',) + t, stop='eof', mode='session'))
    F['session'] = s
    # -- extended protocol, symbolic names / kinds, statement caching off and on
    s = []
    for b in BATCHES:
        for pre in ([], ['begin']):
            for end in (['S'], ['H', 'S'], ['H'], []):
                for stop in ('eof', 'X'):
                    for cache in (0, 4):
                        s.append(Case(pre + b + end, stop=stop, cache=cache))
    if thorough:
        for b1 in BATCHES[:5]:
            for b2 in BATCHES[:5]:
                for cache in (0, 4):
                    s.append(Case(b1 + ['S'] + b2 + ['S'], stop='X', cache=cache))
                    s.append(Case(['begin'] + b1 + ['S'] + b2, stop='eof', cache=cache))
    for t in (['Pbig', 'B', 'E', 'S', 'select'], ['Phuge', 'B', 'E', 'S', 'select'], ['begin', 'Phuge', 'B', 'E', 'S', 'commit'], ['P', 'B', 'E', 'Phuge', 'B', 'E', 'S', 'select']):
        s.append(Case(t, stop='X'))
    # transaction control and session statements sent through the extended protocol
    xb = {'begin': ['Pbegin', 'B', 'E', 'S'], 'commit': ['Pcommit', 'B', 'E', 'S'], 'error': ['Perror', 'B', 'E', 'S'], 'set': ['Pset', 'B', 'E', 'S'], 'select': ['P', 'B', 'E', 'S']}
    for t in (['begin', 'select', 'commit'], ['begin', 'error', 'select', 'commit'], ['begin', 'select'], ['set', 'select'], ['begin', 'set', 'commit'], ['begin', 'commit', 'select'], ['error', 'select']):
        for stop in ('eof', 'X'):
            s.append(Case([x for k in t for x in xb[k]], stop=stop))
            s.append(Case(xb[t[0]] + [x for x in t[1:]], stop=stop))                 # first statement extended, the rest simple
            s.append(Case([t[0]] + [x for k in t[1:] for x in xb[k]], stop=stop))    # first simple, the rest extended
    F['extended'] = s
    s = []
    for b1 in NAMED:
        for b2 in NAMED:
            for cache in (0, 4):
                s.append(Case(b1 + b2, stop='X', cache=cache))
                if thorough:
                    s.append(Case(b1 + b2, stop='eof', cache=cache))
                    s.append(Case(['begin'] + b1 + b2, stop='eof', cache=cache))
    if thorough:
        for b1, b2, b3 in itertools.product(NAMED[:5], repeat=3):
            s.append(Case(b1 + b2 + b3, stop='X', cache=4))
        for b1 in NAMED:
            for b2 in NAMED:
                s.append(Case(b1 + b2, stop='X', cache=1))       # a one-entry statement cache: evictions
    F['named'] = s
    # -- statement caching seen from the client: several names, re-preparation under the same name, small caches, two servers
    s = []
    progs = [['Ps', 'S', 'Ps2', 'S', 'Bs', 'E', 'S', 'Bs2', 'E', 'S'], ['Ps', 'S', 'Cs', 'S', 'Ps1b', 'Bs', 'E', 'S'], ['Ps', 'Bs', 'E', 'S', 'Ps1b', 'Bs', 'E', 'S'],
             ['Ps', 'Ps2', 'S', 'Bs2', 'E', 'Bs', 'E', 'S'], ['Ps', 'S', 'select', 'Bs', 'E', 'S', 'select2', 'Bs', 'E', 'S'], ['Ps', 'S', 'Ps2', 'S', 'Ps', 'S', 'Bs', 'E', 'S', 'Bs2', 'E', 'S'],
             ['begin', 'Ps', 'Bs', 'E', 'S', 'commit', 'Bs', 'E', 'S'], ['Ps', 'Ds', 'S', 'Bs', 'E', 'S'], ['Ps2', 'S', 'Ps', 'S', 'Cs2', 'S', 'Bs', 'E', 'S'],
             # Close and re-Parse of the same name inside ONE batch; use then Close in one batch
             ['Ps', 'S', 'Cs', 'Ps1b', 'Bs', 'E', 'S'], ['Ps', 'Bs', 'E', 'Cs', 'S', 'Ps1b', 'Bs', 'E', 'S'], ['Ps', 'S', 'Bs', 'E', 'Cs', 'Ps1b', 'Bs', 'E', 'S']]
    for t in progs:
        for cache in (1, 2, 4):
            s.append(Case(t, stop='X', cache=cache))
            s.append(Case(t, stop='X', cache=cache, roles=(1, 1)))
    # a full server-side cache: a statement that is USED (Bind) is the most recently used one, a Parse later in the same batch evicts another
    for t in (['Ps', 'S', 'Ps2', 'S', 'Bs', 'E', 'Ps3', 'S', 'Bs3', 'E', 'S'], ['Ps', 'S', 'Ps2', 'S', 'Bs', 'E', 'S', 'Ps3', 'S', 'Bs', 'E', 'S'],
              ['Ps', 'S', 'Ps2', 'S', 'Ps3', 'S', 'Bs3', 'E', 'Bs2', 'E', 'S']):
        for cache in (2, 3):
            s.append(Case(t, stop='X', cache=cache))
    # a Parse the SERVER rejects (the relation does not exist yet), the cause goes away, the same text is prepared again -- by the same client
    # under the same or another name
    for t in (['Pny', 'Ps2', 'S', 'Ps2', 'Bs2', 'E', 'S'], ['Pny', 'S', 'mktable', 'Pny', 'Bs', 'E', 'S'], ['Pny', 'S', 'mktable', 'Pny2', 'Bs2', 'E', 'S'], ['Pny', 'Bs', 'E', 'S', 'mktable', 'Pny', 'Bs', 'E', 'S']):
        for cache in (2, 4):
            s.append(Case(t, stop='X', cache=cache))
    F['cache'] = s
    # -- messages that are not what the protocol allows at that point (symbolic code byte, short bodies)
    s = []
    for pre in ([], ['begin'], ['Ps', 'S'], ['copyin']) + ((['begin', 'error'], ['begin', 'Ps', 'Bs']) if thorough else ()):
        for body in MALFORMED_BODIES:
            for cache in (0, 4):
                s.append(Case(list(pre) + ['code:' + body], stop='eof', cache=cache))
                if thorough:
                    s.append(Case(list(pre) + ['code:' + body, 'select'], stop='X', cache=cache))
    # (a session that had altered its connection -- SET outside a transaction, in either pool mode -- when the malformed message arrives)
    for mode in ('session', 'transaction'):
        for body in MALFORMED_BODIES[:(None if thorough else 2)]:
            s.append(Case(['set', 'code:' + body], stop='eof', cache=4, mode=mode))
    s.append(Case(['set', 'raw:4300000004'], stop='eof', cache=2, mode='session'))
    F['malformed'] = s
    # -- the client's socket drops inside a message
    s = []
    firsts = ['begin', 'select', 'set', 'copyin', 'Ps'] + (['error', 'prepare', 'multi'] if thorough else [])
    for t in itertools.product(firsts, ['select', 'commit', 'Ps', 'Bs', 'S', 'd']):
        for cut in (1, 4, 5, 6) + ((2, 3, 7) if thorough else ()):
            s.append(Case(t, cut=cut))
            if thorough:
                s.append(Case(t, cut=cut, cache=4))
    F['cuts'] = s
    # -- PAUSE / RESUME
    s = []
    for t in (['select'], ['begin', 'select', 'commit'], ['select', 'select'], ['P', 'B', 'E', 'S'], ['begin', 'select', 'commit', 'select']):
        for k in range(len(t)):
            for res in ((), ('resume',)):
                s.append(Case(t, stop='X', paused=('after', k) + res))
        s.append(Case(t, stop='X', paused='start'))
        s.append(Case(t, stop='X', paused='start-resume'))
    # session mode: a client that has not started its first transaction holds no server either -- PAUSE holds it just the same
    for t in (['select'], ['begin', 'select', 'commit'], ['P', 'B', 'E', 'S']):
        s.append(Case(t, stop='X', paused='start', mode='session'))
        s.append(Case(t, stop='X', paused='start-resume', mode='session'))
        s.append(Case(t, stop='X', paused=('after', 0), mode='session'))
        s.append(Case(t, stop='X', paused=('after', 0, 'resume'), mode='session'))
    F['pause'] = s
    # -- plugin verdicts (symbolic per statement)
    s = []
    for t in (['qt1'], ['begin', 'qt1'], ['qt1', 'qt2'], ['Pt1', 'B', 'E', 'S'], ['Pt1', 'B', 'E', 'H', 'Pt2', 'B', 'E', 'S'], ['Pt1', 'B', 'E', 'S', 'Pt2', 'B', 'E', 'S'],
              ['begin', 'Pt1', 'B', 'E', 'S'], ['Pt1', 'B', 'E', 'S', 'qt2'], ['Pt1', 'B', 'E', 'Pt2', 'B', 'E', 'S'], ['Pt2', 'Pt1', 'S'],
              ['begin', 'Pt1', 'B', 'E', 'Pt2', 'B', 'E', 'S'], ['qt1', 'Pt2', 'B', 'E', 'S'], ['begin', 'qt1', 'qt2', 'commit']):
        for stop in ('X', 'eof'):
            s.append(Case(t, stop=stop, plugins=('deny-only' if 'H' in t else True)))
    # statement caching on: a rejected named statement must not become usable through a later Bind
    for t in (['Pst1', 'S', 'Bs', 'E', 'S'], ['Pst1', 'Bs', 'E', 'S', 'Bs', 'E', 'S'], ['Pst2', 'S', 'Pst1', 'S', 'Bs2', 'E', 'S', 'Bs', 'E', 'S'], ['begin', 'Pst1', 'S', 'Bs', 'E', 'S'],
              ['Pst1', 'Ds', 'S', 'Ds', 'S']):
        s.append(Case(t, stop='X', cache=4, plugins=True))
    # the plugin configuration is fixed (t1 listed): a client must not be able to talk its way around it -- e.g. with the routing commands, which
    # switch the SQL parser off for the session
    for t in (["q:SET SERVER ROLE TO 'primary'", 'qt1'], ["q:SET SERVER ROLE TO 'primary'", 'Pt1', 'B', 'E', 'S'], ["q:SET SERVER ROLE TO 'any'", 'begin', 'qt1', 'commit'],
              ['qt2', "q:SET SERVER ROLE TO 'replica'", 'qt1']):
        s.append(Case(t, stop='X', plugins='deny-t1'))
    F['plugins'] = s
    # -- the backend reports an arbitrary (reachable) transaction status after every statement
    s = []
    for n in (1, 2, 3) + ((4,) if thorough else ()):
        for stop in ('X', 'eof'):
            s.append(Case(['select'] * n, stop=stop, sym_status=True))
            s.append(Case(['select'] * n, stop=stop, sym_status=True, mode='session'))
        s.append(Case(['select'] * n + ['Ps', 'Bs', 'E', 'S'], stop='eof', sym_status=True))
        s.append(Case(['select'] * n + ['code:'], stop='eof', sym_status=True))
        for cut in (1, 5):
            s.append(Case(['select'] * n + ['select'], cut=cut, sym_status=True))
    F['status'] = s
    # -- tracked session parameters follow the client across server connections
    s = []
    starts = [{'application_name': 'app_a'}, {'TimeZone': 'Europe/Paris', 'application_name': "it's"}, {}]
    progs = [['select'], ['select', 'select2'], ["q:SET TimeZone TO 'Asia/Tokyo'", 'select', 'select2'], ['begin', "q:SET DateStyle TO 'German'", 'commit', 'select'],
             ["q:SET application_name TO 'o''hara'", 'select'], ['P', 'B', 'E', 'S', "q:SET client_encoding TO 'LATIN1'", 'P', 'B', 'E', 'S'], ['begin', 'select', 'commit', 'select2'],
             ["q:SET statement_timeout TO 5", 'select']]
    for st in starts:
        for t in progs:
            s.append(Case(t, stop='X', params=st))
            s.append(Case(t, stop='X', params=st, roles=(1, 1)))
    F['params'] = s
    # -- the client's socket vanishes (reads hit EOF and every write to it fails) right after its last message
    s = []
    for t in (['select'], ['begin', 'select'], ['begin'], ['set'], ['copyin'], ['copyin', 'd'], ['copyout'], ['P', 'B', 'E', 'S'], ['begin', 'P', 'B', 'E', 'S'], ['Ps', 'Bs', 'E', 'S'],
              ['begin', 'error'], ['prepare'], ['setrole'], ['select', 'select2'], ['multi'], ['Ps', 'S']):
        s.append(Case(t, stop='drop'))
        s.append(Case(t, stop='drop', mode='session'))
        s.append(Case(t, stop='drop', cache=4))
    F['drops'] = s
    # -- checkouts that time out because the pool is exhausted by other clients
    s = []
    for t in (['select', 'select2'], ['begin', 'select', 'commit'], ['P', 'B', 'E', 'S', 'select'], ['select', 'P', 'B', 'E', 'S', 'P', 'B', 'E', 'S'], ['set', 'select'], ['begin', 'error', 'rollback', 'select'], ['Ps', 'Bs', 'E', 'S', 'Bs', 'E', 'S']):
        for stop in ('X', 'eof'):
            s.append(Case(t, stop=stop, checkout_failures=2))
        s.append(Case(t, stop='X', checkout_failures=1, cache=4))
    F['checkout-failures'] = s
    # -- the shutdown broadcast arriving at any point of a session
    s = []
    for t in (['select'], ['select', 'select2'], ['begin', 'select', 'commit'], ['begin', 'select', 'commit', 'select2'], ['P', 'B', 'E', 'S', 'select'], ['begin', 'P', 'B', 'E', 'S', 'commit'],
              ['begin', 'copyin', 'd', 'c', 'commit', 'select'], ['set', 'select']):
        for stop in ('X', 'eof'):
            s.append(Case(t, stop=stop, shutdown=True))
    F['shutdown'] = s
    # -- idle_client_in_transaction_timeout: the deadline may fire at any read inside a transaction
    s = []
    for t in (['begin', 'select', 'commit'], ['begin', 'select', 'select2', 'commit', 'select'], ['begin', 'set', 'select'], ['begin', 'copyin', 'd', 'c', 'commit'],
              ['begin', 'P', 'B', 'E', 'S', 'commit'], ['begin', 'error', 'rollback'], ['begin', 'Ps', 'S', 'Bs', 'E', 'S', 'commit']):
        for stop in ('X', 'eof'):
            s.append(Case(t, stop=stop, idle_timeout=True))
        s.append(Case(t, stop='X', idle_timeout=True, mode='session'))
    for t in (['sleep'], ['begin', 'sleep', 'commit'], ['select', 'sleep', 'select2'], ['set', 'sleep'], ['begin', 'select', 'sleep']):
        for stop in ('X', 'eof'):
            s.append(Case(t, stop=stop, stmt_timeout=True))
        s.append(Case(t, stop='X', stmt_timeout=True, mode='session'))
        s.append(Case(t, stop='X', stmt_timeout=True, second=['select']))
        # ... and the client's socket is already gone when the pooler tries to tell it about the timeout
        s.append(Case(t, stop='drop', stmt_timeout=True))
        s.append(Case(t, stop='drop', stmt_timeout=True, mode='session'))
    for t in (['begin', 'select'], ['begin', 'set', 'select'], ['begin', 'P', 'B', 'E', 'S']):
        s.append(Case(t, stop='drop', idle_timeout=True))
    F['timeouts'] = s
    # -- a replica that times out a statement (two replicas: the other one stays usable), the client still there or already gone
    s = []
    for t in (['sleep'], ['select', 'sleep'], ['begin', 'sleep']):
        for stop in ('X', 'eof', 'drop'):
            s.append(Case(t, stop=stop, stmt_timeout=True, roles=(1, 1)))
    for t in (['die'], ['select', 'die'], ['begin', 'die']):
        for stop in ('X', 'eof', 'drop'):
            s.append(Case(t, stop=stop, roles=(1, 1)))
    F['failover'] = s
    # -- a second client after the first: nothing of the first is visible to it
    s = []
    for a, pa in ((["q:SET TimeZone TO 'Asia/Tokyo'", 'select'], {'application_name': 'app_a'}), (['begin', "q:SET DateStyle TO 'German'", 'commit'], {}),
                  (['select'], {'TimeZone': 'Europe/Paris', 'client_encoding': 'LATIN1'}), (['set', 'select'], {})):
        for b, pb in ((['select'], {}), (['select', 'select2'], {'application_name': 'app_b'}), (['P', 'B', 'E', 'S'], {})):
            for stop in ('X', 'eof'):
                s.append(Case(a, stop=stop, params=pa, second=b, second_params=pb))
    for a in (['Ps', 'Bs', 'E', 'S'], ['Ps', 'S'], ['begin', 'Ps', 'Bs', 'E', 'S'], ['Ps', 'S', 'Ps2', 'S']):
        for b in (['Ps1b', 'Bs', 'E', 'S'], ['Bs', 'E', 'S'], ['Ps1b', 'S', 'Bs', 'E', 'S', 'Bs', 'E', 'S'], ['Ds', 'S']):
            for cache in (4, 1):
                for stop in ('X', 'eof'):
                    s.append(Case(a, stop=stop, cache=cache, second=b))
    for a in (['begin', 'select'], ['copyin', 'd'], ['begin', 'error'], ['setrole'], ['prepare'], ['Ps', 'Bs', 'E']):
        for b in (['select'], ['P', 'B', 'E', 'S'], ['begin', 'select', 'commit']):
            s.append(Case(a, stop='eof', second=b))
            s.append(Case(a, stop='eof', second=b, mode='session'))
    # a client whose batch the pooler abandons half-way (it binds a statement it has just closed): what it entered into the connection's
    # statement cache must not hurt the next client that prepares the same text
    for a in (['Ps', 'Cs', 'Bs', 'S'], ['Ps', 'Ps2', 'Cs2', 'Bs2', 'S']):
        for b in (['Ps', 'Bs', 'E', 'S'], ['Ps2', 'Bs2', 'E', 'S']):
            s.append(Case(a, stop='eof', cache=4, second=b))
    # a client with more statements than the connection's cache holds: re-using the evicted one makes the pooler prepare it again (and close the
    # one it evicts) on its own -- whatever it sends for that must be read to its end before the connection serves anybody else
    for a in (['Ps', 'S', 'Ps2', 'S', 'Bs', 'E', 'S'], ['Ps', 'S', 'Ps2', 'S', 'Ds', 'S']):
        for b in (['select'], ['P', 'B', 'E', 'S']):
            for stop in ('X', 'eof'):
                s.append(Case(a, stop=stop, cache=1, second=b))
    for a in (['hugesel'], ['bigsel'], ['Phuge', 'B', 'E', 'S'], ['copyin_big', 'd', 'c']):
        for stop in ('X', 'eof'):
            s.append(Case(a, stop=stop, second=['select']))
    F['two-clients'] = s
    # -- COPY IN with chunk sizes on both sides of the 8196-byte forwarding threshold
    s = []
    sizes = ['d', 'dbig:8185', 'dbig:8192', 'dbig:9000'] + (['dbig:4000', 'dbig:20000'] if thorough else [])
    for n in (1, 2, 3):
        for t in itertools.product(sizes, repeat=n):
            if n == 3 and not thorough and t.count('d') + t.count('dbig:9000') < 2:
                continue
            for end in ('c', 'f'):
                s.append(Case(['copyin'] + list(t) + [end, 'select'], stop='X'))
    s.append(Case(['copyin', 'dbig:9000', 'd'], stop='eof'))
    s.append(Case(['begin', 'copyin', 'd', 'dbig:9000', 'd', 'c', 'commit'], stop='X'))
    # a COPY FROM STDIN that is one statement of a multi-statement message: the rest of the message is answered after CopyDone
    for t in (['copyin_sel', 'd', 'c', 'select'], ['copyin_big', 'd', 'c', 'select'], ['begin', 'copyin_big', 'd', 'c', 'commit', 'select'], ['copyin_big', 'd', 'f', 'select']):
        for stop in ('X', 'eof'):
            s.append(Case(t, stop=stop))
    F['copy'] = s
    # -- the pooler's own commands: never forwarded, answered, and routing what follows (two shards; primary + replica)
    s = []
    two_shards = [(0,), (0,)]
    for t in (["qd:1:SET SHARD TO '", 'select'], ["qd:1:SET SHARD TO '", 'q:SHOW SHARD', 'select', 'select2'], ["qd:2:SET SHARDING KEY TO '", 'select', 'q:SHOW SHARD'],
              ["qd:1:SET SHARD TO '", 'begin', "q:SET SHARD TO '0'", 'select', 'commit', 'select2'], ['q:set shard to 1;', 'select'], ['q:SET SHARD TO 1', "qd:1:SET SHARD TO '", 'select'],
              ["qd:1:SET SHARDING KEY TO '", 'begin', 'select', 'select2', 'commit'], ['q:SHOW SHARD', "qd:1:SET SHARD TO '", 'q:SHOW SHARD'],
              ["q:SET SHARD TO '1'", "qd:1:SET SHARD TO '", 'q:SHOW SHARD', 'select']):
        for stop in ('X', 'eof'):
            s.append(Case(t, stop=stop, shards=two_shards, custom=True))
    if thorough:
        for t in (["qd:2:SET SHARDING KEY TO '", 'select', 'q:SHOW SHARD'], ["qd:1:SET SHARDING KEY TO '-", 'select'], ["qd:2:SET SHARD TO '", 'select'],
                  ["qd:2:SET SHARDING KEY TO '1", 'begin', 'select', 'commit', 'select2']):
            s.append(Case(t, stop='X', shards=[(0,), (0,), (0,)], custom=True))
    for role in ('primary', 'replica', 'any', 'PRIMARY'):
        for t in (["q:SET SERVER ROLE TO '%s'" % role, 'select'], ["q:SET SERVER ROLE TO '%s'" % role, 'q:SHOW SERVER ROLE', 'begin', 'select', 'commit'],
                  ["q:SET SERVER ROLE TO '%s'" % role, 'select', "q:SET SERVER ROLE TO 'primary'", 'select2']):
            s.append(Case(t, stop='X', shards=[(0, 1)], custom=True))
    # an explicit role choice outlives the transaction it was made in -- also when the POOL has the query parser on (SET SERVER ROLE switches it
    # off for the session) and a default_role other than the chosen one
    for role, dflt in (('primary', 'replica'), ('replica', 'primary')):
        for t in (["q:SET SERVER ROLE TO '%s'" % role, 'select', 'select2', 'begin', 'select', 'commit'], ["q:SET SERVER ROLE TO '%s'" % role, 'P', 'B', 'E', 'S', 'select']):
            s.append(Case(t, stop='X', shards=[(0, 1)], custom=True, pool_parser=dflt))
    # ... and a RELOAD that re-creates the pool between two transactions of the session
    for role, dflt in (('primary', 'replica'), ('replica', 'primary')):
        s.append(Case(["q:SET SERVER ROLE TO '%s'" % role, 'select', 'select2', 'select'], stop='X', shards=[(0, 1)], custom=True, pool_parser=dflt, reload_before=2))
    s.append(Case(["q:SET SHARD TO '1'", 'select', 'select2'], stop='X', shards=two_shards, custom=True, reload_before=2))
    for t in (["q:SET PRIMARY READS TO 'on'", 'q:SHOW PRIMARY READS', 'select'], ["q:SET PRIMARY READS TO 'off';", 'select']):
        s.append(Case(t, stop='X', shards=[(0, 1)], custom=True))
    # routing by comment (shard_id_regex / sharding_key_regex of the example configuration), in a simple Query and in a Parse, with the
    # session sitting on another shard before
    # (a shard id in a comment is kept below the number of shards: what an out-of-range id in a comment selects is not specified)
    sk, si = '/* sharding_key: ', '/* shard_id: '
    for t in (['qdc|1<2|%s| */ SELECT 1' % si, 'select'], ["q:SET SHARD TO '1'", 'qdc|1|%s| */ SELECT 1' % sk, 'select2'],
              ["q:SET SHARD TO '1'", 'pdc|1||%s| */ SELECT 1' % sk, 'B', 'E', 'S', 'select'], ['pdc|1<2|s1|%s| */ SELECT 1' % si, 'Bs', 'E', 'S', 'q:SHOW SHARD'],
              ["q:SET SHARD TO '0'", 'pdc|1<2||%s| */ SELECT 1' % si, 'B', 'E', 'S'], ['begin', 'qdc|1<2|%s| */ SELECT 1' % si, 'commit', 'select'],
              ["q:SET SHARDING KEY TO '1'", 'qdc|1|%s| */ SELECT 1' % sk, 'select']):
        s.append(Case(t, stop='X', shards=two_shards, custom=True, regex=True))
    if thorough:
        # (two symbolic digits multiply the paths of the key hash beyond the per-chunk bound: one symbolic digit next to a concrete one)
        for t in (['qdc|1|%s4| */ SELECT 1' % sk, 'select'], ['pdc|1||%s7| */ SELECT 1' % sk, 'B', 'E', 'S', 'select'], ['pdc|1<3|s1|%s| */ SELECT 1' % si, 'Bs', 'E', 'S', 'select']):
            s.append(Case(t, stop='X', shards=[(0,), (0,), (0,)], custom=True, regex=True))
    F['commands'] = s
    # -- two backends (either may be picked at checkout)
    s = []
    for t in (['begin', 'select', 'commit'], ['begin', 'select', 'select'], ['select', 'select'], ['begin', 'P', 'B', 'E', 'S', 'commit'], ['begin', 'error', 'select'],
              ['copyin', 'd', 'c', 'select']):
        for stop in ('X', 'eof'):
            s.append(Case(t, stop=stop, roles=(1, 1)))
            s.append(Case(t, stop=stop, roles=(0, 1)))
    F['two-backends'] = s
    return F


DESCR = {
    'simple': 'simple-protocol sessions: every sequence of up to 2 (3 after BEGIN) statements over {BEGIN, SELECT, COMMIT, ROLLBACK, failing statement, SET, SET ROLE, PREPARE, SET LOCAL, COPY IN, COPY OUT, empty query, CopyData/Done/Fail, multi-statement, Sync}, ended by Terminate or by EOF',
    'session': 'the same in session pool mode',
    'extended': 'extended-protocol batches (Parse/Bind/Describe/Execute/Close with SYMBOLIC statement names and target kinds), ended by Sync, Flush+Sync, Flush or nothing, inside and outside BEGIN, statement caching off and on',
    'named': 'pairs of batches re-using / closing / describing a named statement, statement caching off and on',
    'cache': 'client programs over two statement names (prepare, re-prepare under the same name, close, describe, interleaved simple queries, BEGIN..COMMIT) with server/pool statement caches of 1, 2 and 4 entries, on one server and on two (either may serve each transaction)',
    'malformed': 'a message with a SYMBOLIC code byte (each frontend code or any other byte) and a short body, arriving idle / in a transaction / after a Parse batch / in COPY IN',
    'cuts': 'the client socket reaches EOF inside its last message (every listed byte offset)',
    'pause': 'PAUSE arriving before the session or while the client is idle before its k-th message, with and without a later RESUME',
    'plugins': 'query parser on, the plugin verdict (allow / deny / intercept) of every parsed statement SYMBOLIC',
    'status': 'statements after each of which the backend reports a SYMBOLIC transaction status (any status PostgreSQL can reach from the previous one)',
    'params': 'sessions of a client whose startup values of tracked parameters differ from the servers\' (incl. a value with a quote), SETs of tracked and untracked parameters outside and inside BEGIN, on one server and on two (either may serve each transaction)',
    'drops': 'sessions whose client socket is gone for good right after its last message: pgcat\'s writes of the replies fail, then its read hits EOF',
    'checkout-failures': 'sessions in which up to two checkouts time out because other clients hold every connection (solver\'s choice which): the request gets the pool error, the session stays usable',
    'shutdown': 'sessions during which the shutdown broadcast may arrive at any select! (solver\'s choice, either polling order)',
    'timeouts': 'transactions of a client while idle_client_in_transaction_timeout is configured: at every read inside the transaction loop the deadline fires or not (solver\'s choice), afterwards the session goes on; and sessions with statement_timeout configured in which a slow statement is or is not answered in time',
    'two-clients': 'a first client (tracked-parameter SETs, named statements with caching on, an open transaction / COPY / session state at EOF) followed by a second client on the same server connections with its own parameters, statement names and requests',
    'copy': 'COPY IN sessions whose CopyData chunks have sizes on both sides of the 8196-byte forwarding threshold (1-3 chunks, CopyDone or CopyFail, then another query)',
    'commands': 'sessions that use the pooler commands (SET SHARD / SET SHARDING KEY with SYMBOLIC decimal digits, SHOW SHARD, SET SERVER ROLE, SET PRIMARY READS, and sharding_key / shard_id comments in a Query or a Parse) on a pool of two shards or of a primary and a replica, outside and inside BEGIN',
    'failover': 'two replicas; a statement the backend is slow on with statement_timeout configured, or a backend that closes its connection in the middle of a reply: the replica that failed must be banned, also when the client has already gone',
    'two-backends': 'a pool of two servers (replica+replica, primary+replica): either may be handed out at each checkout',
}


def _run_chunk(chk, prog, fam, i, n, cases, props):
    name = 'H-%s-%dof%d' % (fam, i + 1, n)
    ob = chk.begin(name, 'Client::handle (the real coroutine, executed from MIR against reference PostgreSQL backends) on %s; '
                   'reference model: hand-over cleanliness from the backend\'s ground truth, one guard at a time, every guard dropped, '
                   'request and reply streams relayed in order and unmodified, pause gate, denied statements never forwarded' % DESCR[fam],
                   {'family': fam, 'cases': len(cases), 'properties_reported_here': sorted(props)})
    for case in cases:
        ip = chk.interp(prog, name)
        try:
            run_case(chk, ob, ip, prog, case, props)
        except Inconclusive as e:
            chk.note_inconclusive('%s [%s]: %s' % (name, case.label(), e))
            ob.status = 'inconclusive'
        chk.absorb(ob, ip)
    chk.end(ob)


def handle_obligations(chk, prog, props, fams):
    F = families(chk.thorough)
    tasks = []
    for fam in fams:
        cases = F[fam]
        n = max(1, min(12, len(cases) // (4 if fam in ('status', 'plugins', 'malformed', 'commands', 'cache', 'params', 'two-clients', 'timeouts', 'failover', 'shutdown', 'checkout-failures') else 40)))
        for i in range(n):
            tasks.append((prog, fam, i, n, cases[i::n], set(props)))
    chk.parallel(_run_chunk, tasks)
    return sum(len(F[f]) for f in fams)
