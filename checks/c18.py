#!/usr/bin/env python3-vt
"""C18 -- admin statistics count every client, server connection and transaction once (per-session behaviour and the pool roll-up)."""
import os, sys, re, itertools
sys.path.insert(0, os.path.dirname(os.path.dirname(os.path.abspath(__file__))))
import z3
from harness.common import run_check, expectation
from checks.serverfam import *
from checks.c07 import mk_pool, mk_addr
from checks import hobl
from mirsym.models.util import ok, err


def mk_atomic_enum(v):
    return Ptr(Cell(Agg([Agg([v], 'Atomic')], 'AtomicEnum'), 'state'))


def mk_client_stats(ip, prog, cid, pool, user, state):
    names = prog.src.structs['ClientStats']
    vals = dict(client_id=BV(32, cid), application_name=rstring('app'), username=rstring(user), pool_name=rstring(pool),
                connect_time=Agg([BV(64, 0)], 'Instant'), reporter=Opaque('Reporter', 'reporter'),
                total_wait_time=Ptr(Cell(Agg([BV(64, 0)], 'Atomic'), 'a')), max_wait_time=Ptr(Cell(Agg([BV(64, 0)], 'Atomic'), 'a')),
                wait_start_us=Ptr(Cell(Agg([BV(64, 0)], 'Atomic'), 'a')), state=mk_atomic_enum(state),
                transaction_count=Ptr(Cell(Agg([BV(64, 0)], 'Atomic'), 'a')), query_count=Ptr(Cell(Agg([BV(64, 0)], 'Atomic'), 'a')),
                error_count=Ptr(Cell(Agg([BV(64, 0)], 'Atomic'), 'a')))
    return Agg([vals[n] for n in names], 'ClientStats', list(names))


@expectation('c18_cancel_conn')
def c18_cancel_conn():
    def f(res):
        r = res[0]
        if 'panic' in r or 'error' in r:
            return ('panic' in r), 'native: %r' % (r,)
        return (r.get('target_listed_after') is False, 'native: a connected client is %s by SHOW CLIENTS after a CancelRequest naming its process id was served (%r)' %
                ('no longer listed' if r.get('target_listed_after') is False else 'still listed', r))
    return f


def o3_cancel_conn(chk, prog):
    """A CancelRequest connection from its construction (the real Client::cancel) through Client::handle in cancel mode to the drop of the Client: it is
    not a client of any pool and must leave the statistics registry alone -- in particular the entry of the client whose process id it names."""
    ob = chk.begin('O3-cancel-connection', 'Client::cancel (real constructor) on a request with SYMBOLIC process id and key, then Client::handle in cancel mode '
                   '(key known or unknown, Server::cancel succeeding or failing) and <Client as Drop>::drop / the entry point\'s disconnect on error: no '
                   'statistics call (register / disconnect / state change) is made on an entry whose client id is the process id named in the request', {})
    cancel = fn(prog, 'Client::cancel')
    handle = fn(prog, 'Client::handle')
    dr = [f for n, f in prog.funcs.items() if re.search(r'client::<impl at [^>]*>::drop$', n)]
    if len(dr) != 1:
        raise Inconclusive('cannot locate <Client as Drop>::drop')
    ip = chk.interp(prog, 'O3-cancel-connection')
    base = list(ip.overrides)
    from harness import wire

    def harness(ip_):
        ip_.overrides[:] = base
        touched = []

        def cs_new(c, pid, *a):
            return Opaque('ClientStats', 'cs', {'id': pid})

        def cs_default(c):
            return Opaque('ClientStats', 'cs', {'id': BV(32, 0)})

        def cs_call(c, p, *a):
            v = p
            for _ in range(4):
                if isinstance(v, Ptr):
                    v = deref(c.ip, v)
            if isinstance(v, Opaque) and v.ty == 'ClientStats':
                touched.append((c.m.group(1), v.data['id']))
            t_ = (c.dest_ty or '').strip()
            return unit() if t_ in ('()', '') else c.ip.fresh_of_type(t_, 'stat')
        ip_.overrides[:0] = [
            (re.compile(r'^(?:stats::\w+::)?ClientStats::new$'), cs_new),
            (re.compile(r'^<(?:stats::\w+::)?ClientStats as (?:std::default::)?Default>::default$'), cs_default),
            (re.compile(r'^(?:stats::\w+::)?ClientStats::(register|disconnect|idle|active|waiting|transaction|query|checkout_error|checkout_success|ban_error)$'), cs_call),
            (re.compile(r'^(?:server::)?Server::cancel$'), lambda c, *a: Opaque('HookFuture', 'cancel')),
        ]
        install_stats_noops(ip_)

        def poll_hook(ip2, co, ptr):
            if isinstance(co, Opaque) and co.ty == 'HookFuture' and co.tag == 'cancel':
                okk = ip2.choose(2, 'cancel_ok') == 1
                return EnumV(BV(64, 0), {'Ready': [ok(ip2, unit()) if okk else err(ip2, ip2.make_enum('Error', 'SocketError', [rstring('x')]))]}, 'Poll')
            raise Inconclusive('poll of %r' % (co,))
        ip_.poll_hook = poll_hook
        pid, key = ip_.fresh(32, 'req_pid'), ip_.fresh(32, 'req_key')
        m = MapV('hashmap')
        if ip_.choose(2, 'key_known') == 1:
            m.entries.append([Agg([pid, key], 'tuple'), Cell(Agg([BV(32, 777), BV(32, 888), rstring('h'), BV(16, 5432)], 'tuple'), 'v')])
        csm = Ptr(Cell(Agg([m], 'Lock'), 'csmap'))
        body = Seq(wire.be_sym(pid, 4) + wire.be_sym(key, 4), 'bytesmut')
        r = ip_.drive(ip_.call_function(cancel, [StreamV([], 'r'), StreamV([], 'w'), Opaque('SocketAddr', 'addr'), body, csm, Opaque('Receiver', 'shutdown')]))
        if variant(ip_, r, 'Result') != 'Ok':
            raise Inconclusive('Client::cancel returned Err')
        cl = payload(r, 'Ok')[0]
        cp = Ptr(Cell(cl, 'client'))
        res = ip_.drive(ip_.call_function(handle, [cp]))
        if variant(ip_, res, 'Result') == 'Err':
            # client_entrypoint: `if result.is_err() { client.stats.disconnect() }`
            st_ = getf(prog, cl, 'Client', 'stats')
            for _ in range(3):
                if isinstance(st_, Ptr):
                    st_ = deref(ip_, st_)
            if isinstance(st_, Opaque) and st_.ty == 'ClientStats':
                touched.append(('disconnect', st_.data['id']))
        ip_.call_function(dr[0], [cp])
        ob.nontrivial += 1
        for what, cid in touched:
            if isinstance(cid, BV) and ip_.model_for(cid.z() != pid.z()) is None:
                chk.report(ob, 'C18/O3/cancel-connection-touches-target', 'the connection that carries a CancelRequest calls ClientStats::%s on an entry whose id IS the process id '
                           'named in the request: the target client (still connected) is dropped from SHOW CLIENTS and the pool totals' % what, {},
                           {'commands': [{'op': 'cancel_conn_stats'}], 'expect': ['c18_cancel_conn']})
                break
        if len(ob.samples) < 2:
            ob.samples.append({'stats_calls': [w for w, _ in touched]})
    ip.explore(harness)
    chk.absorb(ob, ip)
    chk.end(ob)


@expectation('c18_connect_settings')
def c18_connect_settings():
    """Native: real bb8 pools of ServerPool managers against scripted servers: the connection's cleanup switch / cache capacity are the manager's;
    a manager without plugins sends nothing but its startup to the server although the general [plugins] block enables the prewarmer."""
    def f(res):
        for r in res:
            if 'error' in r or 'panic' in r:
                return False, 'native: %r' % (r,)
            bad = []
            if r.get('cleanup_seen') != r.get('cleanup_given'):
                bad.append('cleanup_connections given %r, the connection has %r' % (r.get('cleanup_given'), r.get('cleanup_seen')))
            if r.get('cache_seen') != r.get('cache_given'):
                bad.append('statement cache size given %r, the connection has %r' % (r.get('cache_given'), r.get('cache_seen')))
            if r.get('queries_on_plain_connect'):
                bad.append('a manager without plugins sent %r to its new connection' % (r.get('queries_on_plain_connect'),))
            if bad:
                return True, 'native: ' + '; '.join(bad)
        return False, 'native: %r' % (res,)
    return f


@expectation('c18_connect')
def c18_connect():
    """Native: a real bb8 pool of ServerPool (min_idle 2) against a scripted PostgreSQL: once the connections are open and nobody uses them,
    every listed server connection is `idle`; against a server that refuses the startup, nothing stays listed."""
    def f(res):
        for r in res:
            if 'error' in r or 'panic' in r:
                return False, 'native: %r' % (r,)
            if any(s != 'idle' for s in r.get('states_after_open', [])) or r.get('listed_after_failure', 0) != 0:
                return True, 'native: server connections opened ahead of use are listed as %r (idle required); after a failed connect %r entries stay listed' % (
                    r.get('states_after_open'), r.get('listed_after_failure'))
        return False, 'native: %r' % (res,)
    return f


def startup_param_names(prog):
    """Parameter names of Server::startup, in order, from the source text (the MIR dump carries no names for arguments)."""
    for path, text in prog.src.clean.items():
        if path.endswith('server.rs'):
            m = re.search(r'pub\s+async\s+fn\s+startup\s*\((.*?)\)\s*->', text, re.S)
            if m:
                return [x.split(':')[0].strip() for x in m.group(1).split(',') if ':' in x]
    return []


def o4_connect(chk, prog, props=('C18',)):
    """bb8's connect hook: the server connection's entry in the statistics (C18); what the new connection is configured with (C02: the
    cleanup switch, C08: the statement cache size) and which plugins run on it (C20: a mirror's connections run none)."""
    ob = chk.begin('O4-connect', '<ServerPool as ManageConnection>::connect (real coroutine) with Server::startup succeeding or failing (solver\'s choice): the new connection is '
                   'registered exactly once; a connection handed to bb8 is in state idle (it sits in the pool until somebody checks it out); a failed connect leaves nothing registered',
                   {'startup': 'Ok | Err'})
    cands = [f for n, f in prog.funcs.items() if re.search(r'ManageConnection for ServerPool|pool::<impl at [^>]*>::connect$', n) and n.endswith('::connect')]
    cands = [f for f in cands if 'ServerPool' in (prog.impl_of.get(f.name, ('', ''))[0] or '')] or cands
    if len(cands) != 1:
        raise Inconclusive('cannot locate ServerPool::connect (%d candidates)' % len(cands))
    ip = chk.interp(prog, 'O4-connect')
    base = list(ip.overrides)

    def harness(ip_):
        ip_.overrides[:] = base
        calls = []

        def rec(c, *a):
            calls.append(c.callee.rsplit('::', 1)[-1])
            t_ = (c.dest_ty or '').strip()
            return unit() if t_ in ('()', '') else ip_.fresh_of_type(t_, 'stat')
        started = {}

        def startup(c, *a):
            started['args'] = a
            return Opaque('HookFuture', 'startup')

        def poll_hook(ip2, co, ptr):
            if isinstance(co, Opaque) and co.ty == 'HookFuture' and co.tag == 'ready':
                return EnumV(BV(64, 0), {'Ready': [co.data]}, 'Poll')
            if isinstance(co, Opaque) and co.ty == 'HookFuture' and co.tag == 'startup':
                from mirsym.models.util import ok as _ok, err as _err
                if ip2.choose(2, 'startup_ok') == 1:
                    started['ok'] = True
                    return EnumV(BV(64, 0), {'Ready': [_ok(ip2, mk_server(ip2, prog, StreamV([], 'server')))]}, 'Poll')
                started['ok'] = False
                return EnumV(BV(64, 0), {'Ready': [_err(ip2, ip2.make_enum('Error', 'ServerStartupError', [rstring('refused'), Opaque('ServerIdentifier', 'id')]))]}, 'Poll')
            raise Inconclusive('poll of %r' % (co,))
        ip_.poll_hook = poll_hook
        prewarmed = []

        def prewarm(c, p):
            pw = deref(ip_, p) if isinstance(p, Ptr) else p
            en = pw.fields[0] if isinstance(pw, Agg) else None
            if not (isinstance(en, BV) and en.concrete and en.v == 0):
                prewarmed.append(1)
            from mirsym.models.util import ok as _ok2
            return Opaque('HookFuture', 'ready', _ok2(ip_, unit()))
        from checks import fromconfig as FC
        cfg = FC.base_config(ip_, prog)
        pnames = prog.src.structs['Plugins']

        def mk_plugins(tag):
            pw = Agg([BV(1, 1), Seq([rstring('select 1 -- ' + tag)], 'vec')], 'Prewarmer', ['enabled', 'queries'])
            vals_ = {n: none(ip_) for n in pnames}
            vals_['prewarmer'] = some(ip_, pw)
            return Agg([vals_[n] for n in pnames], 'Plugins', list(pnames))
        # the general [plugins] block enables the prewarmer; whether THIS manager was given plugins is the solver's choice
        setf(prog, cfg, 'Config', 'plugins', some(ip_, mk_plugins('general')))
        FC.install(ip_, cfg)
        own_plugins = ip_.choose(2, 'manager_has_plugins') == 1
        ip_.overrides[:0] = [
            (re.compile(r'Prewarmer(?:::<.*>|<.*>)?::run$'), prewarm),
            (re.compile(r'^(?:stats::\w+::)?ServerStats::new$'), lambda c, *a: Opaque('ServerStats', 'new')),
            (re.compile(r'^(?:stats::\w+::)?ServerStats::(register|idle|disconnect|login|active|tested)$'), rec),
            (re.compile(r'^(?:server::)?Server::<?.*>?::startup$|^(?:server::)?Server::startup$'), startup),
            (re.compile(r'Instant::now$'), lambda c: Opaque('Instant', 'now')),
        ]
        from checks.c07 import mk_addr
        names = prog.src.structs['ServerPool']
        vals = {'address': mk_addr(ip_, prog, 0, 1), 'user': Opaque('User', 'u'), 'database': rstring('db'),
                'client_server_map': Ptr(Cell(Agg([MapV('hashmap')], 'Lock'), 'csmap')), 'auth_hash': Ptr(Cell(Agg([none(ip_)], 'Lock'), 'auth_hash')),
                'plugins': some(ip_, mk_plugins('own')) if own_plugins else none(ip_), 'cleanup_connections': ip_.fresh(1, 'cleanup_connections'),
                'log_client_parameter_status_changes': ip_.fresh(1, 'log_parameter_changes'), 'prepared_statement_cache_size': ip_.fresh(64, 'cache_size')}
        missing = [n for n in names if n not in vals]
        if missing:
            raise Inconclusive('ServerPool fields %r unknown to the harness' % (missing,))
        sp = Agg([vals[n] for n in names], 'ServerPool', list(names))
        try:
            fut = ip_.call_function(cands[0], [Ptr(Cell(sp, 'manager'))])
            if isinstance(fut, Ptr):
                fut = ip_.load(fut.cell, fut.path)
            r = ip_.drive(fut)
        except Panic as p:
            raise Inconclusive('connect panic: ' + p.msg)
        ob.nontrivial += 1
        okr = variant(ip_, r, 'Result') == 'Ok'
        # the entry's life as the calls describe it
        registered, state = 0, None
        for c_ in calls:
            if c_ == 'register':
                registered += 1
                state = 'login'
            elif c_ == 'disconnect':
                registered -= 1
            elif c_ in ('idle', 'login', 'active', 'tested'):
                state = c_
        what = None
        if okr and registered != 1:
            what = 'a successful connect leaves the connection registered %d time(s)' % registered
        elif okr and state != 'idle':
            what = 'a connection handed to bb8 is left in state %r (it sits in the pool, nobody is using it): SHOW SERVERS / sv_idle / sv_login / free_servers are wrong until a client has used it' % state
        elif not okr and registered != 0:
            what = 'a failed connect leaves %d entry(ies) registered' % registered
        # what the connection is configured with: each setting of the manager reaches Server::startup under its own name
        pn = startup_param_names(prog)
        a_ = started.get('args')
        if a_ is not None and len(pn) == len(a_):
            for nm, prop_, why in (('cleanup_connections', 'C02', 'the connection is reset (or discarded) before it changes hands only if its cleanup switch is the configured one'),
                                   ('prepared_statement_cache_size', 'C08', 'the connection\'s statement cache has the configured capacity'),
                                   ('log_client_parameter_status_changes', 'C12', 'parameter-status logging is the configured one')):
                if nm in pn and prop_ in props:
                    got, want = a_[pn.index(nm)], vals[nm]
                    if not isinstance(got, BV) or ip_.is_sat(got.z() != want.z()):
                        chk.report(ob, '%s/O4/connect-setting/%s' % (prop_, nm), 'ServerPool::connect starts the connection with %s = %r, the pool was configured with %r: %s' % (nm, got, want, why),
                                   {'setting': nm}, {'commands': [{'op': 'connect_settings'}], 'expect': ['c18_connect_settings']})
        elif a_ is not None and ('C02' in props or 'C08' in props):
            raise Inconclusive('Server::startup takes %d arguments, the source names %d' % (len(a_), len(pn)))
        if 'C20' in props and okr and prewarmed and not own_plugins:
            chk.report(ob, 'C20/O4/connect-runs-foreign-plugins', 'a manager that was given NO plugins (a mirror\'s pool is built that way) prewarms its new connection with the general [plugins] block: '
                       'the mirror receives statements that are not copies of anything sent to the mirrored server', {}, {'commands': [{'op': 'connect_settings'}], 'expect': ['c18_connect_settings']})
        if what and 'C18' in props:
            chk.report(ob, 'C18/O4/connect-state', '%s (statistics calls: %r)' % (what, calls), {'calls': calls}, {'commands': [{'op': 'connect_states'}], 'expect': ['c18_connect']})
        if len(ob.samples) < 2:
            ob.samples.append({'startup_ok': okr, 'calls': list(calls)})
    ip.explore(harness)
    chk.absorb(ob, ip)
    chk.end(ob)


STATE_NAMES = {0: 'idle', 1: 'waiting', 2: 'active'}


def parse_rows(out):
    """DataRow messages of a reply (concrete bytes) -> list of lists of column texts."""
    rows, i = [], 0
    while i + 5 <= len(out):
        code, ln = out[i:i + 1], int.from_bytes(out[i + 1:i + 5], 'big')
        body = out[i + 5:i + 1 + ln]
        if code == b'D':
            n, j, cols = int.from_bytes(body[:2], 'big'), 2, []
            for _ in range(n):
                l_ = int.from_bytes(body[j:j + 4], 'big')
                j += 4
                cols.append(body[j:j + l_].decode('latin1'))
                j += l_
            rows.append(cols)
        i += 1 + ln
    return rows


@expectation('c18_show_clients')
def c18_show_clients():
    """Native: two clients registered in the real registry with given states and counters; SHOW CLIENTS through the real handle_admin."""
    def f(res):
        for r in res:
            if 'error' in r or 'panic' in r:
                return False, 'native: %r' % (r,)
            if sorted(map(tuple, r.get('rows', []))) != sorted(map(tuple, r.get('want', []))):
                return True, 'native: SHOW CLIENTS lists %r, the registry holds %r' % (r.get('rows'), r.get('want'))
        return False, 'native: %r' % (res,)
    return f


def o5_show_clients(chk, prog):
    """SHOW CLIENTS as the admin console renders it: every registered client once, with its own identity, its true state and its own counters."""
    ob = chk.begin('O5-show-clients', 'admin::handle_admin (real coroutine) on SHOW CLIENTS over a registry of two clients with SYMBOLIC states and distinct identities and counters: the reply '
                   'has exactly one DataRow per registered client, and in it the client\'s own id, pool, user, application, its state in words (idle / waiting / active as stored), and its '
                   'own transaction / query / error totals in the columns that are named so', {'clients': 2})
    ha = prog.funcs.get('handle_admin')
    if ha is None:
        raise Inconclusive('cannot locate admin::handle_admin')
    ip = chk.interp(prog, 'O5-show-clients')
    base = list(ip.overrides)
    spec = [dict(cid=0x1a, pool='db0', user='u0', app='app0', tx=3, q=7, err=1), dict(cid=0x2b, pool='db1', user='u1', app='app1', tx=40, q=50, err=0)]

    def harness(ip_):
        ip_.overrides[:] = base
        cmap = MapV('hashmap')
        sts = []
        for i, s in enumerate(spec):
            st = ip_.fresh(64, 'cstate%d' % i)
            ip_.assume(z3.ULE(st.v, 2))
            sts.append(st)
            cs = mk_client_stats(ip_, prog, s['cid'], s['pool'], s['user'], st)
            setf(prog, cs, 'ClientStats', 'application_name', rstring(s['app']))
            for fld, key in (('transaction_count', 'tx'), ('query_count', 'q'), ('error_count', 'err')):
                setf(prog, cs, 'ClientStats', fld, Ptr(Cell(Agg([BV(64, s[key])], 'Atomic'), 'a')))
            cmap.entries.append([BV(32, s['cid']), Cell(Ptr(Cell(cs, 'cs')), 'v')])

        def cload(c, p, order):
            v = deref(c.ip, p)
            return EnumV(v.fields[0].fields[0], {}, 'ClientState')
        ip_.overrides[:0] = [(re.compile(r'^(?:stats::|super::)?get_client_stats$'), lambda c: cmap),
                             (re.compile(r'^(?:stats::\w+::)?AtomicClientState::load$'), cload),
                             (re.compile(r'Instant::now$'), lambda c: Agg([BV(64, 5)], 'Instant')),
                             (re.compile(r'Instant::duration_since$'), lambda c, a, b: Opaque('Duration', 'd')),
                             (re.compile(r'Duration::as_secs$'), lambda c, d: BV(64, 5))]
        q = b'SHOW CLIENTS'
        body = [BV(8, x) for x in b'Q' + (len(q) + 5).to_bytes(4, 'big') + q + b'\0']
        st_ = StreamV([], 'admin_client')
        csm = Ptr(Cell(Agg([MapV('hashmap')], 'Lock'), 'csmap'))
        try:
            ip_.drive(ip_.call_function(ha, [Ptr(Cell(st_, 'stream')), Seq(body, 'bytesmut'), csm]))
        except Panic as p:
            raise Inconclusive('handle_admin panic: ' + p.msg)
        ob.nontrivial += 1
        if any(not b.concrete for b in st_.out):
            raise Inconclusive('SHOW CLIENTS reply has symbolic bytes')
        rows = parse_rows(bytes(b.v for b in st_.out))
        states = []
        for s_ in sts:
            states.append(next(nm for k_, nm in STATE_NAMES.items() if decide(ip_, s_.v == k_)))
        want = [['0x%08X' % s['cid'], s['pool'], s['user'], s['app'], states[i], str(s['tx']), str(s['q']), str(s['err'])] for i, s in enumerate(spec)]
        got = [r_[:8] for r_ in rows]
        if sorted(got) != sorted(want):
            chk.report(ob, 'C18/O5/show-clients', 'SHOW CLIENTS lists %r; the registry holds %r (id, pool, user, application, state, transactions, queries, errors)' % (got, want), {'states': states},
                       {'commands': [{'op': 'show_clients', 'clients': [dict(s, state=states[i]) for i, s in enumerate(spec)], 'want': want}], 'expect': ['c18_show_clients']})
        if len(ob.samples) < 3:
            ob.samples.append({'states': states, 'rows': got})
    ip.explore(harness)
    chk.absorb(ob, ip)
    chk.end(ob)


POOL_COLS = ('cl_idle', 'cl_active', 'cl_waiting', 'cl_cancel_req', 'sv_active', 'sv_idle', 'sv_used', 'sv_tested', 'sv_login')


@expectation('c18_pool_row')
def c18_pool_row():
    """Native: PoolStats::generate_header / generate_row on a PoolStats whose counters are all different."""
    def f(res):
        for r in res:
            if 'error' in r or 'panic' in r:
                return False, 'native: %r' % (r,)
            bad = [(h, v) for h, v in zip(r.get('header', []), r.get('row', [])) if h in r.get('fields', {}) and str(r['fields'][h]) != v]
            if bad or len(r.get('header', [])) != len(r.get('row', [])):
                return True, 'native: SHOW POOLS columns that do not carry the counter they are named after: %r' % (bad,)
        return False, 'native: %r' % (res,)
    return f


def o6_pool_row(chk, prog):
    """SHOW POOLS / SHOW LISTS print what construct_pool_lookup counted: the column named X carries the counter X."""
    ob = chk.begin('O6-pool-row', 'PoolStats::generate_header and generate_row (what SHOW POOLS sends per pool) on a PoolStats whose nine counters are pairwise different and whose maxwait is '
                   '7 000 123 us: header and row have the same length, the column named after a counter carries that counter in decimal, database / user are the pool\'s, '
                   'maxwait / maxwait_us are the seconds and the remaining microseconds', {})
    gh = prog.lookup('PoolStats::generate_header')
    gr = prog.lookup('PoolStats::generate_row')
    if len(gh) != 1 or len(gr) != 1:
        raise Inconclusive('cannot locate PoolStats::generate_header / generate_row')
    ip = chk.interp(prog, 'O6-pool-row')

    def harness(ip_):
        names = prog.src.structs['PoolStats']
        ident_names = prog.src.structs['PoolIdentifier']
        iv = {'db': rstring('dbx'), 'user': rstring('ux')}
        vals = {'identifier': Agg([iv[n] for n in ident_names], 'PoolIdentifier', list(ident_names)), 'mode': ip_.make_enum('PoolMode', 'Transaction'), 'maxwait': BV(64, 7000123)}
        fields = {}
        for i, c_ in enumerate(POOL_COLS):
            fields[c_] = 11 + i
            vals[c_] = BV(64, 11 + i)
        missing = [n for n in names if n not in vals]
        if missing:
            raise Inconclusive('PoolStats fields %r unknown to the harness' % (missing,))
        ps = Agg([vals[n] for n in names], 'PoolStats', list(names))
        hdr = ip_.call_function(gh[0], [])
        row = ip_.call_function(gr[0], [Ptr(Cell(ps, 'poolstats'))])
        ob.nontrivial += 1
        hn = [bytes(b.v for b in items(ip_, h.fields[0])).decode() for h in hdr.items]
        rv = [bytes(b.v for b in items(ip_, x)).decode() if all(b.concrete for b in items(ip_, x)) else None for x in row.items]
        want = dict({k: str(v) for k, v in fields.items()}, database='dbx', user='ux', maxwait='7', maxwait_us='123')
        bad = [(h, v, want[h]) for h, v in zip(hn, rv) if h in want and v != want[h]]
        if len(hn) != len(rv) or bad or any(k not in hn for k in want):
            chk.report(ob, 'C18/O6/pool-row', 'SHOW POOLS: header %r, row %r -- columns that do not carry what they are named after: %r' % (hn, rv, bad), {},
                       {'commands': [{'op': 'pool_row', 'fields': dict(fields, maxwait=7000123)}], 'expect': ['c18_pool_row']})
        if not ob.samples:
            ob.samples.append({'header': hn, 'row': rv})
    ip.explore(harness)
    chk.absorb(ob, ip)
    chk.end(ob)


@expectation('c18_server_drop')
def c18_server_drop():
    """Native: a Server whose ServerStats entry is registered is dropped (healthy or marked bad): the registry no longer lists it."""
    def f(res):
        for r in res:
            if 'error' in r or 'panic' in r:
                return False, 'native: %r' % (r,)
            if not r.get('listed_before') or r.get('listed_after_good') or r.get('listed_after_bad'):
                return True, 'native: server entry listed before the drop: %r; after dropping a healthy connection: %r; after dropping one marked bad: %r' % (
                    r.get('listed_before'), r.get('listed_after_good'), r.get('listed_after_bad'))
        return False, 'native: %r' % (res,)
    return f


def o7_server_drop(chk, prog):
    """The other end of O4: a server connection that goes away -- however -- takes its entry out of the statistics, once."""
    dr = [f for n, f in prog.funcs.items() if re.search(r'server::<impl at [^>]*>::drop$', n) and (prog.impl_of.get(n, ('', ''))[0] or '').endswith('Server')]
    if len(dr) != 1:
        raise Inconclusive('cannot locate <Server as Drop>::drop (%d candidates)' % len(dr))
    ob = chk.begin('O7-server-drop', '<Server as Drop>::drop from MIR on a connection with SYMBOLIC flags (bad, in transaction, in copy mode ...), the Terminate write succeeding, '
                   'falling short or failing (solver\'s choice): ServerStats::disconnect is called exactly once -- the entry bb8\'s connect hook registered (O4) is removed whenever the '
                   'connection object goes away', {})
    ip = chk.interp(prog, 'O7-server-drop')
    base = list(ip.overrides)

    def harness(ip_):
        ip_.overrides[:] = base
        calls = []

        def rec(c, *a):
            calls.append(c.callee.rsplit('::', 1)[-1])
            t_ = (c.dest_ty or '').strip()
            return unit() if t_ in ('()', '') else ip_.fresh_of_type(t_, 'stat')

        def try_write(c, *a):
            k = ip_.choose(3, 'terminate_write')
            from mirsym.models.util import ok as _ok, err as _err
            return _ok(ip_, BV(64, 5)) if k == 0 else (_ok(ip_, BV(64, 2)) if k == 1 else _err(ip_, Opaque('io::Error', 'wouldblock')))
        ip_.overrides[:0] = [
            (re.compile(r'^(?:stats::\w+::)?ServerStats::\w+$'), rec),
            (re.compile(r'try_write$'), try_write),
            (re.compile(r'get_mut$'), lambda c, p: p),
            (re.compile(r'^<NaiveDateTime as (?:std::ops::)?Sub>::sub$'), lambda c, a, b: Opaque('Duration', 'session')),
            (re.compile(r'^chrono::.*::now$|naive_utc$'), lambda c, *a: Opaque('Time', 't')),
            (re.compile(r'format_duration$'), lambda c, d: rstring('0d 00:00:00.000')),
        ]
        st = StreamV([], 'server')
        srv, pre, prebuf = mk_symbolic_server(ip_, prog, st, 0, bad=sym_flag(ip_, 'pre_bad'))
        try:
            ip_.call_function(dr[0], [Ptr(Cell(srv, 'server'))])
        except Panic as p:
            raise Inconclusive('Server::drop panic: ' + p.msg)
        ob.nontrivial += 1
        n = calls.count('disconnect')
        if n != 1:
            chk.report(ob, 'C18/O7/server-drop', 'a server connection is dropped and ServerStats::disconnect is called %d time(s) (statistics calls: %r): its entry %s' % (
                n, calls, 'stays listed in SHOW SERVERS and is counted in SHOW POOLS for ever' if n == 0 else 'is removed more than once'), {'calls': calls},
                {'commands': [{'op': 'server_drop_stats'}], 'expect': ['c18_server_drop']})
        if len(ob.samples) < 2:
            ob.samples.append({'statistics_calls': list(calls)})
    ip.explore(harness)
    chk.absorb(ob, ip)
    chk.end(ob)


SSTATE_NAMES = {0: 'login', 1: 'active', 2: 'tested', 3: 'idle'}
SERVER_COLS = ('transaction_count', 'query_count', 'bytes_sent', 'bytes_received', 'prepared_hit_count', 'prepared_miss_count', 'prepared_eviction_count', 'prepared_cache_size')


@expectation('c18_show_servers')
def c18_show_servers():
    """Native: server connections registered in the real registry with given states and counters; SHOW SERVERS through the real handle_admin."""
    def f(res):
        for r in res:
            if 'error' in r or 'panic' in r:
                return False, 'native: %r' % (r,)
            if sorted(map(tuple, r.get('rows', []))) != sorted(map(tuple, r.get('want', []))):
                return True, 'native: SHOW SERVERS lists %r, the registry holds %r' % (r.get('rows'), r.get('want'))
        return False, 'native: %r' % (res,)
    return f


def o8_show_servers(chk, prog):
    """SHOW SERVERS as the admin console renders it: every registered server connection once, with its own pool, user, state and counters."""
    from checks.c07 import mk_addr
    ob = chk.begin('O8-show-servers', 'admin::handle_admin (real coroutine) on SHOW SERVERS over a registry of two server connections with SYMBOLIC states and distinct pools, users, '
                   'applications and counters: exactly one DataRow per registered connection, with its pool, user, application, its state in words (login / active / tested / idle as stored) '
                   'and its own transaction / query / byte / statement-cache counters in the columns named so', {'servers': 2})
    ha = prog.funcs.get('handle_admin')
    if ha is None:
        raise Inconclusive('cannot locate admin::handle_admin')
    ip = chk.interp(prog, 'O8-show-servers')
    base = list(ip.overrides)
    spec = [dict(sid=0x3c, pool='db0', user='u0', app='app0', base=100), dict(sid=0x4d, pool='db1', user='u1', app='app1', base=200)]

    def harness(ip_):
        ip_.overrides[:] = base
        smap = MapV('hashmap')
        sts = []
        names = prog.src.structs['ServerStats']
        for i, s in enumerate(spec):
            st = ip_.fresh(64, 'sstate%d' % i)
            ip_.assume(z3.ULE(st.v, 3))
            sts.append(st)
            a = mk_addr(ip_, prog, i, 1)
            setf(prog, a, 'Address', 'pool_name', rstring(s['pool']))
            setf(prog, a, 'Address', 'username', rstring(s['user']))
            vals = {'server_id': BV(32, s['sid']), 'address': a, 'connect_time': Agg([BV(64, 0)], 'Instant'), 'reporter': Opaque('Reporter', 'reporter'),
                    'application_name': Ptr(Cell(Agg([rstring(s['app'])], 'Lock'), 'appname')), 'state': Ptr(Cell(Opaque('AtomicServerState', 'sstate', st), 'sstate')),
                    'error_count': Ptr(Cell(Agg([BV(64, 0)], 'Atomic'), 'a'))}
            for j, c_ in enumerate(SERVER_COLS):
                vals[c_] = Ptr(Cell(Agg([BV(64, s['base'] + j)], 'Atomic'), 'a'))
            missing = [n for n in names if n not in vals]
            if missing:
                raise Inconclusive('ServerStats fields %r unknown to the harness' % (missing,))
            smap.entries.append([BV(32, s['sid']), Cell(Ptr(Cell(Agg([vals[n] for n in names], 'ServerStats', list(names)), 'ss')), 'v')])
        ip_.overrides[:0] = [(re.compile(r'^(?:stats::|super::)?get_server_stats$'), lambda c: smap),
                             (re.compile(r'^(?:stats::\w+::)?AtomicServerState::load$'), lambda c, p, order: EnumV(p.data if isinstance(p, Opaque) else deref(c.ip, p).data, {}, 'ServerState')),
                             (re.compile(r'Instant::now$'), lambda c: Agg([BV(64, 5)], 'Instant')),
                             (re.compile(r'Instant::duration_since$'), lambda c, a, b: Opaque('Duration', 'd')),
                             (re.compile(r'Duration::as_secs$'), lambda c, d: BV(64, 5))]
        q = b'SHOW SERVERS'
        body = [BV(8, x) for x in b'Q' + (len(q) + 5).to_bytes(4, 'big') + q + b'\0']
        st_ = StreamV([], 'admin_client')
        csm = Ptr(Cell(Agg([MapV('hashmap')], 'Lock'), 'csmap'))
        try:
            ip_.drive(ip_.call_function(ha, [Ptr(Cell(st_, 'stream')), Seq(body, 'bytesmut'), csm]))
        except Panic as p:
            raise Inconclusive('handle_admin panic: ' + p.msg)
        ob.nontrivial += 1
        if any(not b.concrete for b in st_.out):
            raise Inconclusive('SHOW SERVERS reply has symbolic bytes')
        rows = parse_rows(bytes(b.v for b in st_.out))
        states = [next(nm for k_, nm in SSTATE_NAMES.items() if decide(ip_, s_.v == k_)) for s_ in sts]
        # columns: server_id, database_name, user, address_id, application_name, state, transaction_count, query_count, bytes_sent, bytes_received, age_seconds, hit, miss, eviction, size
        want = [['0x%08X' % s['sid'], s['pool'], s['user'], s['app'], states[i]] + [str(s['base'] + j) for j in range(4)] + [str(s['base'] + j) for j in range(4, 8)] for i, s in enumerate(spec)]
        got = [r_[:3] + r_[4:10] + r_[11:15] for r_ in rows]
        if sorted(got) != sorted(want):
            chk.report(ob, 'C18/O8/show-servers', 'SHOW SERVERS lists %r; the registry holds %r (id, pool, user, application, state, transactions, queries, bytes sent, bytes received, cache hits, misses, evictions, size)' % (got, want),
                       {'states': states}, {'commands': [{'op': 'show_servers', 'servers': [dict(s, state=states[i]) for i, s in enumerate(spec)], 'want': want}], 'expect': ['c18_show_servers']})
        if len(ob.samples) < 3:
            ob.samples.append({'states': states, 'rows': got})
    ip.explore(harness)
    chk.absorb(ob, ip)
    chk.end(ob)


@expectation('c18_show_lists')
def c18_show_lists():
    """Native: clients and server connections registered with given states; SHOW LISTS through the real handle_admin."""
    def f(res):
        for r in res:
            if 'error' in r or 'panic' in r:
                return False, 'native: %r' % (r,)
            bad = {k: (r['lists'].get(k), v) for k, v in r.get('want', {}).items() if str(r['lists'].get(k)) != str(v)}
            if bad:
                return True, 'native: SHOW LISTS reports (got, required) %r' % (bad,)
        return False, 'native: %r' % (res,)
    return f


def o9_show_lists(chk, prog):
    """SHOW LISTS: free / used clients and servers are the numbers of registered clients / connections that are idle / active."""
    from checks.c07 import mk_addr
    ob = chk.begin('O9-show-lists', 'admin::handle_admin (real coroutine) on SHOW LISTS over registries of two clients and two server connections with SYMBOLIC states: free_clients / '
                   'used_clients are the numbers of registered clients that are idle / active, free_servers / used_servers those of registered connections that are idle / active', {})
    ha = prog.funcs.get('handle_admin')
    if ha is None:
        raise Inconclusive('cannot locate admin::handle_admin')
    ip = chk.interp(prog, 'O9-show-lists')
    base = list(ip.overrides)

    def harness(ip_):
        ip_.overrides[:] = base
        cmap, smap = MapV('hashmap'), MapV('hashmap')
        csts, ssts = [], []
        for i in range(2):
            st = ip_.fresh(64, 'cstate%d' % i)
            ip_.assume(z3.ULE(st.v, 2))
            csts.append(st)
            cmap.entries.append([BV(32, i), Cell(Ptr(Cell(mk_client_stats(ip_, prog, i, 'db', 'u', st), 'cs')), 'v')])
        names = prog.src.structs['ServerStats']
        for i in range(2):
            st = ip_.fresh(64, 'sstate%d' % i)
            ip_.assume(z3.ULE(st.v, 3))
            ssts.append(st)
            vals = {n: Opaque(n, 'field') for n in names}
            vals['state'] = Ptr(Cell(Opaque('AtomicServerState', 'sstate', st), 'sstate'))
            smap.entries.append([BV(32, i), Cell(Ptr(Cell(Agg([vals[n] for n in names], 'ServerStats', list(names)), 'ss')), 'v')])

        def cload(c, p, order):
            v = deref(c.ip, p)
            return EnumV(v.fields[0].fields[0], {}, 'ClientState')
        ip_.overrides[:0] = [(re.compile(r'^(?:stats::|super::)?get_client_stats$'), lambda c: cmap),
                             (re.compile(r'^(?:stats::|super::)?get_server_stats$'), lambda c: smap),
                             (re.compile(r'^(?:pool::)?get_all_pools$'), lambda c: MapV('hashmap')),
                             (re.compile(r'^(?:stats::\w+::)?AtomicClientState::load$'), cload),
                             (re.compile(r'^(?:stats::\w+::)?AtomicServerState::load$'), lambda c, p, order: EnumV(p.data if isinstance(p, Opaque) else deref(c.ip, p).data, {}, 'ServerState'))]
        q = b'SHOW LISTS'
        body = [BV(8, x) for x in b'Q' + (len(q) + 5).to_bytes(4, 'big') + q + b'\0']
        st_ = StreamV([], 'admin_client')
        csm = Ptr(Cell(Agg([MapV('hashmap')], 'Lock'), 'csmap'))
        try:
            ip_.drive(ip_.call_function(ha, [Ptr(Cell(st_, 'stream')), Seq(body, 'bytesmut'), csm]))
        except Panic as p:
            raise Inconclusive('handle_admin panic: ' + p.msg)
        ob.nontrivial += 1
        if any(not b.concrete for b in st_.out):
            raise Inconclusive('SHOW LISTS reply has symbolic bytes')
        lists = {r_[0]: r_[1] for r_ in parse_rows(bytes(b.v for b in st_.out)) if len(r_) == 2}
        cs = [next(k_ for k_ in (0, 1, 2) if decide(ip_, s_.v == k_)) for s_ in csts]
        ss = [next(k_ for k_ in (0, 1, 2, 3) if decide(ip_, s_.v == k_)) for s_ in ssts]
        want = {'free_clients': cs.count(0), 'used_clients': cs.count(2), 'free_servers': ss.count(3), 'used_servers': ss.count(1)}
        bad = {k: (lists.get(k), v) for k, v in want.items() if lists.get(k) != str(v)}
        if bad:
            chk.report(ob, 'C18/O9/show-lists', 'SHOW LISTS with clients %r and server connections %r reports (got, required) %r' % (
                [STATE_NAMES[x] for x in cs], [SSTATE_NAMES[x] for x in ss], bad), {},
                {'commands': [{'op': 'show_lists', 'clients': [STATE_NAMES[x] for x in cs], 'servers': [SSTATE_NAMES[x] for x in ss], 'want': want}], 'expect': ['c18_show_lists']})
        if len(ob.samples) < 3:
            ob.samples.append({'clients': [STATE_NAMES[x] for x in cs], 'servers': [SSTATE_NAMES[x] for x in ss], 'lists': {k: lists.get(k) for k in want}})
    ip.explore(harness, max_paths=4000)
    chk.absorb(ob, ip)
    chk.end(ob)


def o1_rollup(chk, prog, cpools, spools):
    nclients, nservers = len(cpools), len(spools)
    name = 'O1-rollup-clients%s-servers%s' % (''.join(map(str, cpools)), ''.join(map(str, spools)))
    ob = chk.begin(name, 'PoolStats::construct_pool_lookup (what SHOW POOLS / SHOW LISTS report) over registries holding %d clients and %d server '
                   'connections whose states are SYMBOLIC, spread over two configured pools and an obsolete one (assignment %r / %r): for every pool '
                   'cl_idle + cl_active + cl_waiting equals the number of registered clients of that pool, each counted in exactly the column of its '
                   'state, likewise sv_active + sv_idle + sv_tested + sv_login for server connections; nothing is counted for another pool'
                   % (nclients, nservers, list(cpools), list(spools)), {'clients': nclients, 'servers': nservers, 'pools': 2})
    f = fn(prog, 'PoolStats::construct_pool_lookup')
    ip = chk.interp(prog, name)
    pools = ['dba', 'dbb', 'gone']

    def harness(ip_):
        cmap, smap = MapV('hashmap'), MapV('hashmap')
        cl, sv = [], []
        for i in range(nclients):
            st = ip_.fresh(64, 'cstate%d' % i)
            ip_.assume(z3.ULE(st.v, 2))
            pk = cpools[i]
            cmap.entries.append([BV(32, i), Cell(Ptr(Cell(mk_client_stats(ip_, prog, i, pools[pk], 'u', st), 'cs')), 'v')])
            cl.append((pk, st))
        for i in range(nservers):
            st = ip_.fresh(64, 'sstate%d' % i)
            ip_.assume(z3.ULE(st.v, 3))
            pk = spools[i]
            sv.append((pk, st))
            names = prog.src.structs['ServerStats']
            vals = {n: Opaque(n, 'field') for n in names}
            vals['state'] = Ptr(Cell(Opaque('AtomicServerState', 'sstate', st), 'sstate'))
            vals['address'] = Opaque('Address', 'addr', pools[pk])
            smap.entries.append([BV(32, i), Cell(Ptr(Cell(Agg([vals[n] for n in names], 'ServerStats', list(names)), 'ss')), 'v')])
        allp = MapV('hashmap')
        for pn in pools[:2]:
            cp, _ps = mk_pool(ip_, prog, [[mk_addr(ip_, prog, 0, 0)]], [MapV('hashmap')])
            names = prog.src.structs['PoolIdentifier']
            vals = {'db': rstring(pn), 'user': rstring('u')}
            allp.entries.append([Agg([vals[n] for n in names], 'PoolIdentifier', list(names)), Cell(cp, 'pool')])
        ip_.overrides[:] = [o for o in ip_.overrides if not getattr(o[1], '_c18', False)]

        def ov(rx, h):
            h._c18 = True
            ip_.overrides.insert(0, (re.compile(rx), h))
        ov(r'^(?:stats::|super::)?get_client_stats$', lambda c: cmap)
        ov(r'^(?:stats::|super::)?get_server_stats$', lambda c: smap)
        ov(r'^(?:pool::)?get_all_pools$', lambda c: allp)
        ov(r'^(?:stats::\w+::)?ClientStats::get_current_wait_time_us$', lambda c, p: BV(64, 0))
        # atomic_enum-generated accessors (the macro's code has no source span the loader can map): load = the enum of the stored integer
        def cload(c, p, order):
            v = deref(c.ip, p)
            return EnumV(v.fields[0].fields[0], {}, 'ClientState')
        ov(r'^(?:stats::\w+::)?AtomicClientState::load$', cload)
        ov(r'^(?:stats::\w+::)?AtomicServerState::load$', lambda c, p, order: EnumV(p.data if isinstance(p, Opaque) else deref(c.ip, p).data, {}, 'ServerState'))
        # ServerStats is opaque here: its three accessors
        ov(r'^(?:stats::\w+::)?ServerStats::pool_name$', lambda c, p: rstring(getf(prog, deref(c.ip, p), 'ServerStats', 'address').data))
        ov(r'^(?:stats::\w+::)?ServerStats::username$', lambda c, p: rstring('u'))
        try:
            r = ip_.call_function(f, [])
        except Panic as p:
            chk.report(ob, 'C18/O1/panic', 'construct_pool_lookup panics: ' + p.msg, {}, {'commands': [], 'expect': ['never']})
            return
        ob.nontrivial += 1
        got = {}
        for k, cell in r.entries:
            db = bytes(b.v for b in getf(prog, k, 'PoolIdentifier', 'db').items).decode()
            got[db] = cell.val
        for pi, pn in enumerate(pools[:2]):
            if pn not in got:
                chk.report(ob, 'C18/O1/pool-missing', 'pool %s is not reported' % pn, {}, {'commands': [], 'expect': ['never']})
                continue
            ps = got[pn]
            for col, val in (('cl_idle', 0), ('cl_waiting', 1), ('cl_active', 2)):
                want = z3.Sum([z3.If(st.z() == val, z3.BitVecVal(1, 64), z3.BitVecVal(0, 64)) for pk, st in cl if pk == pi] + [z3.BitVecVal(0, 64)])
                g = getf(prog, ps, 'PoolStats', col)
                if ip_.model_for(g.z() != want) is not None:
                    chk.report(ob, 'C18/O1/%s' % col, 'SHOW POOLS column %s of %s differs from the number of its registered clients in that state' % (col, pn),
                               {}, {'commands': [], 'expect': ['never']})
            for col, val in (('sv_login', 0), ('sv_active', 1), ('sv_tested', 2), ('sv_idle', 3)):
                want = z3.Sum([z3.If(st.z() == val, z3.BitVecVal(1, 64), z3.BitVecVal(0, 64)) for pk, st in sv if pk == pi] + [z3.BitVecVal(0, 64)])
                g = getf(prog, ps, 'PoolStats', col)
                if ip_.model_for(g.z() != want) is not None:
                    chk.report(ob, 'C18/O1/%s' % col, 'SHOW POOLS column %s of %s differs from the number of its server connections in that state' % (col, pn),
                               {}, {'commands': [], 'expect': ['never']})
        if len(ob.samples) < 1:
            ob.samples.append({'pools_reported': sorted(got)})
    ip.explore(harness, max_paths=20000)
    chk.absorb(ob, ip)
    chk.end(ob)


@expectation('never')
def never():
    return lambda res: (False, 'no native replay is defined for the roll-up obligation (a counterexample is reported as inconclusive)')


def main(chk):
    chk.explanation = (
        'Solver-based checking of the parts of C18 that are functions of one session or of the registries. (H) The real Client::handle '
        'coroutine is executed from MIR with every ClientStats / ServerStats call recorded: whenever the session starts reading the client\'s '
        'next message its reported state is `active` iff it holds a server and `idle` otherwise; once the session is over -- Ok, error return '
        '(client_entrypoint\'s disconnect), or panic (Client::drop) -- the client has been removed from the statistics; its query total grew by '
        'the number of requests executed on the servers for it and its transaction total by the number of transactions completed (a Sync the '
        'pooler answers itself may or may not be counted). (O1) PoolStats::construct_pool_lookup over registries with symbolic states. '
        '(O3) a CancelRequest connection -- the real Client::cancel, handle in cancel mode, the drop -- makes no statistics call on the entry of the process id it names. '
        '(O4) bb8\'s connect hook, ServerPool::connect from MIR with Server::startup succeeding or failing: the connection is registered once and handed to bb8 in state idle; '
        'a failed connect leaves nothing registered. (O5) SHOW CLIENTS as the admin console renders it (admin::handle_admin from MIR over a registry of two clients with symbolic states): one row per '
        'registered client with its own id, pool, user, application, its state in words and its own totals in the columns named so. (O6) SHOW POOLS rows: the column named after a counter carries that counter (PoolStats::generate_header / generate_row from MIR). (O7) <Server as Drop>::drop from MIR with symbolic flags: the entry is removed exactly once whenever the connection object goes away. (O8) SHOW SERVERS as rendered (handle_admin from MIR, two connections with symbolic states): one row per registered connection, its state in words, its counters in the columns named so. (O9) SHOW LISTS: free / used clients and servers are the numbers of registered clients / connections that are idle / active. NOT decided: the rendering of SHOW STATS / DATABASES, consistency of the global registries under concurrent tasks, '
        'bytes/error totals, and that totals never decrease across pool reloads.')
    chk.assumptions += [
        'one session at a time; the registries themselves (RwLock<HashMap>) and their concurrent readers are not encoded',
        'in the handle harness servers are pre-connected; their registration is decided by O4 (connect hook), their removal by O7 (Server::drop)',
    ]
    prog = chk.program('on')
    tasks = [(prog, (0, 1, 2), (0, 1)), (prog, (0, 0, 1), (1, 2)), (prog, (0, 0, 0), (0, 0))]
    if chk.thorough:
        tasks += [(prog, (0, 1, 1, 0), (0, 1, 1)), (prog, (2, 2, 0), (2,))]
    chk.parallel(o1_rollup, tasks)
    try:
        o4_connect(chk, prog)
    except Inconclusive as e:
        chk.note_inconclusive('O4-connect: %s' % e)
    try:
        o5_show_clients(chk, prog)
    except Inconclusive as e:
        chk.note_inconclusive('O5-show-clients: %s' % e)
    try:
        o6_pool_row(chk, prog)
    except Inconclusive as e:
        chk.note_inconclusive('O6-pool-row: %s' % e)
    try:
        o7_server_drop(chk, prog)
    except Inconclusive as e:
        chk.note_inconclusive('O7-server-drop: %s' % e)
    try:
        o8_show_servers(chk, prog)
    except Inconclusive as e:
        chk.note_inconclusive('O8-show-servers: %s' % e)
    try:
        o9_show_lists(chk, prog)
    except Inconclusive as e:
        chk.note_inconclusive('O9-show-lists: %s' % e)
    try:
        o3_cancel_conn(chk, prog)
    except Inconclusive as e:
        chk.note_inconclusive('O3-cancel-connection: %s' % e)
    hobl.handle_obligations(chk, prog, {'C18'}, ['simple', 'session', 'extended', 'named', 'malformed', 'cuts', 'status', 'copy', 'two-clients', 'timeouts', 'shutdown', 'drops', 'checkout-failures'])


if __name__ == '__main__':
    run_check('C18', main)
