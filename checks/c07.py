#!/usr/bin/env python3-vt
"""C07 -- broken replicas are banned and bypassed; service continues on healthy servers (ban list + failover loop)."""
import os, sys, itertools, re
sys.path.insert(0, os.path.dirname(os.path.dirname(os.path.abspath(__file__))))
import z3
from harness.common import run_check, expectation
from checks.serverfam import *
from native import oracle

REASONS = ['FailedHealthCheck', 'MessageSendFailed', 'MessageReceiveFailed', 'FailedCheckout', 'StatementTimeout', 'AdminBan']
ROLE_P, ROLE_R = 0, 1


def mk_pool(ip, prog, addresses, banlists, ban_time=None, databases=None, settings_over=None):
    """ConnectionPool with the given per-shard address lists and ban maps."""
    ps = ip.call_function(prog.lookup('<PoolSettings as Default>::default')[0], [])
    if ban_time is not None:
        setf(prog, ps, 'PoolSettings', 'ban_time', ban_time)
    for k, v in (settings_over or {}).items():
        setf(prog, ps, 'PoolSettings', k, v)
    return mk_struct(prog, 'ConnectionPool',
                     databases=Ptr(Cell(Seq(databases if databases is not None else [Seq([], 'vec') for _ in addresses], 'vec'), 'databases')),
                     addresses=Ptr(Cell(Seq([Seq(list(a), 'vec') for a in addresses], 'vec'), 'addresses')),
                     banlist=Ptr(Cell(Agg([Seq(list(banlists), 'vec')], 'Lock'), 'banlist')),
                     config_hash=BV(64, 0),
                     original_server_parameters=Ptr(Cell(Agg([mk_server_params(prog)], 'Lock'), 'osp')),
                     auth_hash=Ptr(Cell(Agg([none(ip)], 'Lock'), 'auth_hash')),
                     settings=Ptr(Cell(ps, 'settings')),
                     validated=Ptr(Cell(Agg([BV(1, 1)], 'Atomic'), 'validated')),
                     paused=Ptr(Cell(Agg([BV(1, 0)], 'Atomic'), 'paused')),
                     paused_waiter=Ptr(Cell(Opaque('Notify', 'notify'), 'notify')),
                     prepared_statement_cache=none(ip)), ps


def mk_addr(ip, prog, idx, role, shard=0):
    a = mk_address(prog, role=EnumV(role if isinstance(role, BV) else BV(64, role), {}, 'Role'), shard=shard, host='h%d' % idx)
    setf(prog, a, 'Address', 'id', BV(64, idx))
    setf(prog, a, 'Address', 'address_index', BV(64, idx))
    setf(prog, a, 'Address', 'replica_number', BV(64, idx))
    return a


def ban_entry(ip, prog, addr, i):
    rk = ip.fresh(64, 'reason%d' % i)
    ip.assume(z3.ULE(rk.v, 5))
    dur = ip.fresh(64, 'admin_dur%d' % i)
    ts = ip.fresh(64, 'ban_ts%d' % i)
    ip.assume(z3.And(ts.v >= 0, z3.ULT(ts.v, 1 << 40)))
    ip.assume(z3.And(dur.v >= 0, z3.ULT(dur.v, 1 << 40)))
    reason = EnumV(rk, {'AdminBan': [dur]}, 'BanReason')
    return [clone_addr(addr), Cell(Agg([reason, Agg([ts], 'NaiveDateTime')], 'tuple'), 'ban')], (rk, dur, ts)


def clone_addr(a):
    return Agg(list(a.fields), a.ty, a.names)


def role_of(ip, prog, a):
    r = getf(prog, a, 'Address', 'role').discr
    if r.concrete:
        return r.v
    for k in (0, 1, 2):
        if decide(ip, r.v == k):
            return k


def banned_ids(prog, m):
    return sorted(getf(prog, e[0], 'Address', 'id').v for e in m.entries)


@expectation('c07_pool')
def c07_pool(expected):
    def f(res):
        r = res[0]
        if 'panic' in r or 'error' in r:
            return ('panic' in r), 'native: %r' % (r,)
        d = []
        for k, v in expected.items():
            if r.get(k) != v:
                d.append('%s: native %r, required %r' % (k, r.get(k), v))
        return bool(d), '; '.join(d) or 'agrees'
    return f


# ------------------------------------------------------------------------------------------------ O1 ban
def o1_ban(chk, prog):
    ob = chk.begin('O1-ban', 'ConnectionPool::ban(address, reason): role and reason symbolic, ban list empty or already holding the address: the '
                   'primary never enters the ban list, a replica enters it, the error counter moves only for the four failure reasons', {})
    ban = fn(prog, 'ConnectionPool::ban')
    ip = chk.interp(prog, 'O1-ban')
    install_stats_noops(ip)

    def harness(ip_):
        role = ip_.fresh(64, 'role')
        ip_.assume(z3.ULE(role.v, 1))
        a = mk_addr(ip_, prog, 0, role)
        other = mk_addr(ip_, prog, 1, ROLE_R)
        pool, ps = mk_pool(ip_, prog, [[a, other]], [MapV('hashmap')])
        rk = ip_.fresh(64, 'reason')
        ip_.assume(z3.ULE(rk.v, 5))
        reason = EnumV(rk, {'AdminBan': [BV(64, 60)]}, 'BanReason')
        ec = getf(prog, a, 'Address', 'error_count')
        ip_.call_function(ban, [Ptr(Cell(pool, 'pool')), Ptr(Cell(a, 'addr')), reason, none(ip_)])
        ob.nontrivial += 1
        r = role_of(ip_, prog, a)
        bl = deref(ip_, getf(prog, pool, 'ConnectionPool', 'banlist')).fields[0].items[0]
        ids = banned_ids(prog, bl)
        want = [0] if r == ROLE_R else []
        rki = [k for k in range(6) if decide(ip_, rk.v == k)][0]
        cnt = ip_.load(ec.cell, ec.path).fields[0]
        want_cnt = 1 if rki in (0, 1, 2, 3) else 0
        if ids != want or cnt.v != want_cnt:
            chk.report(ob, 'C07/O1/ban', 'ban(%s, %s): banned ids %r (required %r), error count %d (required %d)'
                       % ('primary' if r == 0 else 'replica', REASONS[rki], ids, want, cnt.v, want_cnt), {'role': r, 'reason': REASONS[rki]},
                       {'commands': [{'op': 'pool_ban', 'roles': ['primary' if r == 0 else 'replica', 'replica'], 'ban': 0, 'reason': REASONS[rki]}],
                        'expect': ['c07_pool', {'banned': want, 'error_count': want_cnt}]})
        if len(ob.samples) < 2:
            ob.samples.append({'role': r, 'reason': REASONS[rki], 'banned': ids})
    ip.explore(harness)
    chk.absorb(ob, ip)
    chk.end(ob)


# ------------------------------------------------------------------------------------------------ O2 try_unban
def o2_try_unban(chk, prog, roles, banned, target, prop='C07'):
    name = 'O2-try_unban-%s-banned%s-target%d' % (''.join('PR'[r] for r in roles), ''.join(map(str, banned)) or 'none', target)
    ob = chk.begin(name, 'ConnectionPool::try_unban(server %d) in a shard with roles %s and servers %r banned (ban reasons, timestamps, admin '
                   'durations, ban_time and the clock symbolic): primary -> usable; all replicas banned -> every ban lifted; ban expired -> '
                   'this ban lifted; otherwise still banned and the list unchanged' % (target, ''.join('PR'[r] for r in roles), banned),
                   {'roles': ['primary' if r == 0 else 'replica' for r in roles], 'banned': list(banned), 'target': target})
    tu = fn(prog, 'ConnectionPool::try_unban')
    ip = chk.interp(prog, name)
    install_stats_noops(ip)

    def harness(ip_):
        addrs = [mk_addr(ip_, prog, i, r) for i, r in enumerate(roles)]
        m = MapV('hashmap')
        meta = {}
        for i in banned:
            e, mt = ban_entry(ip_, prog, addrs[i], i)
            m.entries.append(e)
            meta[i] = mt
        bt = ip_.fresh(64, 'ban_time')
        ip_.assume(z3.And(bt.v >= 0, z3.ULT(bt.v, 1 << 40)))
        pool, ps = mk_pool(ip_, prog, [addrs], [m], ban_time=bt)
        r = ip_.drive(ip_.call_function(tu, [Ptr(Cell(pool, 'pool')), Ptr(Cell(addrs[target], 'addr'))]))
        ob.nontrivial += 1
        res = flag_val(ip_, r)
        ids = banned_ids(prog, m)
        nrep = sum(1 for x in roles if x == ROLE_R)
        now = ip_.env.get('last_utc_secs')
        # reference
        if roles[target] == ROLE_P:
            want_res, want_ids = True, sorted(banned)
        elif len(banned) == nrep:
            want_res, want_ids = True, []
        elif target not in banned:
            want_res, want_ids = True, sorted(banned)
        else:
            rk, dur, ts = meta[target]
            if now is None:
                raise Inconclusive('try_unban did not read the clock on the expiry path')
            limit = z3.If(rk.z() == 5, dur.z(), bt.z())
            expired = decide(ip_, (now.z() - ts.z()) > limit)
            want_res = expired
            want_ids = sorted(x for x in banned if not (expired and x == target))
        if res != want_res or ids != want_ids:
            mm = ip_.model_for()

            def evs(x):
                v = mm.eval(x.z(), True).as_long()
                return v - (1 << 64) if v >> 63 else v
            bj = [{'idx': i, 'reason': REASONS[mm.eval(meta[i][0].z(), True).as_long()], 'duration': evs(meta[i][1]),
                   'age': (evs(now) - evs(meta[i][2])) if now is not None else 0} for i in banned]
            chk.report(ob, prop + '/O2/try_unban/%s' % ('primary' if roles[target] == 0 else ('all-banned' if len(banned) == nrep else 'expiry')),
                       'try_unban returns %s with bans %r afterwards; required %s with %r (roles %s, banned %r, target %d)'
                       % (res, ids, want_res, want_ids, ''.join('PR'[x] for x in roles), banned, target),
                       {'roles': roles, 'bans': bj, 'ban_time': evs(bt), 'target': target},
                       {'commands': [{'op': 'pool_try_unban', 'roles': ['primary' if x == 0 else 'replica' for x in roles], 'bans': bj,
                                      'ban_time': evs(bt), 'target': target}],
                        'expect': ['c07_pool', {'result': want_res, 'banned': want_ids}]})
        if len(ob.samples) < 2:
            ob.samples.append({'result': res, 'banned_after': ids})
    ip.explore(harness)
    chk.absorb(ob, ip)
    chk.end(ob)


# ------------------------------------------------------------------------------------------------ O3 failover loop
def o3_get(chk, prog, roles, banned, only=None, props=('C07',)):
    name = 'O3-get-%s-banned%s' % (''.join('PR'[r] for r in roles), ''.join(map(str, banned)) or 'none')
    ob = chk.begin(name, 'ConnectionPool::get on a shard with servers %s, servers %r freshly banned; requested role, candidate order (shuffle), '
                   'checkout outcome, idle time, health-check answer / failure / timeout all chosen by the solver: a returned server has the '
                   'requested role, was not skipped as banned, checked out and passed its health check; every server that failed a checkout or '
                   'health check is banned if it is a replica (never the primary) and a failed health check leaves the connection bad; '
                   'AllServersDown only if every candidate was banned or failed; the health check runs under healthcheck_timeout'
                   % (''.join('PR'[r] for r in roles), banned), {'roles': ['primary' if r == 0 else 'replica' for r in roles], 'banned': list(banned)})
    get = fn(prog, 'ConnectionPool::get')
    ip = chk.interp(prog, name)
    install_stats_noops(ip)
    HC_TIMEOUT, HC_DELAY = 1234, 56789

    def bb8_get(c, poolp):
        p = deref(c.ip, poolp)
        return Opaque('IoFuture', 'bb8get', p)
    ip.overrides.append((re.compile(r'^bb8::Pool::<.*>::get$'), bb8_get))

    def conn_deref(c, p):
        v = deref(c.ip, p)
        return v.fields[0]
    ip.overrides.append((re.compile(r'^<(?:bb8::)?PooledConnection<.*> as (?:std::ops::)?(?:Deref|DerefMut)>::(deref|deref_mut)$'), conn_deref))

    def poll_hook(ip_, co, ptr):
        if isinstance(co, Opaque) and co.tag == 'bb8get':
            info = co.data.data
            ip_.env.setdefault('consulted', []).append(info['idx'])
            ip_.env.setdefault('events', []).append(('consult', info['idx']))
            if ip_.choose(2, 'checkout_fails') == 1:
                info['checkout'] = 'fail'
                return EnumV(BV(64, 0), {'Ready': [EnumV(BV(64, 1), {'Err': [Opaque('RunError', 'checkout')]}, 'Result')]}, 'Poll')
            info['checkout'] = 'ok'
            conn = Agg([Ptr(info['server_cell'], ())], 'PooledConnection')
            return EnumV(BV(64, 0), {'Ready': [EnumV(BV(64, 0), {'Ok': [conn]}, 'Result')]}, 'Poll')
        raise Inconclusive('poll of %r' % (co,))
    ip.poll_hook = poll_hook

    def harness(ip_):
        addrs = [mk_addr(ip_, prog, i, r) for i, r in enumerate(roles)]
        infos = []
        pools = []
        for i in range(len(roles)):
            # health-check conversation: server answers ';' with EmptyQueryResponse + ReadyForQuery, or the stream ends (failure)
            hc_ok = ip_.choose(2, 'hc_stream_%d' % i) == 0
            reply = [BV(8, x) for x in (b'I\x00\x00\x00\x04Z\x00\x00\x00\x05I' if hc_ok else b'')]
            st = StreamV(reply, 'server%d' % i)
            la = ip_.fresh(64, 'last_activity%d' % i)
            ip_.assume(z3.ULT(la.v, 1 << 50))
            srv = mk_server(ip_, prog, st, address=clone_addr(addrs[i]), last_activity=Agg([la], 'SystemTime'))
            cell = Cell(srv, 'server%d' % i)
            info = {'idx': i, 'server_cell': cell, 'hc_stream_ok': hc_ok, 'stream': st, 'checkout': None}
            infos.append(info)
            pools.append(Opaque('Bb8Pool', 'pool%d' % i, info))
        m = MapV('hashmap')
        for i in banned:
            e, mt = ban_entry(ip_, prog, addrs[i], i)
            # fresh bans: not expired (ban_time 60 s, age < 60 enforced through the clock below)
            ip_.assume(mt[0].v != 5)
            m.entries.append(e)
        pool, ps = mk_pool(ip_, prog, [addrs], [m], ban_time=BV(64, 1 << 62), databases=[Seq(pools, 'vec')],
                           settings_over={'healthcheck_timeout': BV(64, HC_TIMEOUT), 'healthcheck_delay': BV(64, HC_DELAY)})
        want_role = sym_option(ip_, sym_enum(ip_, 'Role', 'want_role', ('Primary', 'Replica')), 'want_role')
        stats = Opaque('ClientStats', 'client_stats')
        try:
            r = ip_.drive(ip_.call_function(get, [Ptr(Cell(pool, 'pool')), none(ip_), want_role, Ptr(Cell(stats, 'cstats'))]))
        except Panic as p:
            if 'elapsed' in p.msg or 'unwrap' in p.msg.lower():
                return          # last_activity in the future (clock skew): outside the claim
            raise Inconclusive('ConnectionPool::get panic: ' + p.msg)
        ob.nontrivial += 1
        res = variant(ip_, r, 'Result')
        # requested role on this path
        if decide(ip_, want_role.discr.v == 0):
            wr = None
        else:
            wr = 0 if decide(ip_, want_role.variants['Some'][0].discr.v == 0) else 1
        cands = [i for i, x in enumerate(roles) if wr is None or x == wr]
        nrep = sum(1 for x in roles if x == ROLE_R)
        consulted = ip_.env.get('consulted', [])
        bl_after = banned_ids(prog, m)
        timeouts = ip_.env.get('timeouts', [])
        problems = []
        for d in timeouts:
            dv = deref(ip_, d) if isinstance(d, Ptr) else d
            ns = dv.fields[0]
            if not (ns.concrete and ns.v == HC_TIMEOUT * 10 ** 6):
                problems.append(('healthcheck-timeout', 'the health check runs under a timeout of %s ns, healthcheck_timeout is %d ms' % (ns.v if ns.concrete else ns, HC_TIMEOUT)))
        # the order in which the candidates were considered: the shuffled list is consumed from its end
        sh = ip_.env.get('shuffles', [[]])[0]
        order = [getf(prog, deref(ip_, a_), 'Address', 'id').v for a_ in reversed(sh)]
        if sorted(order) != sorted(cands):
            problems.append(('candidate-set', 'candidates considered %r, servers of the requested role %r' % (sorted(order), cands)))
        # per-server outcomes observed on this path
        hc_result = {}
        evs = ip_.env.get('events', [])
        for k_, e in enumerate(evs):
            if e[0] == 'consult' and k_ + 1 < len(evs) and evs[k_ + 1][0].startswith('timeout'):
                hc_result[e[1]] = (evs[k_ + 1][0] == 'timeout_inner_done') and infos[e[1]]['hc_stream_ok']
        # ---- reference failover loop
        banset = set(banned)
        ref_consulted = []
        ref_result = None
        for i in order:
            forced = False
            if i in banset:
                if roles[i] == ROLE_P:
                    forced = True
                elif len(banset) == nrep:
                    banset.clear()
                    forced = True
                else:
                    continue            # fresh ban, other candidates remain
            ref_consulted.append(i)
            info = infos[i]
            if info['checkout'] == 'fail' or info['checkout'] is None:
                if roles[i] == ROLE_R:
                    banset.add(i)
                continue
            if i in hc_result:
                if hc_result[i]:
                    ref_result = i
                    break
                if roles[i] == ROLE_R:
                    banset.add(i)
                if not flag_val(ip_, sfield(prog, info['server_cell'].val, 'bad')):
                    problems.append(('failed-healthcheck-not-bad', 'server %d failed its health check but its connection is not marked bad' % i))
                continue
            if forced:
                problems.append(('no-healthcheck-after-unban', 'server %d is used right after its ban was lifted without a health check' % i))
            ref_result = i
            break
        got = None
        if res == 'Ok':
            got = getf(prog, payload(r, 'Ok')[0].fields[1], 'Address', 'id').v
        if consulted != ref_consulted:
            problems.append(('servers-tried', 'servers tried %r, required %r (considered in order %r)' % (consulted, ref_consulted, order)))
        elif got != ref_result:
            problems.append(('result', 'returns %s, required %s' % ('server %d' % got if got is not None else 'AllServersDown',
                                                                     'server %d' % ref_result if ref_result is not None else 'AllServersDown')))
        if bl_after != sorted(banset):
            problems.append(('banlist', 'ban list afterwards %r, required %r' % (bl_after, sorted(banset))))
        if problems:
            behaviours = []
            for i in range(len(roles)):
                info = infos[i]
                if info['checkout'] == 'fail':
                    behaviours.append('refuse')
                elif i in hc_result and not hc_result[i]:
                    behaviours.append('close_query' if not info['hc_stream_ok'] else 'hang_query')
                else:
                    behaviours.append('ok')
            scen = {'op': 'pool_get_scenario', 'servers': [{'role': 'primary' if roles[i] == 0 else 'replica', 'behaviour': behaviours[i]} for i in range(len(roles))],
                    'banned': list(banned), 'requested': {None: None, 0: 'primary', 1: 'replica'}[wr], 'healthcheck_timeout': 300, 'healthcheck_delay': 0, 'runs': 6}
        for k, what in problems:
            if only is not None and k not in only:
                continue
            if k == 'failed-healthcheck-not-bad':
                # natively: the server answers its health check AFTER the deadline; the connection that late reply arrives on must not be handed
                # out again (whoever got it would read the health check's reply as the answer to its own statement: C01)
                late = [b if b != 'hang_query' else 'late_query' for b in behaviours]
                scen2 = dict(scen, servers=[{'role': 'primary' if roles[i] == 0 else 'replica', 'behaviour': late[i]} for i in range(len(roles))], followup=True, runs=3)
                for prop_ in props:
                    chk.report(ob, '%s/O3/%s' % (prop_, k), 'ConnectionPool::get (roles %s, banned %r, requested %s, consulted %r): %s -- bb8 will hand it out again, one reply behind'
                               % (''.join('PR'[x] for x in roles), banned, {None: 'any', 0: 'primary', 1: 'replica'}[wr], consulted, what),
                               {'roles': roles, 'banned': banned, 'requested': wr, 'consulted': consulted, 'behaviours': late},
                               {'commands': [scen2], 'expect': ['c07_stale']})
                continue
            chk.report(ob, 'C07/O3/' + k, 'ConnectionPool::get (roles %s, banned %r, requested %s, consulted %r): %s'
                       % (''.join('PR'[x] for x in roles), banned, {None: 'any', 0: 'primary', 1: 'replica'}[wr], consulted, what),
                       {'roles': roles, 'banned': banned, 'requested': wr, 'consulted': consulted, 'behaviours': behaviours},
                       {'commands': [scen], 'expect': ['c07_get', list(roles), behaviours, list(banned), wr, 300]})
        if len(ob.samples) < 3:
            ob.samples.append({'requested': wr, 'consulted': consulted, 'result': res, 'banned_after': bl_after})
    ip.explore(harness, max_paths=60000)
    chk.absorb(ob, ip)
    chk.end(ob)


def allowed_outcomes(roles, behaviours, banned, requested):
    """Reference failover loop over every order in which the candidates may be considered (health check always required,
    as in the native scenario).  Returns the set of permitted (result, ban list) outcomes."""
    cands = [i for i, r in enumerate(roles) if requested is None or r == requested]
    nrep = sum(1 for r in roles if r == ROLE_R)
    outs = set()
    for perm in itertools.permutations(cands):
        banset = set(banned)
        res = None
        for i in perm:
            if i in banset:
                if roles[i] == ROLE_P:
                    pass
                elif len(banset) == nrep:
                    banset.clear()
                else:
                    continue
            if behaviours[i] != 'ok':
                if roles[i] == ROLE_R:
                    banset.add(i)
                continue
            res = i
            break
        outs.add((res, tuple(sorted(banset))))
    return outs


@expectation('c07_hosts')
def c07_hosts(want):
    def f(res):
        r = res[0]
        if 'panic' in r or 'error' in r:
            return ('panic' in r), 'native: %r' % (r,)
        return (sorted(r.get('ids', [])) != sorted(want), 'native get_addresses_from_host returns servers %r, servers on that host: %r' % (sorted(r.get('ids', [])), sorted(want)))
    return f


def o4_host_lookup(chk, prog, layout):
    """What admin BAN <host> / UNBAN <host> act on: ConnectionPool::get_addresses_from_host.  layout: per shard a list of one-letter host names."""
    name = 'O4-host-lookup-%s' % '_'.join(''.join(s) for s in layout)
    ob = chk.begin(name, 'ConnectionPool::get_addresses_from_host (what the admin commands BAN <host> / UNBAN <host> act on) on shards whose servers are on hosts %r, '
                   'for each host name and one that is not configured: the result is exactly the servers on that host, in every shard' % (layout,), {'hosts': [list(s) for s in layout]})
    f_ = fn(prog, 'ConnectionPool::get_addresses_from_host')
    ip = chk.interp(prog, name)
    hosts = sorted({h for s in layout for h in s}) + ['zz']

    def harness(ip_):
        addrs, idx = [], 0
        want_all = {}
        for si, s in enumerate(layout):
            row = []
            for h in s:
                a = mk_addr(ip_, prog, idx, 1 if idx else 0, shard=si)
                setf(prog, a, 'Address', 'host', rstring('host-' + h))
                want_all.setdefault(h, []).append(idx)
                row.append(a)
                idx += 1
            addrs.append(row)
        pool, _ps = mk_pool(ip_, prog, addrs, [MapV('hashmap') for _ in layout], settings_over={'shards': BV(64, len(layout))})
        h = hosts[ip_.choose(len(hosts), 'which_host')]
        r = ip_.call_function(f_, [Ptr(Cell(pool, 'pool')), Ptr(Cell(Seq([BV(8, b) for b in ('host-' + h).encode()], 'str'), 'h'))])
        ob.nontrivial += 1
        got = sorted(getf(prog, a, 'Address', 'id').v for a in items(ip_, r))
        want = sorted(want_all.get(h, []))
        if got != want:
            chk.report(ob, 'C07/O4/host-lookup', 'BAN / UNBAN host-%s would act on servers %r; the servers on that host are %r' % (h, got, want), {'layout': [list(s) for s in layout]},
                       {'commands': [{'op': 'host_lookup', 'layout': [list(s) for s in layout], 'host': h}], 'expect': ['c07_hosts', want]})
        if len(ob.samples) < 2:
            ob.samples.append({'host': h, 'servers': got})
    ip.explore(harness)
    chk.absorb(ob, ip)
    chk.end(ob)


@expectation('c07_stale')
def c07_stale():
    def f(res):
        r = res[0]
        if 'panic' in r or 'error' in r:
            return ('panic' in r), 'native: %r' % (r,)
        st = [x for run in r['runs'] for x in run.get('stale', [])]
        return bool(st), ('native: after a health check that was answered late, the same connection was handed out again and the next statement got the health check\'s reply: %r' % st[:2]
                          if st else 'native: no connection with a late health-check reply was handed out again')
    return f


@expectation('c07_get')
def c07_get(roles, behaviours, banned, requested, hc_timeout):
    """End-to-end replay: real ConnectionPool::get over bb8 pools against scripted backends (refusing / hanging / closing /
    healthy), several runs (the candidate order is random); reproduced iff some run's outcome is not permitted by the
    reference failover loop, or a hung server holds the client far longer than healthcheck_timeout."""
    def f(res):
        r = res[0]
        if 'panic' in r or 'error' in r:
            return ('panic' in r), 'native: %r' % (r,)
        ok_set = allowed_outcomes(roles, behaviours, banned, requested)
        bad = []
        nh = sum(1 for b in behaviours if b == 'hang_query')
        nr = sum(1 for b in behaviours if b == 'refuse')
        for run in r['runs']:
            out = (run['result'] if isinstance(run['result'], int) else None, tuple(run['banned']))
            if out not in ok_set:
                bad.append('native outcome %r not among the permitted %r' % (out, sorted(ok_set, key=str)))
            if run['elapsed_ms'] > nh * hc_timeout * 3 + nr * 1500 + 1500:
                bad.append('checkout took %d ms with healthcheck_timeout %d ms' % (run['elapsed_ms'], hc_timeout))
        return bool(bad), '; '.join(sorted(set(bad))[:3]) or 'native outcomes %r all permitted' % [(x['result'], x['banned']) for x in r['runs']]
    return f


@expectation('c07_get_shard')
def c07_get_shard():
    """Native: a two-shard pool (shard 0: primary + replica, shard 1: primary only) of real bb8 pools against scripted servers: whatever shard and
    role are asked for, the server handed out belongs to that shard."""
    def f(res):
        for r in res:
            if 'error' in r or 'panic' in r:
                return False, 'native: %r' % (r,)
            bad = [x for x in r.get('gets', []) if x.get('got_shard') is not None and (x['got_shard'] != x['shard'] or (x.get('role') and x.get('got_role') != x['role']))]
            bad = bad[:3]
            if bad:
                return True, 'native: ConnectionPool::get(shard, role) handed out a server of another shard or role: %r' % (bad,)
        return False, 'native: every server handed out belongs to the requested shard: %r' % (res,)
    return f


def o5_get_shard(chk, prog, props=('C07',), only=None):
    """ConnectionPool::get never leaves the requested shard -- whatever the role asked for and whether the shard has such a server."""
    name = 'O5-get-shard'
    ob = chk.begin(name, 'ConnectionPool::get on a pool of two shards (shard 0: primary + replica, shard 1: a primary only), requested shard (none / 0 / 1) and role '
                   '(none / primary / replica) chosen by the solver, every checkout succeeding: a server that is handed out belongs to the requested shard (none = shard 0) '
                   'and has the requested role; every candidate considered belongs to that shard', {'shards': [['primary', 'replica'], ['primary']]})
    get = fn(prog, 'ConnectionPool::get')
    ip = chk.interp(prog, name)
    install_stats_noops(ip)
    ip.overrides.append((re.compile(r'^bb8::Pool::<.*>::get$'), lambda c, poolp: Opaque('IoFuture', 'bb8get', deref(c.ip, poolp))))
    ip.overrides.append((re.compile(r'^<(?:bb8::)?PooledConnection<.*> as (?:std::ops::)?(?:Deref|DerefMut)>::(deref|deref_mut)$'), lambda c, p: deref(c.ip, p).fields[0]))

    def poll_hook(ip_, co, ptr):
        if isinstance(co, Opaque) and co.tag == 'bb8get':
            info = co.data.data
            ip_.env.setdefault('consulted', []).append(info['idx'])
            return EnumV(BV(64, 0), {'Ready': [EnumV(BV(64, 0), {'Ok': [Agg([Ptr(info['server_cell'], ())], 'PooledConnection')]}, 'Result')]}, 'Poll')
        raise Inconclusive('poll of %r' % (co,))
    ip.poll_hook = poll_hook

    def harness(ip_):
        layout = [(0, ROLE_P, 0), (1, ROLE_R, 0), (2, ROLE_P, 1)]
        addrs, pools = {}, {}
        for idx, role, sh in layout:
            a = mk_addr(ip_, prog, idx, role, shard=sh)
            setf(prog, a, 'Address', 'address_index', BV(64, 0 if idx == 2 else idx))
            st = StreamV([BV(8, x) for x in b'I\x00\x00\x00\x04Z\x00\x00\x00\x05I'], 'server%d' % idx)
            la = ip_.fresh(64, 'last_activity%d' % idx)
            ip_.assume(z3.ULT(la.v, 1 << 50))
            srv = mk_server(ip_, prog, st, address=clone_addr(a), last_activity=Agg([la], 'SystemTime'))
            info = {'idx': idx, 'server_cell': Cell(srv, 'server%d' % idx)}
            addrs[idx] = a
            pools[idx] = Opaque('Bb8Pool', 'pool%d' % idx, info)
        pool, ps = mk_pool(ip_, prog, [[addrs[0], addrs[1]], [addrs[2]]], [MapV('hashmap'), MapV('hashmap')], ban_time=BV(64, 1 << 62),
                           databases=[Seq([pools[0], pools[1]], 'vec'), Seq([pools[2]], 'vec')], settings_over={'healthcheck_timeout': BV(64, 1000), 'healthcheck_delay': BV(64, 1 << 40)})
        setf(prog, ps, 'PoolSettings', 'shards', BV(64, 2))
        # (what the ROUTER may do with a read is none of the pool's business: the role it is asked for is the role it hands out)
        setf(prog, ps, 'PoolSettings', 'primary_reads_enabled', ip_.fresh(1, 'primary_reads_enabled'))
        want_role = sym_option(ip_, sym_enum(ip_, 'Role', 'want_role', ('Primary', 'Replica')), 'want_role')
        k = ip_.choose(3, 'want_shard')
        want_shard = none(ip_) if k == 0 else some(ip_, BV(64, k - 1))
        sh_req = 0 if k == 0 else k - 1
        try:
            r = ip_.drive(ip_.call_function(get, [Ptr(Cell(pool, 'pool')), want_shard, want_role, Ptr(Cell(Opaque('ClientStats', 'client_stats'), 'cstats'))]))
        except Panic as p:
            if 'elapsed' in p.msg or 'unwrap' in p.msg.lower():
                return
            raise Inconclusive('ConnectionPool::get panic: ' + p.msg)
        ob.nontrivial += 1
        if decide(ip_, want_role.discr.v == 0):
            wr = None
        else:
            wr = 0 if decide(ip_, want_role.variants['Some'][0].discr.v == 0) else 1
        consulted = ip_.env.get('consulted', [])
        shard_of = {idx: sh for idx, _r, sh in layout}
        role_of = {idx: r_ for idx, r_, _s in layout}
        what, key = None, 'get-leaves-shard'
        stray = [i for i in consulted if shard_of[i] != sh_req]
        if stray:
            what = 'asked for shard %d (role %s), it tries server(s) %r of another shard' % (sh_req, {None: 'any', 0: 'primary', 1: 'replica'}[wr], stray)
        if variant(ip_, r, 'Result') == 'Ok':
            got = getf(prog, payload(r, 'Ok')[0].fields[1], 'Address', 'id').v
            if shard_of[got] != sh_req:
                what = 'asked for shard %d (role %s), it hands out server %d of shard %d: the statement runs on another shard\'s data' % (sh_req, {None: 'any', 0: 'primary', 1: 'replica'}[wr], got, shard_of[got])
            elif wr is not None and role_of[got] != wr and not what:
                key = 'get-wrong-role'
                what = 'asked for a %s of shard %d, it hands out server %d, a %s' % ('primary' if wr == 0 else 'replica', sh_req, got, 'primary' if role_of[got] == 0 else 'replica')
        if what and (only is None or key in only):
            for prop_ in props:
                chk.report(ob, '%s/O5/%s' % (prop_, key), 'ConnectionPool::get: ' + what, {'shard': sh_req, 'role': wr}, {'commands': [{'op': 'get_shard_scenario'}], 'expect': ['c07_get_shard']})
        if len(ob.samples) < 3:
            ob.samples.append({'shard': sh_req, 'role': wr, 'consulted': list(consulted), 'result': variant(ip_, r, 'Result')})
    ip.explore(harness)
    chk.absorb(ob, ip)
    chk.end(ob)


@expectation('c07_admin_ban')
def c07_admin_ban():
    """Native: the real handle_admin on BAN / UNBAN commands over a registered pool (primary h0, replicas h1 h2): which servers are banned afterwards."""
    def f(res):
        for r in res:
            if 'error' in r or 'panic' in r:
                return False, 'native: %r' % (r,)
            if sorted(r.get('banned_after', [])) != sorted(r.get('want', [])):
                return True, 'native: after %r (banned before: %r) the banned servers are %r, required %r' % (r.get('commands'), r.get('before'), r.get('banned_after'), r.get('want'))
            if r.get('duration') is not None:
                new = [x for x in r.get('reasons', []) if int(x.split(':')[0]) not in r.get('before', [])]
                if any(x.split(':', 1)[1] != 'AdminBan(%d)' % r['duration'] for x in new):
                    return True, 'native: after %r the new ban is recorded as %r, required AdminBan(%d)' % (r.get('commands'), new, r['duration'])
        return False, 'native: %r' % (res,)
    return f


ADMIN_BAN_CASES = [
    # (command, banned before, banned after, AdminBan duration expected for newly banned, error reply expected)
    ('BAN h1 30', [], [1], 30, False),
    ('ban h2 7;', [1], [1, 2], 7, False),
    ('BAN h1', [], [], None, True),
    ('BAN h1 abc', [], [], None, True),
    ('BAN h1 0', [], [], None, True),
    ('BAN h1 -5', [], [], None, True),
    ('BAN h0 30', [], [], None, False),          # the primary is never banned
    ('BAN nohost 30', [2], [2], None, False),
    ('UNBAN h1', [1, 2], [2], None, False),
    ('unban h2;', [2], [], None, False),
    ('UNBAN h1', [2], [2], None, False),
    ('UNBAN', [1], [1], None, True),
]


def o6_admin_ban(chk, prog):
    """The admin console's BAN / UNBAN: which servers handle_admin bans and un-bans, and for how long."""
    from checks import fromconfig as FC
    ob = chk.begin('O6-admin-ban', 'admin::handle_admin (real coroutine) on BAN <host> <seconds> / UNBAN <host> (valid, missing or non-numeric or non-positive duration, the primary\'s host, '
                   'an unknown host, several spellings) over a registered pool of a primary and two replicas with a given ban list: exactly the named replica is banned, with '
                   'reason AdminBan(<seconds>); the primary never is; UNBAN lifts exactly the named server\'s ban; a malformed command changes nothing and is answered with an error',
                   {'cases': len(ADMIN_BAN_CASES)})
    ha = prog.funcs.get('handle_admin')
    if ha is None:
        raise Inconclusive('cannot locate admin::handle_admin')
    ip = chk.interp(prog, 'O6-admin-ban')
    install_stats_noops(ip)
    base = list(ip.overrides)

    def harness(ip_):
        ip_.overrides[:] = base
        k = ip_.choose(len(ADMIN_BAN_CASES), 'admin_case')
        cmd, before, after, dur, want_err = ADMIN_BAN_CASES[k]
        addrs = [mk_addr(ip_, prog, i, r) for i, r in enumerate((ROLE_P, ROLE_R, ROLE_R))]
        m = MapV('hashmap')
        for i in before:
            e, mt = ban_entry(ip_, prog, addrs[i], i)
            ip_.assume(mt[0].v != 5)
            m.entries.append(e)
        pool, ps = mk_pool(ip_, prog, [addrs], [m], ban_time=BV(64, 60))
        pm = FC.current_pools(ip_)
        names = prog.src.structs['PoolIdentifier']
        vals = {'db': rstring('db'), 'user': rstring('u')}
        pm.entries.append([Agg([vals[n] for n in names], 'PoolIdentifier', list(names)), Cell(pool, 'pool')])
        st = StreamV([], 'admin_client')
        csm = Ptr(Cell(Agg([MapV('hashmap')], 'Lock'), 'csmap'))
        qb = cmd.encode()
        body = [BV(8, x) for x in b'Q' + (len(qb) + 5).to_bytes(4, 'big') + qb + b'\0']
        try:
            ip_.drive(ip_.call_function(ha, [Ptr(Cell(st, 'stream')), Seq(body, 'bytesmut'), csm]))
        except Panic as p:
            raise Inconclusive('handle_admin panic: ' + p.msg)
        ob.nontrivial += 1
        got = banned_ids(prog, m)
        what = None
        if got != sorted(after):
            what = 'after %r (banned before: %r) the banned servers are %r, required %r' % (cmd, before, got, sorted(after))
        elif dur is not None:
            new = [e for e in m.entries if getf(prog, e[0], 'Address', 'id').v not in before]
            for e in new:
                reason = e[1].val.fields[0]
                okr = isinstance(reason, EnumV) and decide(ip_, reason.discr.v == 5) and 'AdminBan' in reason.variants and \
                    ip_.model_for(reason.variants['AdminBan'][0].z() != dur) is None
                if not okr:
                    what = 'after %r the new ban is recorded as %r, required AdminBan(%d)' % (cmd, reason, dur)
        if what is None:
            out = bytes(b.v for b in st.out if b.concrete)
            if want_err and out[:1] != b'E':
                what = 'the malformed command %r is not answered with an error' % (cmd,)
            elif not want_err and not out.endswith(b'Z\x00\x00\x00\x05I'):
                what = 'the command %r is not answered up to ReadyForQuery' % (cmd,)
        if what:
            chk.report(ob, 'C07/O6/admin-ban', 'admin console: ' + what, {'command': cmd, 'before': before},
                       {'commands': [{'op': 'admin_ban', 'commands': [cmd], 'before': list(before), 'want': list(after), 'duration': dur}], 'expect': ['c07_admin_ban']})
        if len(ob.samples) < 3:
            ob.samples.append({'command': cmd, 'banned_before': list(before), 'banned_after': list(got)})
    ip.explore(harness)
    chk.absorb(ob, ip)
    chk.end(ob)


def _dispatch(chk, f, args):
    f(chk, *args)


def main(chk):
    chk.explanation = (
        'Solver-based checking of the ban-list logic executed from MIR: ConnectionPool::ban and try_unban (with is_banned/unban) on shards '
        'of 0-3 replicas with or without a primary, for every subset of banned servers, with symbolic ban reasons (incl. AdminBan durations), '
        'timestamps, ban_time and clock readings, against the rules stated in the property. (O3) ConnectionPool::get with solver-chosen checkout / health-check outcomes: '
        'who gets banned, who gets tried next, and that a connection whose health check failed is never handed out. (O4) the banned-host lookup used by the admin BAN/UNBAN '
        'commands. (H, failover family) Client::handle on pools with replicas that fail or time out: the failing replica is banned, the primary never is, the next request '
        'avoids it. (O2-rebuild) a pool re-created by a reload has a ban list of its own, one empty slot per shard of the new definition -- bans are keyed by the addresses '
        'of the pool that issued them. (O5) ConnectionPool::get on two shards never leaves the requested shard or role. (O6) THE ADMIN CONSOLE: admin::handle_admin from MIR on BAN <host> <seconds> / UNBAN <host> '
        '(valid, malformed, the primary\'s host, unknown hosts): exactly the named replica is banned with AdminBan(<seconds>), the primary never, UNBAN lifts exactly that ban.')
    chk.assumptions += [
        'chrono::Utc::now / NaiveDateTime::timestamp modelled as symbolic non-decreasing seconds; parking_lot RwLock single-threaded',
        'load-balancing fairness is outside the claim (rand shuffle modelled as an arbitrary permutation); the admin console is executed for concrete spellings of BAN / UNBAN (O6), not for arbitrary command text',
    ]
    prog = chk.program('on')
    tasks = [(o1_ban, (prog,))]
    shapes = [(ROLE_P,), (ROLE_R,), (ROLE_P, ROLE_R), (ROLE_R, ROLE_R), (ROLE_P, ROLE_R, ROLE_R), (ROLE_R, ROLE_R, ROLE_R)]
    if chk.thorough:
        shapes.append((ROLE_P, ROLE_R, ROLE_R, ROLE_R))
    for roles in shapes:
        reps = [i for i, r in enumerate(roles) if r == ROLE_R]
        for k in range(0, len(reps) + 1):
            for banned in itertools.combinations(reps, k):
                for target in range(len(roles)):
                    if not chk.thorough and len(roles) == 3 and target != (banned[0] if banned else 0) and roles[target] == ROLE_R and target not in banned:
                        continue
                    tasks.append((o2_try_unban, (prog, roles, list(banned), target)))
    for roles, banned in (((ROLE_R,), []), ((ROLE_P, ROLE_R), []), ((ROLE_R, ROLE_R), []), ((ROLE_R, ROLE_R), [0]), ((ROLE_P, ROLE_R), [1]),
                          ((ROLE_R, ROLE_R), [0, 1])) + ((((ROLE_P, ROLE_R, ROLE_R), [1]),) if chk.thorough else ()):
        tasks.append((o3_get, (prog, roles, list(banned))))
    for layout in ((('a', 'a', 'b'),), (('a', 'a', 'b'), ('a', 'b', 'a'))):
        tasks.append((o4_host_lookup, (prog, layout)))
    tasks.append((o5_get_shard, (prog,)))
    tasks.append((o6_admin_ban, (prog,)))
    chk.parallel(_dispatch, tasks)
    # bans are keyed by the addresses of the pool that issued them: a pool re-created by a reload starts with an empty ban list of its own shape
    # (the from_config rebuild obligation of C14, instantiated for this property)
    import checks.c14 as c14mod
    for variant in ('grow', 'swap'):
        c14mod.o2_rebuild(chk, prog, variant, props=('C07',))
    # the client loop's side: a replica that times out a statement is banned, whatever has become of the client (Client::handle executed)
    from checks import hobl
    hobl.handle_obligations(chk, chk.program('on'), {'C07'}, ['failover'])


if __name__ == '__main__':
    run_check('C07', main)
