#!/usr/bin/env python3-vt
"""C04 -- server connections are bounded by pool_size and never leaked (the pgcat side: capacity handed to bb8, every guard dropped)."""
import os, sys, re
sys.path.insert(0, os.path.dirname(os.path.dirname(os.path.abspath(__file__))))
import z3
from harness.common import run_check, expectation
import checks.c14 as c14mod        # (rebuild obligations of from_config and their native expectation)
from checks.serverfam import *
from checks import fromconfig as FC
from checks import hobl


@expectation('c04_capacity')
def c04_capacity():
    def f(res):
        bad = []
        for r in res:
            if 'error' in r or 'panic' in r:
                return False, 'native: %r' % (r,)
            if r['held_at_once'] != r['pool_size'] or r.get('held_at_once_min', r['pool_size']) != r['pool_size']:
                bad.append(r)
        return bool(bad), 'native: connections held at once vs pool_size: %r' % (res,)
    return f


def o1_capacity(chk, prog):
    ob = chk.begin('O1-capacity', 'ConnectionPool::from_config (real coroutine, nothing connected) on two sharded pools x two users whose pool_size and '
                   'min_pool_size are SYMBOLIC: every (pool, user, shard, server) gets its own bb8 pool and its max_size equals that user\'s pool_size '
                   '(no solver model distinguishes them)', {'pools': 2, 'users_per_pool': 2, 'shards': 2, 'servers_per_shard': 2, 'pool_size': 'symbolic u32'})
    ip = chk.interp(prog, 'O1-capacity')
    install_stats_noops(ip)

    def harness(ip_):
        cfg = FC.base_config(ip_, prog)
        pm = MapV('hashmap')
        sizes = {}
        for pn in ('dba', 'dbb'):
            shards = []
            for sid in ('0', '1'):
                srv = [FC.mk_srvcfg(ip_, prog, rstring('h%s%s%d' % (pn, sid, i)), BV(16, 5432 + i), BV(64, 0 if i == 0 else 1)) for i in range(2)]
                shards.append((sid, srv, None))
            pool = FC.mk_pool_cfg(ip_, prog, shards, users=('u1', 'u2'))
            um = getf(prog, pool, 'Pool', 'users')
            for k, cell in um.entries:
                u = cell.val
                nm = bytes(b.v for b in getf(prog, u, 'User', 'username').items).decode()
                ps = ip_.fresh(32, 'pool_size_%s_%s' % (pn, nm))
                ip_.assume(z3.UGT(ps.v, 0))
                setf(prog, u, 'User', 'pool_size', ps)
                sizes[(pn, nm)] = ps
            pm.entries.append([rstring(pn), Cell(pool, 'pool')])
        setf(prog, cfg, 'Config', 'pools', pm)
        FC.install(ip_, cfg)
        try:
            FC.run_from_config(ip_, prog)
        except Panic as p:
            raise Inconclusive('from_config panic: ' + p.msg)
        ob.nontrivial += 1
        ents = FC.pool_entries(ip_, prog)
        seen = []

        def rep(key, what, ps):
            m = ip_.model_for()
            n = 3
            chk.report(ob, 'C04/O1/' + key, what, {'pool_size_example': n}, {'commands': [{'op': 'capacity_probe', 'pool_size': n, 'extra': 3, 'servers': 2}, {'op': 'capacity_probe', 'pool_size': 4, 'extra': 3, 'servers': 3},
                                                                                           {'op': 'capacity_probe', 'pool_size': 1, 'extra': 3}], 'expect': ['c04_capacity']})
        if sorted((d, u) for d, u, _ in ents) != sorted(sizes):
            rep('pools-missing', 'from_config registered %r for the configured %r' % (sorted((d, u) for d, u, _ in ents), sorted(sizes)), None)
        for d, u, cp in ents:
            dbs = deref(ip_, getf(prog, cp, 'ConnectionPool', 'databases'))
            if len(dbs.items) != 2 or any(len(s.items) != 2 for s in dbs.items):
                rep('pool-shape', 'pool %s/%s has %r bb8 pools for 2 shards x 2 servers' % (d, u, [len(s.items) for s in dbs.items]), None)
                continue
            for s in dbs.items:
                for p in s.items:
                    if any(p is q for q in seen):
                        rep('shared-bb8-pool', 'one bb8 pool object serves two (pool, user, server) triples', None)
                    seen.append(p)
                    ms = p.data['settings'].get('max_size')
                    if ms is None:
                        rep('no-max-size', 'the bb8 pool of %s/%s is built without max_size (bb8 default 10)' % (d, u), None)
                    elif ip_.model_for(ms.z() != sizes[(d, u)].z()) is not None:
                        rep('max-size-differs', 'the bb8 pool of %s/%s is built with max_size != the user\'s pool_size' % (d, u), None)
        if len(ob.samples) < 1:
            ob.samples.append({'registered': sorted((d, u) for d, u, _ in ents), 'bb8_pools': len(seen)})
    ip.explore(harness)
    chk.absorb(ob, ip)
    chk.end(ob)


def main(chk):
    chk.explanation = (
        'Solver-based checking of the pgcat side of C04. (O1) from_config, executed from MIR with symbolic pool sizes, hands every '
        '(pool, user, shard, server) its own bb8 pool whose max_size is that user\'s pool_size. (H-*) The real Client::handle coroutine is '
        'executed from MIR on families of client sessions (simple / extended / malformed / truncated / paused, symbolic names, kinds, codes, '
        'backend statuses): on every explored exit of handle() -- Ok, `?` error returns, panics (unwinding) -- every connection guard that was '
        'checked out has been dropped, so the slot returns to bb8.  That bb8 itself never exceeds max_size and serves waiters FIFO is assumed '
        '(its semaphore under concurrent tasks is outside what the technique encodes).  One bb8 pool per (pool, user, server) is what makes max_size a bound: '
        'ConnectionPool::from_config keeps an unchanged pool across a reload, also when auth_query is configured (O2-rebuild).')
    chk.assumptions += [
        'bb8: at most max_size connections per Pool, a dropped PooledConnection frees its slot, waiters are served (library contract, not encoded)',
        'one client session at a time; concurrency between clients is bb8\'s and Tokio\'s (outside the claim)',
    ]
    prog = chk.program('on')
    o1_capacity(chk, prog)
    # "full capacity available again": a waiter that times out bans the server it waited for (pool exhaustion counts as a failed checkout); once every
    # replica of the shard is banned that way, the next checkout lifts the bans -- also in a shard that has a primary (which is never banned)
    import checks.c07 as c07
    for roles, banned, target in (((0, 1), [1], 1), ((0, 1, 1), [1, 2], 2), ((1, 1), [0, 1], 0)):
        c07.o2_try_unban(chk, prog, roles, banned, target, prop='C04')
    # one bb8 pool per (pool, user, server) is what makes pool_size a bound: a reload must KEEP an unchanged pool (also when auth_query is configured)
    c14mod.o2_rebuild(chk, prog, 'auth-query', props=('C04',))
    hobl.handle_obligations(chk, prog, {'C04'}, ['simple', 'session', 'extended', 'named', 'malformed', 'cuts', 'pause', 'status', 'plugins', 'copy', 'timeouts', 'drops', 'checkout-failures'])


if __name__ == '__main__':
    run_check('C04', main)
