"""Script families for the Client::handle obligations (shared by C01, C02, C03, C04, C16, C19).

One *case* = one client script (messages with symbolic bytes where pgcat or the reference backend looks at them), one way
the client stops (Terminate, EOF at a message boundary, EOF inside the last message), one pool configuration.  The real
`Client::handle` coroutine is executed from MIR against reference backends; the reference model (`handle_env.judge`) is
evaluated on every path; a candidate violation is concretised with the solver's model and replayed through the native
probe `handle_script` (real sockets, real bb8, the same reference backend in Rust) before it is reported.
"""
import os, sys, re, itertools, struct
sys.path.insert(0, os.path.dirname(os.path.dirname(os.path.abspath(__file__))))
import z3
from harness.common import expectation
from checks.serverfam import *
from mirsym.models.util import ok, err
from checks import handle_env as HE
from checks.handle_env import msg, Q, P, B, D, E, C, S, H, X


# ----------------------------------------------------------------------------------------------- message templates
class Sym:
    """A message template: concrete bytes with symbolic holes.  holes: {offset: (name, constraint or None)}."""
    def __init__(self, label, raw, holes=()):
        self.label = label
        self.raw = raw
        self.holes = dict(holes)

    def build(self, ip, k):
        out = []
        for i, b in enumerate(self.raw):
            if i in self.holes:
                nm, cons = self.holes[i]
                v = ip.fresh(8, 'm%d_%s' % (k, nm))
                if isinstance(cons, (bytes, str)):
                    # an enumerated class split decided up front: one of the listed values, or "any other byte"
                    for ch in (cons.encode() if isinstance(cons, str) else cons):
                        if decide(ip, v.z() == ch):
                            v = BV(8, ch)
                            break
                elif cons is not None:
                    ip.assume(cons(v.z()))
                out.append(v)
            else:
                out.append(BV(8, b))
        return out


def conc_msg(label, raw):
    return Sym(label, raw)


SIMPLE = {
    'begin': Q('BEGIN'), 'select': Q('SELECT 1'), 'commit': Q('COMMIT'), 'rollback': Q('ROLLBACK'), 'error': Q('SELECT 1/0'),
    'set': Q('SET statement_timeout TO 5'), 'setrole': Q('SET ROLE r'), 'prepare': Q('PREPARE p AS SELECT 1'),
    'setlocal': Q('SET LOCAL x TO 1'), 'copyin': Q('COPY t FROM STDIN'), 'copyout': Q('COPY t TO STDOUT'), 'empty': Q(';'),
    'select2': Q('SELECT 2'), 'sleep': Q('SELECT pg_sleep(1)'), 'qt1': Q('SELECT * FROM t1'), 'qt2': Q('SELECT * FROM t2'), 'd': msg('d', b'1\n'), 'c': msg('c'), 'f': msg('f', b'stop\0'), 'multi': Q('BEGIN; SELECT 1'), 'sync': S, 'flush': H,
    # replies around the 8 KiB relay threshold (see MockPg.big_rows), alone, in a multi-statement message, after a COPY in the same message
    'bigsel': Q('SELECT bigrows'), 'hugesel': Q('SELECT hugerow'), 'multibig': Q('SELECT 1; SELECT hugerow; SELECT 2'),
    'die': Q('SELECT die'), 'mktable': Q('CREATE TABLE notyet (a int)'), 'copyin_big': Q('COPY t FROM STDIN; SELECT bigrows'), 'copyin_sel': Q('COPY t FROM STDIN; SELECT 7'),
}


def ascii_or_nul(v):
    return z3.ULT(v, 0x7f)


def sym_parse(two=True):
    # name = n0 n1 NUL (either may itself be NUL: shorter name / unnamed), then the query
    raw = msg('P', b'ab\0SELECT 1\0\0\0')
    return Sym('P?', raw, {5: ('pn0', ascii_or_nul), 6: ('pn1', ascii_or_nul)})


def sym_bind():
    raw = B('', 'ab')
    # portal "" NUL, statement name at offsets 6,7
    return Sym('B?', raw, {6: ('bn0', ascii_or_nul), 7: ('bn1', ascii_or_nul)})


def sym_describe():
    raw = D('S', 'ab')
    return Sym('D?', raw, {5: ('dk', None), 6: ('dn0', ascii_or_nul), 7: ('dn1', ascii_or_nul)})


def sym_close():
    raw = C('S', 'ab')
    return Sym('C?', raw, {5: ('ck', None), 6: ('cn0', ascii_or_nul), 7: ('cn1', ascii_or_nul)})


def digit_class(n):
    """'2' -> (2 digits, each 0..9);  '1<3' -> (1 digit, 0..2)."""
    n = str(n)
    if '<' in n:
        k, top = n.split('<')
        return int(k), 47 + int(top)
    return int(n), 57


def sym_digits(prefix, n, suffix="'"):
    n, top = digit_class(n)
    raw = Q(prefix + '0' * n + suffix)
    off = 5 + len(prefix)
    return Sym(prefix + '#' * n, raw, {off + i: ('dg%d' % i, lambda v: z3.And(z3.UGE(v, 48), z3.ULE(v, top))) for i in range(n)})


def sym_code(body=b''):
    raw = msg('?', body)
    return Sym('??', raw, {0: ('code', 'QPBDECHSXdcf')})


EXT = {'P?': sym_parse, 'B?': sym_bind, 'D?': sym_describe, 'C?': sym_close, 'E': lambda: conc_msg('E', E()),
       'Pbegin': lambda: conc_msg('Pbegin', P('', 'BEGIN')), 'Pcommit': lambda: conc_msg('Pcommit', P('', 'COMMIT')), 'Perror': lambda: conc_msg('Perror', P('', 'SELECT 1/0')),
       'Pset': lambda: conc_msg('Pset', P('', 'SET statement_timeout TO 5')),
       'Pbig': lambda: conc_msg('Pbig', P('', 'SELECT bigrows')), 'Phuge': lambda: conc_msg('Phuge', P('', 'SELECT hugerow')),
       'P': lambda: conc_msg('P', P('', 'SELECT 1')), 'P2': lambda: conc_msg('P2', P('', 'SELECT 2')),
       'Pny': lambda: conc_msg('Pny', P('s1', 'SELECT * FROM notyet')), 'Pny2': lambda: conc_msg('Pny2', P('s2', 'SELECT * FROM notyet')),
       'Ps3': lambda: conc_msg('Ps3', P('s3', 'SELECT 4')), 'Bs3': lambda: conc_msg('Bs3', B('', 's3')),
       'Ps1b': lambda: conc_msg('Ps1b', P('s1', 'SELECT 3')), 'Ps2': lambda: conc_msg('Ps2', P('s2', 'SELECT 2')), 'Cs2': lambda: conc_msg('Cs2', C('S', 's2')),
       'Pst1': lambda: conc_msg('Pst1', P('s1', 'SELECT * FROM t1')), 'Pst2': lambda: conc_msg('Pst2', P('s2', 'SELECT * FROM t2')), 'Bs2': lambda: conc_msg('Bs2', B('', 's2')),
       'Pt1': lambda: conc_msg('Pt1', P('', 'SELECT * FROM t1')), 'Pt2': lambda: conc_msg('Pt2', P('', 'SELECT * FROM t2')), 'Ps': lambda: conc_msg('Ps', P('s1', 'SELECT 1')), 'Bs': lambda: conc_msg('Bs', B('', 's1')),
       'B': lambda: conc_msg('B', B('', '')), 'Cs': lambda: conc_msg('Cs', C('S', 's1')), 'Ds': lambda: conc_msg('Ds', D('S', 's1')),
       'S': lambda: conc_msg('S', S), 'H': lambda: conc_msg('H', H), 'X': lambda: conc_msg('X', X)}


def tmpl(name):
    if name in SIMPLE:
        return conc_msg(name, SIMPLE[name])
    if name in EXT:
        return EXT[name]()
    if name.startswith('q:'):
        return conc_msg(name, Q(name[2:]))
    if name.startswith('qd:'):
        # qd:<n>:<prefix>  -- a query with n symbolic decimal digits and a closing quote
        _, n, prefix = name.split(':', 2)
        return sym_digits(prefix, int(n))
    if name.startswith('qdc|'):
        # qdc|<n>|<prefix>|<suffix>  -- a simple query: prefix, n symbolic decimal digits, suffix
        _, n, prefix, suffix = name.split('|', 3)
        return sym_digits(prefix, n, suffix)
    if name.startswith('pdc|'):
        # pdc|<n>|<statement name>|<prefix>|<suffix>  -- a Parse whose query text is prefix, n symbolic decimal digits, suffix
        _, n, sname, prefix, suffix = name.split('|', 4)
        n, top = digit_class(n)
        raw = P(sname, prefix + '0' * n + suffix)
        off = 5 + len(sname) + 1 + len(prefix)
        return Sym('P(%s)%s%s%s' % (sname, prefix, '#' * n, suffix), raw, {off + i: ('dg%d' % i, lambda v: z3.And(z3.UGE(v, 48), z3.ULE(v, top))) for i in range(n)})
    if name.startswith('dbig:'):
        n = int(name[5:])
        return conc_msg(name, msg('d', bytes((i * 7 + n) % 251 for i in range(n))))
    if name.startswith('raw:'):
        return conc_msg(name, bytes.fromhex(name[4:]))
    if name.startswith('code:'):
        return sym_code(bytes.fromhex(name[5:]))
    raise KeyError(name)


# ----------------------------------------------------------------------------------------------- one case
class Case:
    def __init__(self, names, stop='eof', cut=None, mode='transaction', cache=0, roles=(0,), paused=None, sym_status=False, plugins=False, shards=None, custom=False, params=None, second=None, second_params=None, idle_timeout=False, stmt_timeout=False, shutdown=False, checkout_failures=0, regex=False, pool_parser=None, reload_before=None):
        self.names = list(names)
        self.reload_before = reload_before   # None or k: a RELOAD re-creates the pool (new config_hash, same definition otherwise) while the client is idle before message k
        self.pool_parser = pool_parser  # None or 'primary' | 'replica': the POOL has the query parser on and that default_role (sessions here switch it off with SET SERVER ROLE first)
        self.regex = regex            # shard_id_regex / sharding_key_regex configured (the patterns of the example configuration): routing by comment
        self.stop = stop              # 'eof' | 'X' | 'drop' (the whole socket is gone after the last message: reads hit EOF AND writes fail)
        self.cut = cut                # None or number of bytes of the LAST message delivered before EOF
        self.mode = mode
        self.cache = cache
        self.roles = tuple(roles)     # Role discriminants of the backends
        self.paused = paused          # None | 'start' | ('after', k): PAUSE arrives while the client is idle before message k
        self.sym_status = sym_status
        self.shards = shards          # None or list of role tuples, one per shard (overrides `roles`)
        self.checkout_failures = checkout_failures   # up to n checkouts of the session may time out (pool exhausted): solver's choice
        self.shutdown = shutdown           # the shutdown broadcast may arrive at any select! of the session
        self.stmt_timeout = stmt_timeout   # statement_timeout configured: a pg_sleep statement may or may not be answered in time
        self.idle_timeout = idle_timeout   # idle_client_in_transaction_timeout configured: it may fire at any read inside a transaction
        self.second = second          # None or the script (names) of a second client that connects after the first one has gone
        self.second_params = second_params
        self.params = params          # None or dict: the client's startup values of tracked parameters (the servers start with the defaults)
        self.custom = custom          # the script contains pooler commands (SET SHARD ...): routing reference is evaluated
        self.plugins = plugins        # query parser on; the plugin verdict for every parsed statement is symbolic (allow / deny / intercept)

    def label(self):
        s = '+'.join(self.names) + ('|X' if self.stop == 'X' else ('|drop' if self.stop == 'drop' else '|eof')) + ('' if self.cut is None else '@%d' % self.cut)
        s += '' if self.mode == 'transaction' else '/session'
        s += '/cache' if self.cache else ''
        s += '' if len(self.roles) == 1 else '/%dbackends' % len(self.roles)
        s += '/symstatus' if self.sym_status else ''
        s += '' if self.paused is None else '/paused:%s' % (self.paused,)
        s += '/checkout-failures:%d' % self.checkout_failures if self.checkout_failures else ''
        s += '/shutdown' if self.shutdown else ''
        s += '/idle-timeout' if self.idle_timeout else ''
        s += '/statement-timeout' if self.stmt_timeout else ''
        s += '' if not self.second else '/then:%s%s' % ('+'.join(self.second), '' if not self.second_params else sorted(self.second_params.items()))
        s += '' if not self.params else '/params:%s' % (sorted(self.params.items()),)
        s += '' if not self.shards else '/shards:%s' % (self.shards,)
        s += '/comment-routing' if self.regex else ''
        s += '/pool-parser-default-%s' % self.pool_parser if self.pool_parser else ''
        s += '/reload-before:%d' % self.reload_before if self.reload_before is not None else ''
        s += ('/plugins' if self.plugins is True else '/plugins:%s' % self.plugins) if self.plugins else ''
        return s


def run_case(chk, ob, ip, prog, case, props, extra_judge=None):
    """Execute one case on every path; report violations of the properties in `props`."""
    def harness(ip_):
        msgs = [tmpl(n).build(ip_, k) for k, n in enumerate(case.names)]
        if case.stop == 'X':
            msgs.append([BV(8, b) for b in X])
        sent = [b for m in msgs for b in m]
        complete = list(msgs)
        if case.cut is not None and msgs:
            last = msgs[-1]
            sent = sent[:len(sent) - len(last) + min(case.cut, len(last) - 1)]
            complete = msgs[:-1]
        if case.shards:
            bks, i = [], 0
            for si, rs in enumerate(case.shards):
                row = []
                for pos, r in enumerate(rs):
                    row.append(HE.Backend(ip_, prog, i, r, sym_status=case.sym_status, shard=si, pos=pos))
                    i += 1
                bks.append(row)
            flat = [b for row in bks for b in row]
        else:
            bks = [HE.Backend(ip_, prog, i, r, sym_status=case.sym_status) for i, r in enumerate(case.roles)]
            flat = bks
        client_over = {}
        pool_over = {}
        if case.mode == 'session':
            client_over['transaction_mode'] = BV(1, 0)
        if case.params is not None:
            vals = {k: v.decode('latin1') for k, v in HE.PARAM_DEFAULTS.items()}
            vals.update(case.params)
            client_over['server_parameters'] = mk_server_params(prog, vals)
        if case.cache:
            client_over['prepared_statements_enabled'] = BV(1, 1)
            pool_over['prepared_statement_cache'] = some(ip_, Ptr(Cell(Agg([mk_struct(prog, 'PreparedStatementCache', cache=lru([], case.cache))], 'Lock'), 'pscache')))
        pend, on_pending = (), None
        if isinstance(case.paused, tuple):
            k = case.paused[1]
            pend = (sum(len(m) for m in msgs[:k]),)

            resume_after = len(case.paused) > 2

            def on_pending(env, n):
                # the client is idle in its read: PAUSE arrives now, then the client's next bytes
                if n == 0:
                    env.set_paused(True)
                    return True
                if n == 1 and resume_after:
                    env.resume()
                    return True
                return False
        elif case.paused == 'start-resume':
            def on_pending(env, n):
                if n == 0:
                    env.resume()
                    return True
                return False
        settings_over = {}
        if case.plugins:
            settings_over['query_parser_enabled'] = BV(1, 1)
            # (plugins ARE configured for the pool; what they say is the stub's business)
            settings_over['plugins'] = some(ip_, Opaque('Plugins', 'configured'))
        if case.pool_parser:
            settings_over['query_parser_enabled'] = BV(1, 1)
            settings_over['default_role'] = some(ip_, ip_.make_enum('Role', 'Primary' if case.pool_parser == 'primary' else 'Replica'))
        if case.regex:
            from mirsym import rx as _rx
            settings_over['shard_id_regex'] = some(ip_, Opaque('Regex', 'regex', _rx.Compiled(SHARD_ID_RX)))
            settings_over['sharding_key_regex'] = some(ip_, Opaque('Regex', 'regex', _rx.Compiled(SHARDING_KEY_RX)))
        env = HE.HandleEnv(ip_, prog, bks, sent, client_over=client_over, pool_over=pool_over, paused=(case.paused in ('start', 'start-resume')),
                           pending_at=pend, on_pending=on_pending, settings_over=settings_over,
                           boundaries=[sum(len(mm) for mm in msgs[:k]) for k in range(len(msgs) + 1)],
                           idle_timeout_ms=(400 if case.idle_timeout else 0), statement_timeout_ms=(500 if case.stmt_timeout else 0), shutdown=case.shutdown,
                           checkout_failures=case.checkout_failures)
        env.reload_before = case.reload_before
        if case.cache:
            def give_cache(b):
                setf(prog, b.server, 'Server', 'prepared_statement_cache', some(ip_, lru([], case.cache)))
            env.server_setup.append(give_cache)
            for b in flat:
                give_cache(b)
        if case.stop == 'drop':
            env.client_stream.writes_fail_from = len(sent)
        verdicts = {}
        if case.plugins:
            env.plugin_verdicts = case.plugins
            if case.plugins == 'deny-t1':
                # the plugin configuration is fixed (table t1 is listed): what each statement's verdict IS does not depend on whether the pooler asks
                seen_ = {}
                for k_, m_ in enumerate(msgs):
                    cm_ = HE.conc(m_)
                    if cm_ is not None and cm_[:1] in (b'Q', b'P'):
                        verdicts[seen_.setdefault(cm_, k_)] = 1 if b'FROM t1' in cm_ else 0
            install_plugin_stubs(ip_, env, msgs, verdicts)
        try:
            env.run()
        except Inconclusive:
            raise
        ob.nontrivial += 1
        data = HE.collect(env)
        if os.environ.get('HDEBUG'):
            for r in data['reqs']:
                print('  REQ', r['g'], r['backend'], HE.show(r['bytes']), [HE.show(d) for d in r['delivered']])
            print('  OUT', HE.show(data['client_out']))
            print('  EVENTS', data['events'], data['outcome'])
        dec = HE.Decider(ip_)
        inc = case.shutdown or case.paused is not None and not (case.paused == 'start-resume' or (isinstance(case.paused, tuple) and len(case.paused) > 2))
        denied = None
        eff = complete
        if case.plugins:
            eff, denied_msgs = effective_script(complete, verdicts, bool(case.cache))

            denied_sql = [sql_of(dm) for dm in denied_msgs]

            def denied(m):
                # the denied statement text inside any Query / Parse that reaches a backend (statement names may be rewritten)
                cm = HE.conc(m)
                return cm is not None and cm[:1] in (b'Q', b'P') and any(t and t in cm for t in denied_sql)
        failed_at = [e[2] for e in env.events if e[0] == 'checkout_failed']
        if failed_at:
            # a request whose checkout timed out is answered by the pooler ("could not get connection from the pool"); a Sync batch is
            # dropped as a whole; the session goes on
            bounds = [sum(len(mm) for mm in msgs[:k]) for k in range(len(msgs) + 1)]
            drop = set()
            for pos in failed_at:
                if pos in bounds[1:]:
                    k = bounds.index(pos) - 1
                    drop.add(k)
                    if HE.code_of(msgs[k]) == 'S':
                        j = k - 1
                        while j >= 0 and HE.code_of(msgs[j]) in 'PBDECH':
                            drop.add(j)
                            j -= 1
            eff = [mm for k, mm in enumerate(complete) if k not in drop]
        customV = []
        if case.custom:
            eff, customV = custom_reference(data, complete, dec, case.shards or [case.roles], regex=case.regex)
        V = HE.judge(data, eff, dec, cache_on=bool(case.cache), expect_incomplete=inc, denied=denied, allow_pooler_replies=bool(case.plugins or case.custom),
                     idle_rule=(case.mode == 'transaction' and not case.plugins and not case.custom and eff is complete),
                     stats_rule=('C18' in props and not case.plugins and not case.custom and eff is complete))
        if case.cache and data['outcome'] == ('done', 'Err') and program_valid(complete) is False:
            # statement caching on: the pooler resolves names itself and ends the session of a client that binds / describes a statement it has not
            # prepared (or has closed) -- the requests of such a program need not reach a server
            V = [v for v in V if v[1] != 'H/request-not-forwarded']
        if failed_at and data['outcome'][0] == 'done' and data['client_read'] < len(sent):
            V.append(('C04', 'H/checkout-failure-ends-session', 'after a checkout that timed out the session is ended instead of staying usable'))
        V += customV
        # a replica that times out a client's statement is banned -- whether or not the client is still there to be told (C07)
        nsrv = len(case.roles) if not case.shards else max(len(rs) for rs in case.shards)
        if case.stmt_timeout and nsrv > 1 and data['outcome'][0] != 'pending':
            from checks.c07 import banned_ids
            bl = deref(ip_, getf(prog, env.pool, 'ConnectionPool', 'banlist')).fields[0].items[0]
            banned = set(banned_ids(prog, bl))
            for e in env.events:
                if e[0] == 'statement_timeout':
                    for bi in e[2]:
                        if flat[bi].role == 1 and bi not in banned:
                            V.append(('C07', 'H/timed-out-replica-not-banned', 'replica %d timed out the client\'s statement (statement_timeout) but is not on the ban list '
                                      'afterwards: the next client can be sent to it again' % bi))
        if nsrv > 1 and data['outcome'][0] != 'pending':
            from checks.c07 import banned_ids
            bl = deref(ip_, getf(prog, env.pool, 'ConnectionPool', 'banlist')).fields[0].items[0]
            banned = set(banned_ids(prog, bl))
            for r in data['reqs']:
                if r.get('died') and flat[r['backend']].role == 1 and r['backend'] not in banned:
                    V.append(('C07', 'H/broken-replica-not-banned', 'replica %d closed its connection in the middle of a reply but is not on the ban list afterwards' % r['backend']))
        if case.params is not None:
            V += c12_reference(data, complete, dec, case.params)
        if case.cache and not case.plugins and 'C08' in props and not failed_at:
            try:
                V += c08_reference(data, complete, dec, case.cache)
            except ValueError:
                pass        # the client's program is not well-formed: C08 speaks of well-formed programs
        if extra_judge:
            V += extra_judge(env, data, complete, dec)
        if case.paused is not None and not inc:
            # RESUME releases every held client: after it, the session must run to its end
            if data['outcome'][0] == 'pending' or any(k == 'H/request-not-forwarded' for _p, k, _t in V):
                V.append(('C16', 'H/held-after-resume', 'the client is still held (or its request was dropped) after RESUME'))
        if os.environ.get('HDEBUG'):
            for r in data['reqs']:
                print('  ORIGIN', r['g'], r['backend'], r.get('origin'), HE.show(r['bytes'][:30]))
        for prop, key, text in V:
            if prop not in props:
                continue
            m = ip_.model_for()
            hexs = bytes(model_byte(m, b) for b in sent).hex()
            cmd = {'op': 'handle_script', 'client_hex': hexs, 'eof': True, 'mode': case.mode, 'cache': case.cache,
                   'roles': ['primary' if r == 0 else 'replica' for r in case.roles]}
            if case.stop == 'drop':
                cmd['drop'] = True
            if prop == 'C18':
                cmd['probe_b'] = False
                if key in ('H/transaction-total', 'H/query-total'):
                    # the client stays connected after its last message (without Terminate) so that its counters can be read
                    body = msgs[:-1] if case.stop == 'X' else msgs
                    cmd['client_hex'] = hexs[:2 * sum(len(x) for x in body)]
                    cmd['eof'] = False
                mm_ = re.search(r'before reading message (\d+)', text) or re.search(r'waits for message (\d+) of its client', text)
                if mm_:
                    # natively: the client stays connected and silent at that point; SHOW CLIENTS is sampled then
                    upto = sum(len(x) for x in msgs[:int(mm_.group(1))])
                    cmd['client_hex'] = hexs[:2 * upto]
                    cmd['eof'] = False
            if prop == 'C10':
                if ip_.env.get('events_lock'):
                    cmd['contend_csmap'] = True     # (the path took a try_lock that found the map busy)
                mm_ = re.search(r'before reading message (\d+)', text)
                if mm_:
                    upto = sum(len(x) for x in msgs[:int(mm_.group(1))])
                    cmd['client_hex'] = hexs[:2 * upto]
                    cmd['eof'] = False
                cmd['probe_b'] = False
            if key == 'H/idle-client-keeps-server':
                # natively: the client stays connected and idle after the completed request; a second client must still be served
                kk = int(re.search(r'request (\d+) completed', text).group(1))
                upto = sum(len(mm) for mm in msgs[:kk + 1])
                cmd['client_hex'] = hexs[:2 * upto]
                cmd['eof'] = False
            if case.params is not None:
                cmd['startup_params'] = dict(case.params)
            if failed_at:
                # natively another client holds the only connection (BEGIN ... COMMIT) around each request whose checkout timed out
                bounds = [sum(len(mm) for mm in msgs[:k]) for k in range(len(msgs) + 1)]
                steps, last = [], 0
                for pos in sorted(set(failed_at)):
                    k = bounds.index(pos) - 1 if pos in bounds else None
                    if k is None:
                        continue
                    if bounds[k] > last:
                        steps.append({'send_hex': hexs[2 * last:2 * bounds[k]]})
                    steps += [{'other_begin': True}, {'send_hex': hexs[2 * bounds[k]:2 * pos]}, {'sleep_ms': 1900}, {'other_end': True}]
                    last = pos
                steps.append({'send_hex': hexs[2 * last:]})
                cmd['steps'] = steps
            if case.shutdown:
                fired = [e[2] for e in env.events if e[0] == 'shutdown']
                if fired:
                    # the broadcast is sent while pgcat is busy with (or waiting for) the message BEFORE the point where this session
                    # received it: whichever of recv() / try_recv() asks next then finds it queued
                    bounds = [sum(len(mm) for mm in msgs[:k]) for k in range(len(msgs) + 1)]
                    prev = [b for b in bounds if b < fired[0]]
                    pos = prev[-1] if prev else 0
                    cmd['steps'] = ([{'send_hex': hexs[:2 * pos]}] if pos else []) + [{'shutdown': True}, {'send_hex': hexs[2 * pos:]}]
            if case.stmt_timeout:
                # natively the reference backend sleeps 1.5 s on pg_sleep statements; statement_timeout 500 ms fires, or (witness
                # without a timeout) the statement timeout is configured far above the sleep
                cmd['statement_timeout_ms'] = 500 if any(e[0] == 'statement_timeout' for e in env.events) else 6000
            if case.idle_timeout:
                # the client goes silent (longer than the configured timeout) exactly where the solver let the deadline fire
                cmd['idle_timeout_ms'] = 400
                fired = [e[1] for e in env.events if e[0] == 'idle_timeout']
                steps, last = [], 0
                for pos in fired:
                    if pos > last:
                        steps.append({'send_hex': hexs[2 * last:2 * pos]})
                    steps.append({'sleep_ms': 900})
                    last = pos
                steps.append({'send_hex': hexs[2 * last:]})
                cmd['steps'] = steps
            if case.shards:
                cmd['shards'] = [['primary' if r == 0 else 'replica' for r in rs] for rs in case.shards]
                cmd.pop('roles', None)
            if case.custom:
                cmd['custom'] = True
            if case.reload_before is not None:
                bounds_ = [sum(len(mm) for mm in msgs[:k]) for k in range(len(msgs) + 1)]
                pos_ = bounds_[case.reload_before]
                cmd['steps'] = [{'send_hex': hexs[:2 * pos_]}, {'sleep_ms': 150}, {'reload_pool': True}, {'send_hex': hexs[2 * pos_:]}]
            if case.pool_parser:
                cmd['query_parser'] = True
                cmd['default_role'] = case.pool_parser
            if case.regex:
                cmd['shard_id_regex'] = SHARD_ID_RX
                cmd['sharding_key_regex'] = SHARDING_KEY_RX
            if case.sym_status:
                cmd['statuses'] = [model_byte(m, r['status_after']) for r in data['reqs'] if r['bytes'][0].concrete and r['bytes'][0].v == ord('Q')
                                   and r.get('status_after') is not None]
            if case.plugins:
                # the witness verdicts become a real plugin configuration: table_access on the tables of denied statements,
                # intercept rules for the intercepted ones
                deny, icpt = [], []
                for k, vd in verdicts.items():
                    t = re.search(rb'FROM (t\d)', HE.conc(msgs[k]) or b'')
                    if t and vd == 1:
                        deny.append(t.group(1).decode())
                    elif t and vd == 2:
                        icpt.append('select * from ' + t.group(1).decode())
                cmd['deny_tables'] = sorted(set(deny))
                if icpt:
                    cmd['intercept'] = sorted(set(icpt))
            if case.paused is not None:
                k = 0 if isinstance(case.paused, str) else case.paused[1]
                cut = sum(len(mm) for mm in msgs[:k])
                steps = []
                if cut:
                    steps.append({'send_hex': hexs[:2 * cut]})
                steps += [{'pause': True}, {'send_hex': hexs[2 * cut:]}]
                if not inc:
                    steps.append({'resume': True})
                cmd['steps'] = steps
                cmd['eof'] = False
            n_before = None
            if case.paused is not None:
                k = 0 if isinstance(case.paused, str) else case.paused[1]
                n_before = len(HE.default_forward(msgs[:k]))
            chk.report(ob, '%s/%s' % (prop, key), '%s [script %s]' % (text, case.label()),
                       {'script': case.label(), 'client_bytes_hex': hexs, 'outcome': list(data['outcome'])},
                       {'commands': [cmd] * (6 if (len(case.roles) > 1 or (case.shards and any(len(rs) > 1 for rs in case.shards))) else 1),
                        'expect': ['h_violation', prop, key, (case.cache if prop == 'C08' else bool(case.cache)), inc, hexs, n_before,
                                                      [bytes(model_byte(m, b) for b in dm).hex() for dm in (denied_msgs if case.plugins else [])],
                                                      [bytes(model_byte(m, b) for mm in eff for b in mm).hex()] if case.plugins else None,
                                                      [list(rs) for rs in (case.shards or [case.roles])] if case.custom else None,
                                                      dict(case.params) if case.params is not None else None, bool(case.regex)]})
        if len(ob.samples) < 2:
            ob.samples.append({'script': case.label(), 'outcome': str(data['outcome']), 'events': [str(e) for e in env.events][:8]})
        if case.second and data['outcome'][0] == 'done':
            second_session(ip_, env, case, sent, msgs)

    def second_session(ip_, env, case, sent1, msgs1):
        """The next client: its own requests and replies, its own parameters and statement names, on the connections the first left."""
        msgs2 = [tmpl(n).build(ip_, 100 + k) for k, n in enumerate(case.second)] + [[BV(8, b) for b in X]]
        sent2 = [b for m in msgs2 for b in m]
        co = {}
        if case.mode == 'session':
            co['transaction_mode'] = BV(1, 0)
        if case.cache:
            co['prepared_statements_enabled'] = BV(1, 1)
        p2 = dict(case.second_params or {})
        vals = {k: v.decode('latin1') for k, v in HE.PARAM_DEFAULTS.items()}
        vals.update(p2)
        co['server_parameters'] = mk_server_params(prog, vals)
        env.next_session(sent2, boundaries=[sum(len(mm) for mm in msgs2[:k]) for k in range(len(msgs2) + 1)], client_over=co)
        env.run()
        data2 = HE.collect(env, 1)
        dec = HE.Decider(ip_)
        V = HE.judge(data2, msgs2, dec, cache_on=bool(case.cache), idle_rule=(case.mode == 'transaction'))
        V += c12_reference(data2, msgs2, dec, p2)
        if case.cache and 'C08' in props:
            try:
                V += c08_reference(data2, msgs2, dec, case.cache)
            except ValueError:
                pass
        for prop, key, text in V:
            if prop not in props:
                continue
            m = ip_.model_for()
            hex1 = bytes(model_byte(m, b) for b in sent1).hex()
            hex2 = bytes(model_byte(m, b) for b in sent2).hex()
            cmd = {'op': 'handle_script', 'client_hex': hex1, 'eof': True, 'mode': case.mode, 'cache': case.cache,
                   'roles': ['primary' if r == 0 else 'replica' for r in case.roles], 'b_hex': hex2}
            if case.params is not None:
                cmd['startup_params'] = dict(case.params)
            if p2:
                cmd['b_startup_params'] = p2
            chk.report(ob, '%s/%s' % (prop, key + '/second-client'), '%s [second client of %s]' % (text, case.label()),
                       {'script': case.label(), 'first_client_hex': hex1, 'second_client_hex': hex2},
                       {'commands': [cmd], 'expect': ['h_violation2', prop, key, (case.cache if prop == 'C08' else bool(case.cache)), hex2, p2]})
    ip.explore(harness, max_paths=4000)


# ----------------------------------------------------------------------------------------------- pooler commands
SHARD_ID_RX = r'/\* shard_id: (\d+) \*/'
SHARDING_KEY_RX = r'/\* sharding_key: (\d+) \*/'
CMD_RX = [
    # (digits only: a signed literal is not in the documented command language -- C13 -- and is ordinary SQL for the server)
    ('SetShardingKey', re.compile(rb"^\s*SET\s+SHARDING\s+KEY\s+TO\s+'?([0-9]+)'?\s*;?\s*$", re.I)),
    ('SetShard', re.compile(rb"^\s*SET\s+SHARD\s+TO\s+'?([0-9]+|ANY)'?\s*;?\s*$", re.I)),
    ('ShowShard', re.compile(rb"^\s*SHOW\s+SHARD\s*;?\s*$", re.I)),
    ('SetServerRole', re.compile(rb"^\s*SET\s+SERVER\s+ROLE\s+TO\s+'?(PRIMARY|REPLICA|ANY|AUTO|DEFAULT)'?\s*;?\s*$", re.I)),
    ('ShowServerRole', re.compile(rb"^\s*SHOW\s+SERVER\s+ROLE\s*;?\s*$", re.I)),
    ('SetPrimaryReads', re.compile(rb"^\s*SET\s+PRIMARY\s+READS\s+TO\s+'?(on|off|default)'?\s*;?\s*$", re.I)),
    ('ShowPrimaryReads', re.compile(rb"^\s*SHOW\s+PRIMARY\s+READS\s*;?\s*$", re.I)),
]
CMD_TAG = {'SetShardingKey': b'SET SHARDING KEY', 'SetShard': b'SET SHARD', 'SetServerRole': b'SET SERVER ROLE', 'SetPrimaryReads': b'SET PRIMARY READS'}


def custom_reference(data, script, dec, shard_roles, regex=False):
    """Reference for the documented pooler commands in a session (transaction pool mode): outside a transaction a simple query
    that IS one of the commands is answered by the pooler (CommandComplete <tag> + ReadyForQuery('I'); SHOW: RowDescription,
    DataRow with the value the preceding SETs established, CommandComplete, ReadyForQuery) and never forwarded; SET SHARD n
    selects shard n if n < shards (else it is refused with an error and the selection stays), SET SHARDING KEY k selects
    PostgreSQL's hash partition of k; every later statement runs on a server of the selected shard (and of the selected
    role).  Inside a transaction the commands are ordinary SQL for the server.  Symbolic digits are first split by the solver."""
    from harness import refs
    V = []
    nsh = len(shard_roles)
    binfo = {}
    i = 0
    for si, rs in enumerate(shard_roles):
        for r in rs:
            binfo[i] = (si, r)
            i += 1
    eff = []
    cmds = []               # (script index, kind, value, expected shard after, expected role after)
    sel_shard, sel_role = None, None
    in_tx = False
    def concretise(bs):
        vals = []
        for b in bs:
            if b.concrete:
                vals.append(b.v)
            else:
                got = None
                for d in range(48, 58):
                    if dec(b.z() == d):
                        got = d
                        break
                if got is None:
                    raise Inconclusive('symbolic command byte outside the digit class')
                vals.append(got)
        return bytes(vals)

    def comment_route(m):
        # routing by comment (documented for Query and Parse alike): looked for in the first regex_search_limit bytes after the header;
        # a shard id wins over a sharding key
        nonlocal sel_shard
        seg = concretise(m[5:5 + 1000])
        mm = re.search(SHARD_ID_RX.encode(), seg)
        if mm:
            sel_shard = int(mm.group(1))
            return True
        mm = re.search(SHARDING_KEY_RX.encode(), seg)
        if mm and int(mm.group(1)) < (1 << 63):
            sel_shard = refs.pg_partition_of(int(mm.group(1)), nsh)
            return True
        return False
    for k, m in enumerate(script):
        c = HE.code_of(m)
        if c == 'P' and regex:
            if not in_tx:
                comment_route(m)
            eff.append(m)
            cmds.append((k, 'stmt', m, sel_shard, sel_role))
            continue
        if c != 'Q':
            eff.append(m)
            continue
        if regex and not in_tx and comment_route(m):
            eff.append(m)
            cmds.append((k, 'stmt', m, sel_shard, sel_role))
            continue
        body = m[5:-1]
        # concretise the symbolic digits class by class
        vals = []
        for b in body:
            if b.concrete:
                vals.append(b.v)
            else:
                got = None
                for d in range(48, 58):
                    if dec(b.z() == d):
                        got = d
                        break
                if got is None:
                    raise Inconclusive('symbolic command byte outside the digit class')
                vals.append(got)
        text = bytes(vals)
        kind = None
        for name, rx in CMD_RX:
            mm = rx.match(text)
            if mm:
                kind = name
                arg = mm.group(1) if mm.groups() else None
                break
        if kind is None or in_tx:
            eff.append(m)
            u = text.strip().upper()
            if u in (b'BEGIN', b'START TRANSACTION'):
                in_tx = True
            elif u in (b'COMMIT', b'ROLLBACK', b'END', b'ABORT'):
                in_tx = False
            cmds.append((k, 'stmt', m, sel_shard, sel_role))
            continue
        refused = False
        if kind == 'SetShard':
            if arg.upper() == b'ANY':
                sel_shard = 'any'
            elif int(arg) < nsh:
                sel_shard = int(arg)
            else:
                refused = True
        elif kind == 'SetShardingKey':
            kv = int(arg)
            if -(1 << 63) <= kv < (1 << 63):
                sel_shard = refs.pg_partition_of(kv, nsh)
            else:
                refused = True
        elif kind == 'SetServerRole':
            a = arg.upper()
            sel_role = {b'PRIMARY': 0, b'REPLICA': 1}.get(a, None)
        cmds.append((k, kind, (arg, refused), sel_shard, sel_role))
    # (a) never forwarded: a backend message that is not the client's next forwardable message (origin decided by `judge` against
    # the script without the commands) and equals one of the commands
    cmd_msgs = [script[k] for k, kind, *_ in cmds if kind != 'stmt']
    HE.judge(data, eff, dec, allow_pooler_replies=True)
    for r in data['reqs']:
        if r.get('origin') == 'unknown' and any(HE.same_bytes(dec, r['bytes'], cm) for cm in cmd_msgs):
            V.append(('C13', 'H/command-forwarded', 'backend %d received the pooler command %s' % (r['backend'], HE.show(r['bytes'][:50]))))
    # (b) replies: the client's stream, message by message, with the backend replies removed
    out_msgs, _ = HE.split_messages(data['client_out'], 'bytes written to the client')
    delivered = [d for r in data['reqs'] for d in r['delivered']]
    pooler = []
    di = 0
    for m in out_msgs:
        if di < len(delivered) and HE.same_bytes(dec, m, delivered[di]):
            di += 1
        else:
            pooler.append(m)
    pi = 0

    def take():
        nonlocal pi
        if pi < len(pooler):
            pi += 1
            return pooler[pi - 1]
        return None

    def is_code(m, ch):
        return m is not None and m[0].concrete and m[0].v == ord(ch)

    def eq(m, raw):
        return m is not None and HE.same_bytes(dec, m, [BV(8, b) for b in raw])
    shown_shard = None
    for k, kind, info, sh, ro in cmds:
        if kind == 'stmt':
            continue
        arg, refused = info
        if kind in CMD_TAG:
            first = take()
            if refused:
                ok_ = is_code(first, 'E')
                z = take()
            else:
                ok_ = eq(first, msg('C', CMD_TAG[kind] + b'\0'))
                z = take()
            if not ok_ or not eq(z, msg('Z', b'I')):
                V.append(('C13', 'H/command-reply', 'the pooler command %s is not answered with %s + ReadyForQuery (got %s, %s)' %
                          (HE.show(script[k][5:-1]), 'an ErrorResponse' if refused else 'CommandComplete "%s"' % CMD_TAG[kind].decode(),
                           HE.show(first[:30]) if first else None, HE.show(z) if z else None)))
            if kind == 'SetShard' and refused and not ok_:
                V.append(('C06', 'H/out-of-range-shard-accepted', 'SET SHARD TO %s with %d shards is not refused' % (arg.decode(), nsh)))
        else:
            t, d, c, z = take(), take(), take(), take()
            want = None
            if kind == 'ShowShard':
                want = b'unset' if sh in (None, 'any') else str(sh).encode()
            if not (is_code(t, 'T') and is_code(d, 'D') and is_code(c, 'C') and eq(z, msg('Z', b'I'))):
                V.append(('C13', 'H/command-reply', 'SHOW is not answered with RowDescription, DataRow, CommandComplete, ReadyForQuery (got %s)' %
                          [HE.show(x[:12]) if x else None for x in (t, d, c, z)]))
            elif want is not None:
                val = d[11:]
                if not HE.same_bytes(dec, val, [BV(8, b) for b in want]):
                    V.append(('C13', 'H/show-value', 'SHOW SHARD reports %s after the preceding commands established %s (a refused SET establishes nothing)' %
                              (HE.show(val), 'no shard' if sh in (None, 'any') else 'shard %r' % (sh,))))
    # (c) routing of the statements that follow
    by_msg = {}
    stmts = [(k, m, sh, ro) for k, kind, m, sh, ro in cmds if kind == 'stmt']
    creqs = [r for r in data['reqs'] if r.get('origin') == 'client' and HE.code_of(r['bytes']) in ('QP' if regex else 'Q')]
    if os.environ.get('HDEBUG'):
        print('  ROUTE', [(k, sh, ro) for k, m, sh, ro in stmts], [(r['backend']) for r in creqs], cmds and [(c[0], c[1], c[3]) for c in cmds])
    for (k, m, sh, ro), r in zip(stmts, creqs):
        bshard, brole = binfo[r['backend']]
        if isinstance(sh, int) and bshard != sh:
            V.append(('C06', 'H/wrong-shard', 'statement %s ran on a server of shard %d although the session selected shard %d' % (HE.show(m[5:40]), bshard, sh)))
        if ro is not None and brole != ro:
            for prop_ in ('C13', 'C05'):
                V.append((prop_, 'H/wrong-role', 'statement %s ran on a %s although SET SERVER ROLE selected %s' %
                          (HE.show(m[5:40]), 'primary' if brole == 0 else 'replica', 'primary' if ro == 0 else 'replica')))
    return eff, V


INTERCEPT_REPLY = msg('C', b'INTERCEPTED\0') + msg('Z', b'I')


def install_plugin_stubs(ip, env, msgs, verdicts):
    """The SQL parser and the plugins themselves are decided elsewhere (C05, C19 O1): here `QueryRouter::parse` yields an opaque
    statement list per client message, `execute_plugins` a SYMBOLIC verdict per parsed message (allow / deny / intercept), and
    `infer` leaves the routing state alone.  What is decided is the enforcement in Client::handle."""
    def m_parse(c, qr, mp):
        body = list(items(c.ip, mp))
        for k, m in enumerate(msgs):
            if len(m) == len(body) and all((a.concrete and b.concrete and a.v == b.v) or (a is b) for a, b in zip(m, body)):
                return ok(c.ip, Seq([Opaque('Statement', 'stmt', k)], 'vec'))
        return err(c.ip, c.ip.make_enum('Error', 'QueryRouterParserError', [rstring('unparsable')]))

    def m_plugins(c, qr, astp):
        ast = deref(c.ip, astp)
        k = ast.items[0].data
        if k not in verdicts:
            v = c.ip.fresh(8, 'verdict%d' % k)
            for val in ((0, 1) if env.plugin_verdicts == 'deny-only' else (0, 1, 2)):
                if decide(c.ip, v.z() == val):
                    verdicts[k] = val
                    break
            else:
                c.ip.assume(False)
        vd = verdicts[k]
        if vd == 0:
            out = c.ip.make_enum('PluginOutput', 'Allow')
        elif vd == 1:
            out = c.ip.make_enum('PluginOutput', 'Deny', [rstring('denied by plugin')])
        else:
            out = c.ip.make_enum('PluginOutput', 'Intercept', [Seq([BV(8, b) for b in INTERCEPT_REPLY], 'bytesmut')])
        return Opaque('HookFuture', 'ready', ok(c.ip, out))
    ip.overrides.append((re.compile(r'^(?:query_router::)?QueryRouter::parse$'), m_parse))
    ip.overrides.append((re.compile(r'^(?:query_router::)?QueryRouter::execute_plugins$'), m_plugins))
    ip.overrides.append((re.compile(r'^(?:query_router::)?QueryRouter::infer$'), lambda c, qr, ast: ok(c.ip, unit())))


def effective_script(script, verdicts, cache_on=False):
    """Reference: a simple query whose verdict is deny/intercept is never forwarded; an extended batch containing a Parse whose
    verdict is deny/intercept is dropped as a whole when its Sync or Flush arrives.  With statement caching on, the names such a
    batch tried to prepare are unknown to the pooler afterwards: a later Bind/Describe of one is answered with "prepared
    statement does not exist" and the pooler ends the session (nothing later is forwarded)."""
    eff, denied = [], []
    batch, batch_bad, batch_names = [], False, []
    rejected_names = set()

    def first_same(k):
        # plugins are functions of the statement: identical messages share one verdict (keyed by the first occurrence)
        for j in range(k):
            a, b = script[j], script[k]
            if len(a) == len(b) and all((x.concrete and y.concrete and x.v == y.v) or (x is y) for x, y in zip(a, b)):
                return j
        return k

    def cstr(bs, off):
        out = []
        while off < len(bs) and not (bs[off].concrete and bs[off].v == 0):
            out.append(bs[off].v if bs[off].concrete else -1)
            off += 1
        return tuple(out), off + 1
    for k, m in enumerate(script):
        c = HE.code_of(m)
        bad = verdicts.get(first_same(k), 0) != 0
        if cache_on and c in 'BD':
            if c == 'B':
                _portal, o = cstr(m, 5)
                name, _ = cstr(m, o)
            else:
                name = cstr(m, 6)[0] if (m[5].concrete and m[5].v == ord('S')) else ()
            if name and name in rejected_names:
                return eff, denied
        if c == 'Q':
            cm_ = HE.conc(m)
            if cm_ is not None and any(rx.match(cm_[5:-1]) for _n, rx in CMD_RX):
                continue            # one of the pooler's own commands: answered by the pooler, never forwarded
            (denied if bad else eff).append(m)
        elif c in 'PBDEC':
            batch.append(m)
            if c == 'P':
                batch_names.append(cstr(m, 5)[0])
                if bad:
                    batch_bad = True
                    denied.append(m)
        elif c in 'SH':
            if not batch_bad:
                eff += batch + [m]
                rejected_names -= set(batch_names)
            else:
                rejected_names |= set(n for n in batch_names if n)
            batch, batch_bad, batch_names = [], False, []
        else:
            eff.append(m)
    if not batch_bad:
        eff += batch
    return eff, denied


@expectation('h_violation2')
def h_violation2(prop, key, cache_on, hex2, params2):
    """Native confirmation for the SECOND client of a two-client case: the same reference evaluated on what client B and the
    backends observed after client A had gone."""
    def f(res):
        r = res[0]
        if 'error' in r or 'panic' in r:
            return False, 'native: %r' % (r,)
        data = HE.collect_native(r, session=1)
        script, _rest = HE.split_messages(HE.bvs(hex2), 'second client script')
        dec = HE.Decider(None)
        V = HE.judge(data, script, dec, cache_on=bool(cache_on), expect_incomplete=True)
        V += c12_reference(data, script, dec, params2 or {})
        if cache_on and prop == 'C08':
            try:
                V += c08_reference(data, script, dec, cache_on if not isinstance(cache_on, bool) else None)
            except ValueError:
                pass
        hit = [v for v in V if v[0] == prop and v[1] == key]
        return bool(hit), 'native run: second client state=%s, violations=%s' % (r.get('b_state'), sorted(set((v[0], v[1]) for v in V)))
    return f


def c12_reference(data, script, dec, startup):
    """Before any statement of the client runs on a server connection, that connection's tracked parameters (client_encoding,
    DateStyle, TimeZone, standard_conforming_strings, application_name) equal what the client established: its startup values, then
    its own SETs of tracked parameters (as the server reports them).  `params_before` is the reference backend's ground truth."""
    V = []
    want = dict(HE.PARAM_DEFAULTS)
    for k, v in startup.items():
        want[k] = v.encode('latin1')
    # the client's own SETs, keyed by the forwarded message they are in
    sets = {}
    for i, m in enumerate(script):
        cm = HE.conc(m)
        if cm is None or cm[:1] != b'Q':
            continue
        upd = {}
        for st in cm[5:-1].decode('latin1').split(';'):
            mm = HE.SET_RX.match(st.strip())
            if mm and mm.group(1).lower() in HE.PARAM_CANON:
                upd[HE.PARAM_CANON[mm.group(1).lower()]] = (mm.group(2).replace("''", "'") if mm.group(2) is not None else mm.group(3)).encode('latin1')
        if upd:
            sets[bytes(cm)] = upd
    for r in data['reqs']:
        if r.get('origin') != 'client' or r.get('params_before') is None:
            continue
        got = r['params_before']
        bad = {k: (got.get(k), want[k]) for k in want if got.get(k) != want[k]}
        if bad:
            k = sorted(bad)[0]
            V.append(('C12', 'H/parameter-mismatch', 'the client\'s statement %s runs on backend %d whose %s is %r while the client established %r' %
                      (HE.show(r['bytes'][:40]), r['backend'], k, bad[k][0], bad[k][1])))
            break
        cm = HE.conc(r['bytes'])
        if cm is not None and bytes(cm) in sets:
            want.update(sets[bytes(cm)])
    return V


def program_valid(script):
    """Every Bind / Describe(S) names a statement this client has prepared and not closed (unnamed statement included).  None if undecidable."""
    stmts = set()
    for m in script:
        cm = HE.conc(m)
        if cm is None:
            return None
        c, body = cm[:1], cm[5:]
        if c == b'P':
            stmts.add(body.split(b'\0', 1)[0])
        elif c == b'B':
            if body.split(b'\0', 2)[1] not in stmts:
                return False
        elif c == b'D' and body[:1] == b'S':
            if body[1:].split(b'\0', 1)[0] not in stmts:
                return False
        elif c == b'C' and body[:1] == b'S':
            stmts.discard(body[1:].split(b'\0', 1)[0])
    return True


def c08_reference(data, script, dec, cache_size=None):
    """Statement caching is invisible: every Execute of the client's program runs exactly the text the client most recently prepared
    under the name its Bind used, and a valid program never sees "prepared statement does not exist".  The reference backends put
    two hex digits of a hash of the text they executed into every result row."""
    import hashlib
    V = []
    stmts, portals, expected = {}, {}, []
    valid = True
    align = True            # (which result row belongs to which statement is only decided for programs of plain SELECTs)
    batch_names, widest = set(), 0
    bound_in_batch, rebound = {}, False
    for m in script:
        cm = HE.conc(m)
        if cm is None:
            return V
        c, body = cm[:1], cm[5:]
        if c == b'S':
            widest = max(widest, len(batch_names))
            batch_names = set()
            bound_in_batch = {}
        if c == b'P':
            name, sql, _ = body.split(b'\0', 2)
            if name and name in bound_in_batch and bound_in_batch[name] != sql:
                rebound = True      # the name was bound earlier in this batch with another text: two versions of one name in one batch
            stmts[name] = sql
            if name:
                batch_names.add((name, sql))
        elif c == b'B':
            portal, name, _ = body.split(b'\0', 2)
            if name not in stmts:
                valid = False
            if name:
                batch_names.add((name, stmts.get(name)))
                bound_in_batch.setdefault(name, stmts.get(name))
            portals[portal] = name
        elif c == b'D' and body[:1] == b'S':
            if body[1:].split(b'\0', 1)[0] not in stmts:
                valid = False
        elif c == b'E':
            sql = stmts.get(portals.get(body.split(b'\0', 1)[0]))
            if sql is None:
                continue        # (an Execute of a statement this client never prepared: see `valid`)
            if not sql.upper().startswith(b'SELECT') or b'1/0' in sql or b'notyet' in sql.lower():
                align = False
            expected.append(sql)
        elif c == b'C' and body[:1] == b'S':
            stmts.pop(body[1:].split(b'\0', 1)[0], None)
        elif c == b'Q':
            t = body[:-1].strip().rstrip(b';')
            if t.upper().startswith(b'SELECT') and b'1/0' not in t and b';' not in t:
                expected.append(t)
            elif t.upper() not in (b'BEGIN', b'COMMIT', b'ROLLBACK'):
                align = False
    out_msgs, _ = HE.split_messages(data['client_out'], 'bytes written to the client')
    rows = []
    missing = []
    for m in out_msgs:
        cm = HE.conc(m)
        if cm is None:
            continue
        if cm[:1] == b'D' and len(cm) == 5 + 2 + 4 + 8:
            rows.append(cm[-2:])
        if cm[:1] == b'E' and b'C26000' in cm and b'VFATAL' not in cm and valid and not missing:
            # classified by input class: one batch that uses more distinct named statements than the server-side cache holds
            cls = 'batch-exceeds-cache' if (cache_size is not None and widest > cache_size) else ('rebound-name-in-batch' if rebound else 'other')
            missing.append(('C08', 'H/statement-missing-on-server/' + cls, 'the client\'s valid program is answered "prepared statement does not exist" by a server '
                            '(largest batch uses %d distinct named statement versions, statement cache size %s)' % (widest, cache_size)))
    V += missing
    if valid and data['outcome'] == ('done', 'Err') and data.get('client_read') is not None and not data.get('client_write_failed') \
            and data['client_read'] < sum(len(m) for m in script):
        V.append(('C08', 'H/valid-program-rejected', 'the pooler ends the session of a client whose program is valid (every Bind/Describe names a statement the client has prepared and not closed)'))
    if not valid and rows and not expected:
        V.append(('C08', 'H/foreign-statement-executed', 'the client bound a statement name it never prepared and got a result row: a statement of another client was executed for it'))
    for k, (sql, got) in enumerate(zip(expected, rows) if align else ()):
        want = b'%02x' % hashlib.sha256(sql).digest()[0]
        if got != want:
            V.append(('C08', 'H/wrong-statement-executed', 'result %d of the session was produced by a statement other than %r, which the client had prepared for it' % (k, sql)))
            break
    return V


def sql_of(m):
    """Statement text of a Query / Parse message (concrete)."""
    cm = HE.conc(m)
    if cm is None:
        return None
    if cm[:1] == b'Q':
        return cm[5:]
    if cm[:1] == b'P':
        return cm[5:].split(b'\0', 2)[1] + b'\0'
    return None


def model_byte(m, b):
    if b.concrete:
        return b.v
    if m is None:
        return 0
    v = m.eval(b.z(), model_completion=True)
    return v.as_long()


def decv(b):
    return b.v if b is not None and b.concrete else None


@expectation('h_violation')
def h_violation(prop, key, cache_on, incomplete, hexs, n_before=None, denied_hex=(), eff_hex=None, custom_shards=None, params=None, regex=False):
    """Native confirmation: the same reference model, evaluated on what the Rust reference backends and the two client
    sockets observed when the concrete script was played against the compiled pgcat."""
    def f(res):
        # (when the pool has several servers the native choice among them is random: the scenario is then run several times and
        # counts as reproduced if any run shows the violation)
        last = (False, 'no native run')
        for r in res:
            last = f1(r)
            if last[0]:
                return last
        return last

    def f1(r):
        if 'error' in r or 'panic' in r:
            return False, 'native: %r' % (r,)
        data = HE.collect_native(r)
        complete, _rest = HE.split_messages(HE.bvs(eff_hex[0] if eff_hex else hexs), 'client script')
        dmsgs = [HE.bvs(h) for h in (denied_hex or ())]
        dsql = [sql_of(dm) for dm in dmsgs]
        dec = HE.Decider(None)
        customV = []
        if custom_shards:
            complete, customV = custom_reference(data, complete, dec, custom_shards, regex=regex)
        V = HE.judge(data, complete, dec, cache_on=cache_on, expect_incomplete=incomplete,
                     denied=(lambda mm: HE.conc(mm)[:1] in (b'Q', b'P') and any(t and t in HE.conc(mm) for t in dsql)) if dmsgs else None,
                     allow_pooler_replies=bool(eff_hex or custom_shards)) + customV
        if params is not None:
            full, _r = HE.split_messages(HE.bvs(hexs), 'client script')
            V += c12_reference(data, full, dec, params)
        if cache_on and prop == 'C08':
            full, _r = HE.split_messages(HE.bvs(hexs), 'client script')
            V += c08_reference(data, full, dec, cache_on if isinstance(cache_on, int) and not isinstance(cache_on, bool) else None)
            if key == 'H/valid-program-rejected' and 'prepared statement' in r.get('a_result', '') and r.get('a_result', '').startswith('err'):
                V.append(('C08', 'H/valid-program-rejected', 'native: the session ended with %s' % r.get('a_result')))
        hit = [v for v in V if v[0] == prop and v[1] == key]
        if prop == 'C16' and key == 'H/checkout-while-paused':
            # natively the pause gate is observed as: a request sent after PAUSE reaches a backend while the pool is still paused
            n = sum(1 for rq in data['reqs'] if rq.get('origin') == 'client')
            hit = [1] if (r.get('paused_at_end') and n > (n_before or 0)) else []
        if prop == 'C10':
            # natively: the cancel map still has an entry although the session holds no server (idle outside a transaction / gone),
            # or has none / a wrong one while it holds one
            ents = r.get('csmap_after_a', [])
            if key == 'H/stale-cancel-key':
                hit = [1] if ents else []
            else:
                hit = [1] if not ents else []
        if prop == 'C18' and key == 'H/client-state':
            # natively: what SHOW CLIENTS lists for the (still connected, silent) client, against whether its request left it a server
            st = [x[0] for x in (r.get('clients_after_a') or [])]
            busy = any(decv(rq.get('status_after')) != ord('I') for rq in data['reqs'][-1:])
            hit = [1] if (len(st) == 1 and st[0] != ('active' if busy else 'idle')) else []
        if prop == 'C18' and key in ('H/transaction-total', 'H/query-total') and cache_on:
            hit = []
        elif prop == 'C18' and key in ('H/transaction-total', 'H/query-total'):
            # natively: the still-connected client's counters in the registry against what the reference backends executed for it
            st = r.get('clients_after_a') or []
            units = [rq for rq in data['reqs'] if rq.get('origin') == 'client' and HE.code_of(rq['bytes']) in 'QS']
            want_q = len(units)
            ends = [rq for rq in data['reqs'] if rq.get('origin') == 'client' and HE.code_of(rq['bytes']) in 'QScf' and not rq.get('started_copy')]
            want_tx = sum(1 for rq in ends if rq['delivered'] and decv(rq.get('status_after')) == ord('I'))
            own = sum(1 for mm in complete if HE.code_of(mm) == 'S') - sum(1 for rq in units if HE.code_of(rq['bytes']) == 'S')
            if len(st) == 1:
                ntx, nq = st[0][1], st[0][2]
                bad = (not (want_tx <= ntx <= want_tx + max(0, own))) if key == 'H/transaction-total' else (nq != want_q)
                hit = [1] if bad else []
            else:
                hit = []
        if prop == 'C07':
            # natively: the reference backend sleeps 1.5 s on the pg_sleep statement, statement_timeout (500 ms) fires; is any server banned afterwards?
            hit = [1] if (r.get('bans') == 0) else []
        if prop == 'C18' and key == 'H/server-state':
            # natively: SHOW SERVERS lists a connection of this pool as active although the client holds none (gone, or idle outside a transaction)
            busy = r.get('a_result') == 'still-running' and any(decv(rq.get('status_after')) != ord('I') for rq in data['reqs'][-1:])
            hit = [1] if (not busy and 'active' in (r.get('servers_after_a') or [])) else []
        if prop == 'C18' and key.startswith('H/client-never-unregistered'):
            # natively: the client's task is over but SHOW CLIENTS would still list it
            hit = [1] if (r.get('a_result') != 'still-running' and r.get('clients_after_a')) else []
        if prop == 'C17':
            aout = bytes.fromhex(r.get('a_out', ''))
            announced = b'terminating connection due to administrator command' in aout and r.get('a_result') == 'ok'
            n_client = sum(1 for rq in data['reqs'] if rq.get('origin') == 'client')
            if key == 'H/shutdown-not-announced':
                hit = [1] if not announced else []
            else:
                # the transaction in progress was cut short: fewer of the client's statements reached a backend than it sent inside it
                hit = [1] if any(v[1] in ('H/request-not-forwarded', 'H/pooler-rollback-mid-session') for v in
                                 HE.judge(data, complete, dec, cache_on=cache_on)) else []
        if key == 'H/checkout-failure-ends-session':
            # natively: the requests the client sent after the one that got the pool error never reach a backend
            hit = [1] if any(v[1] == 'H/request-not-forwarded' for v in V) else []
        if key == 'H/idle-client-keeps-server':
            # the second client (pool of ONE connection) is not served while the first one sits idle outside a transaction
            bout = bytes.fromhex(r.get('b_out', ''))
            served = b'SELECT 1\x00Z' in bout
            hit = [1] if (r.get('a_result') == 'still-running' and not served) else []
        if prop == 'C16' and key == 'H/held-after-resume':
            hit = [1] if (r.get('a_result') == 'still-running' or any(v[1] == 'H/request-not-forwarded' for v in V)) else []
        return (bool(hit), 'native run: a_result=%s, client-originated requests seen by backends=%d, violations=%s' %
                (r.get('a_result'), sum(1 for rq in data['reqs'] if rq.get('origin') == 'client'), sorted(set((v[0], v[1]) for v in V))))
    return f
